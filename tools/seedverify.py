#!/usr/bin/env python3
"""Verify and file a seeded property-breaking change produced by a fresh sub-agent.
usage: tools/seedverify.py C08 [--no-baseline] [--tier quick] [--checks C08,C01]
Steps (all in a scratch worktree, /repo is never modified):
  1. demo.py passes on /repo (exit 0)            2. patch applies to a scratch worktree of /repo HEAD
  3. demo.py fails on the patched tree (exit 1)  4. pinned baseline tests still pass on the patched tree
  5. ./check <prop> (VERIF_REPO=<patched tree>) -> caught (exit 1) / missed
Writes /verif/seeded/<id>/{patch.diff,demo.py,meta.json}."""
import argparse, json, os, shutil, subprocess, sys, tempfile, time

ROOT = os.path.dirname(os.path.dirname(os.path.abspath(__file__)))
ap = argparse.ArgumentParser()
ap.add_argument("prop"); ap.add_argument("--src"); ap.add_argument("--no-baseline", action="store_true")
ap.add_argument("--tier", default="quick"); ap.add_argument("--checks"); ap.add_argument("--id")
a = ap.parse_args()
prop = a.prop.upper()
sid = a.id or prop
src = a.src or "/tmp/seedwork-%s" % prop
dst = os.path.join(ROOT, "seeded", sid)
os.makedirs(dst, exist_ok=True)
for f in ("patch.diff", "demo.py"):
    if os.path.abspath(src) != os.path.abspath(dst):
        shutil.copy(os.path.join(src, f), os.path.join(dst, f))
meta = {"id": sid, "property": prop, "made_by": "fresh sub-agent given only the property text and a scratch worktree", "verified": {}}
def run(cmd, **kw):
    return subprocess.run(cmd, stdout=subprocess.PIPE, stderr=subprocess.STDOUT, text=True, **kw)
tmpd = tempfile.mkdtemp(prefix="seedv-")
r = run(["/venv/bin/python", os.path.join(dst, "demo.py"), "/repo"], cwd=tmpd, timeout=1800)
meta["verified"]["demo_on_unmodified_repo"] = {"exit": r.returncode, "tail": r.stdout[-400:]}
wt = tempfile.mkdtemp(prefix="wt-seed-"); os.rmdir(wt)
run(["git", "-C", "/repo", "worktree", "add", "-q", "--detach", wt, "HEAD"])
try:
    ap_ = run(["git", "-C", wt, "apply", "--3way", os.path.join(dst, "patch.diff")])
    if ap_.returncode != 0:
        ap_ = run(["git", "-C", wt, "apply", os.path.join(dst, "patch.diff")])
    meta["verified"]["patch_applies"] = ap_.returncode == 0
    if ap_.returncode != 0:
        print("PATCH DOES NOT APPLY", ap_.stdout)
    r = run(["/venv/bin/python", os.path.join(dst, "demo.py"), wt], cwd=tmpd, timeout=1800)
    meta["verified"]["demo_on_patched_tree"] = {"exit": r.returncode, "tail": r.stdout[-600:]}
    if not a.no_baseline:
        b = run(["python3", os.path.join(ROOT, "tools", "baseline_compare.py"), wt], timeout=7200)
        meta["verified"]["pinned_tests_on_patched_tree"] = {"exit": b.returncode, "summary": b.stdout.strip().splitlines()[0] if b.stdout.strip() else ""}
    results = {}
    for c in (a.checks.split(",") if a.checks else [prop]):
        t0 = time.time()
        k = run([os.path.join(ROOT, "check"), c, "--tier", a.tier, "--no-evidence"], env=dict(os.environ, VERIF_REPO=wt), cwd=ROOT, timeout=14400)
        keys = [l.strip()[:260] for l in k.stdout.splitlines() if l.strip().startswith("key=")]
        results[c] = {"exit": k.returncode, "caught": k.returncode == 1, "keys": keys[:6], "wall_s": round(time.time() - t0), "last": k.stdout.strip().splitlines()[-1][:300] if k.stdout.strip() else ""}
    meta["checks_run"] = {"tier": a.tier, "how": "./check <id> --tier %s with VERIF_REPO=<scratch worktree with the patch applied> (equivalent to git -C /repo apply; /repo itself is shared with running agents and is not modified)" % a.tier, "results": results}
finally:
    run(["git", "-C", "/repo", "worktree", "remove", "--force", wt]); shutil.rmtree(wt, ignore_errors=True); shutil.rmtree(tmpd, ignore_errors=True)
    run(["git", "-C", "/repo", "worktree", "prune"])
old = {}
mp = os.path.join(dst, "meta.json")
if os.path.exists(mp):
    old = json.load(open(mp))
for k in ("what", "needs_to_manifest", "summary"):
    if k in old: meta[k] = old[k]
json.dump(meta, open(mp, "w"), indent=1)
print(json.dumps(meta, indent=1)[:3000])
