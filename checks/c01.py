"""C01 - the reactor model tree stays a well-formed tree under any edit history.

Monitors
* invariant hooks on every structural mutator (Composite.add/insert/remove/removeAll/setChildren/sort, Block.add/remove,
  Assembly.add/insert/reestablishBlockOrder, ArmiObject.__setstate__): after each call - including the calls armi makes to
  itself while building, copying or re-ordering - the touched composite must list each child once and be its parent;
* a shadow model (plain lists of objects maintained by the harness from the intended effect of each operation);
* a traversal oracle: a 12-line recursive walk that only uses ``list(node)``;
* copy/pickle isolation: identity-disjoint node sets, internal back pointers stay inside the copy; every child whose locator lived
  in its parent's grid (also each sub-location of a multi-location) lives in the copy's grid afterwards;
* independent references for filtered queries: flag matches are recomputed from the integer bit patterns of the stored flags, type
  names from the name the harness (or the generated blueprint) gave the object at construction;
* discharge into the spent fuel pool is a MOVE in the shadow model (half the reactors track their assemblies).
Judged domain: valid-usage histories (DESIGN.md section 3): add/insert receive detached objects, remove receives a child.
"""
import copy
import pickle
import random

PROP = "C01"
LEVEL = "exploration"
RULE = (
    "four tree families built from real classes (generic Composite trees with grids; HexBlocks of components; HexAssemblies of blocks; "
    "reactors from generated blueprints) x histories of 10-80 operations from {add, insert, remove, re-add elsewhere, removeAll, setChildren "
    "(permutation/subset/new), sort, reestablishBlockOrder, replaceBlockWithBlock, deepcopy, pickle round trip, then edit both}; after every "
    "operation the global invariants, the shadow model and 3 random traversal queries are judged. Blocks get a pin grid (HexBlock."
    "autoCreateSpatialGrids / Assembly.orientBlocks: multi-index locators for mult>1 components) in ~70% of the block/assembly cases and always "
    "where armi's Core.add makes one; half the reactors are built with trackAssems so that discharge moves the assembly into the spent fuel "
    "pool; core and pool child order is judged (insertion order; K,J,I order after sort). distinct = (family, operation, query kind, "
    "tree shape signature); non-trivial = tree has >= 3 nodes."
)
FLOORS = {"quick": {"invariant.global": 3000, "shadow": 2500, "traversal": 6000, "copy.isolation": 300, "hook:Composite.add": 2000, "hook:Composite.remove": 500, "hook:ArmiObject.__setstate__": 500,
                    "ancestor.flags": 1000, "ancestor.flags-exactness-decides-above-self": 15, "flags.query-selects-proper-subset": 150, "type.query-by-construction-name": 300,
                    "copy.locator-relinked": 1500, "copy.multi-location-relinked": 600, "copy.reactor-links": 8, "detached.multi-location": 2500,
                    "core.order": 120, "discharge.move-to-sfp": 10, "sort.order-by-location": 300, "copy.edited-on-a-vacated-cell": 4, "query-scratch": 400, "query-scratch/getChildren()": 60, "setChildren.fed-with-edited-getChildren-result": 80},
          "thorough": {"invariant.global": 60000, "shadow": 50000, "traversal": 120000, "copy.isolation": 6000, "hook:Composite.add": 40000, "hook:Composite.remove": 10000, "hook:ArmiObject.__setstate__": 10000,
                       "ancestor.flags": 20000, "ancestor.flags-exactness-decides-above-self": 300, "flags.query-selects-proper-subset": 3000, "type.query-by-construction-name": 5000,
                       "copy.locator-relinked": 12000, "copy.multi-location-relinked": 5000, "copy.reactor-links": 50, "detached.multi-location": 50000,
                       "core.order": 800, "discharge.move-to-sfp": 70, "sort.order-by-location": 6000, "copy.edited-on-a-vacated-cell": 80, "query-scratch": 8000, "query-scratch/getChildren()": 1200, "setChildren.fed-with-edited-getChildren-result": 1600}}
REC = [None]


def plan(tier, seed):
    q = tier == "quick"
    out = [{"name": "gen%d" % i, "family": "generic", "n": 50 if q else 1000, "ops": 50} for i in range(4)]
    out += [{"name": "blk%d" % i, "family": "block", "n": 25 if q else 500, "ops": 30} for i in range(4)]
    out += [{"name": "asm%d" % i, "family": "assembly", "n": 12 if q else 250, "ops": 30} for i in range(4)]
    out += [{"name": "core%d" % i, "family": "core", "n": 8 if q else 60, "ops": 30} for i in range(4)]
    return out


# ----------------------------------------------------------------------------- hooks
def install_hooks():
    from armi.reactor import assemblies, blocks, composites
    from vlib import hooks

    def local_ok(self, where):
        rec = REC[0]
        kids = list(self)
        rec.hit("invariant.local")
        if len({id(k) for k in kids}) != len(kids):
            rec.violation("hook/child-listed-twice/" + where, "%r lists a child twice after %s" % (self, where), {"where": where})
        for k in kids:
            if k.parent is not self:
                rec.violation("hook/child-parent-mismatch/" + where, "after %s child %r of %r has parent %r" % (where, k, self, k.parent), {"where": where})
                break

    def post_factory(where, removed_arg=None):
        def post(tok, res, a, kw):
            local_ok(a[0], where)
            if removed_arg is not None:
                obj = a[removed_arg]
                if obj.parent is not None and not any(o is obj for o in obj.parent):
                    REC[0].violation("hook/removed-object-keeps-parent", "removed %r still points at parent %r" % (obj, obj.parent), {})
        return post

    hooks.wrap(composites.Composite, "add", post=post_factory("Composite.add"))
    hooks.wrap(composites.Composite, "insert", post=post_factory("Composite.insert"))
    hooks.wrap(composites.Composite, "remove", post=post_factory("Composite.remove", 1))
    hooks.wrap(composites.Composite, "removeAll", post=post_factory("Composite.removeAll"))
    hooks.wrap(composites.Composite, "setChildren", post=post_factory("Composite.setChildren"))
    hooks.wrap(composites.Composite, "sort", post=post_factory("Composite.sort"))
    hooks.wrap(blocks.Block, "add", post=post_factory("Block.add"))
    hooks.wrap(blocks.Block, "remove", post=post_factory("Block.remove", 1))
    hooks.wrap(assemblies.Assembly, "add", post=post_factory("Assembly.add"))
    hooks.wrap(assemblies.Assembly, "insert", post=post_factory("Assembly.insert"))
    hooks.wrap(assemblies.Assembly, "reestablishBlockOrder", post=post_factory("Assembly.reestablishBlockOrder"))

    def post_setstate(tok, res, a, kw):
        self = a[0]
        try:
            kids = list(self)
        except Exception:
            return
        local_ok(self, "__setstate__")
        if self.spatialGrid is not None and self.spatialGrid.armiObject is not self:
            REC[0].violation("hook/setstate-grid-owner", "after __setstate__ spatialGrid.armiObject is not self for %r" % self, {})

    hooks.wrap(composites.ArmiObject, "__setstate__", post=post_setstate, key="ArmiObject.__setstate__")


# ----------------------------------------------------------------------------- reference walk and invariants
def walk(node):
    """Naive pre-order walk using only the public iteration of each node."""
    out = []
    for c in list(node):
        out.append(c)
        out.extend(walk(c))
    return out


def generation(node, g):
    cur = [node]
    for _ in range(g):
        nxt = []
        for n in cur:
            nxt.extend(list(n))
        cur = nxt
    return cur


def same_objects(a, b):
    return len(a) == len(b) and all(x is y for x, y in zip(a, b))


def same_set(a, b):
    return len(a) == len(b) and sorted(map(id, a)) == sorted(map(id, b))


def check_global(rec, roots, detached, w):
    """Every reachable object has exactly one parent = the node listing it; grids point at their owner; detached objects are free."""
    rec.hit("invariant.global")
    seen = {}
    for root in roots:
        stack = [root]
        while stack:
            n = stack.pop()
            kids = list(n)
            if len({id(k) for k in kids}) != len(kids):
                rec.violation("tree/child-listed-twice", "%r lists a child more than once" % n, w)
            for k in kids:
                if id(k) in seen:
                    rec.violation("tree/object-has-two-parents", "%r is listed by %r and by %r" % (k, seen[id(k)], n), w)
                    continue
                seen[id(k)] = n
                if k.parent is not n:
                    rec.violation("tree/child-parent-mismatch", "%r is listed by %r but its parent is %r" % (k, n, k.parent), w)
                stack.append(k)
            g = getattr(n, "spatialGrid", None)
            if g is not None and g.armiObject is not n:
                rec.violation("tree/grid-owner-mismatch", "spatialGrid of %r is anchored to %r" % (n, g.armiObject), w)
        if root.parent is not None and id(root) not in seen and not any(root.parent is r_ for r_ in roots):
            pass
    for d in detached:
        if id(d) in seen:
            continue  # re-attached meanwhile
        if d.parent is not None:
            rec.violation("tree/removed-object-keeps-parent", "removed object %r still has parent %r" % (d, d.parent), w)
        loc = d.spatialLocator
        if loc is not None and getattr(loc, "grid", None) is not None:
            rec.violation("tree/removed-object-keeps-grid-location", "removed object %r still holds a locator in grid of %r" % (d, loc.grid.armiObject), w)
        subs = sub_locations(loc)
        if subs:
            # a multi-index locator is "mostly just a list of IndexLocation objects": the removed object is detached only if
            # none of the places it occupies is still a cell of somebody's grid
            rec.hit("detached.multi-location")
            held = [s_ for s_ in subs if getattr(s_, "grid", None) is not None]
            if held:
                rec.violation("tree/removed-object-keeps-grid-location/multi-sub-locations",
                              "removed object %r has a detached multi-index locator, but %d of its %d sub-locations are still cells of the grid of %r"
                              % (d, len(held), len(subs), held[0].grid.armiObject), w)
    return seen


def sub_locations(loc):
    """the IndexLocations inside a MultiIndexLocation ([] for every other locator)"""
    from armi.reactor.grids import MultiIndexLocation

    return list(loc) if isinstance(loc, MultiIndexLocation) else []


def flag_bits(o):
    """integer bit pattern of the flags stored on an object (0 = none)"""
    try:
        f = o.p.flags
    except Exception:
        return 0
    return int(f) if f is not None else 0


def flag_match(o, spec, exact):
    """Independent of armi's hasFlags; written from the bit semantics it documents: None matches everything unless exact; a list is
    'any of'; an object without flags matches nothing; otherwise all bits of the spec must be set, and no others when exact."""
    if spec is None:
        return not exact
    if isinstance(spec, (list, tuple)):
        return any(flag_match(o, s_, exact) for s_ in spec)
    have, want = flag_bits(o), int(spec)
    if have == 0:
        return False
    return have == want if exact else (have & want) == want


def pick_spec(rng, nodes, pool):
    """a flag spec for a query: random names, bits/bit sets actually present on the given nodes (so that exact and inexact matching
    differ), two-flag combinations (a|b = both required) and lists (= any of)"""
    from armi.reactor.flags import Flags

    def single():
        return Flags.fromString(rng.choice(pool))

    def present():
        cands = [f for f in (flag_bits(n) for n in nodes) if f]
        if not cands:
            return single()
        f = rng.choice(cands)
        bits = [1 << k for k in range(f.bit_length()) if (f >> k) & 1]
        u = rng.random()
        if u < .5:
            return Flags(rng.choice(bits))
        if u < .8:
            return Flags(f)
        return Flags(f) | single()

    u = rng.random()
    if u < .25:
        return single()
    if u < .7:
        return present()
    if u < .85:
        return single() | single()
    return [present(), single()]


def spec_repr(spec):
    return [str(s_) for s_ in spec] if isinstance(spec, (list, tuple)) else str(spec)


TYPE_ATTR = "_c01_type"  # harness-side stamp: the type name an object was constructed with (survives copy/pickle like any attribute)
QUERY_KINDS = ["children", "deep", "generation", "predicate", "deep-predicate", "flags", "flags-exact", "type", "components", "components-flags", "ancestor", "contains-index", "iter"]


def check_traversal(rec, rng, root, w):
    from armi.reactor.components import Component
    from armi.reactor.flags import Flags

    nodes = [root] + walk(root)
    node = rng.choice(nodes)
    kind = rng.choice(QUERY_KINDS)
    rec.hit("traversal")
    w = dict(w, query=kind, node=repr(node))
    pool = ["fuel", "clad", "duct", "coolant", "control", "shield", "bond", "wire", "intercoolant", "reflector", "plenum", "gap"]
    try:
        if kind == "children":
            got, ref = node.getChildren(), list(node)
            ok = same_objects(got, ref)
        elif kind == "iter":
            got, ref = list(node.iterChildren()), list(node)
            ok = same_objects(got, ref) and len(node) == len(ref)
        elif kind == "deep":
            got, ref = node.getChildren(deep=True), walk(node)
            ok = same_set(got, ref) and sibling_order_ok(got)
        elif kind == "generation":
            g = rng.randint(1, 4)
            got, ref = node.getChildren(generationNum=g), generation(node, g)
            ok = same_objects(got, ref) and same_objects(list(node.iterChildren(generationNum=g)), ref)
            w["generation"] = g
        elif kind in ("predicate", "deep-predicate"):
            k = rng.randint(2, 4)
            pred = lambda o, k=k: len(o.name) % k == 0
            deep = kind == "deep-predicate"
            got = node.getChildren(deep=deep, predicate=pred)
            ref = [o for o in (walk(node) if deep else list(node)) if pred(o)]
            ok = same_set(got, ref) and sibling_order_ok(got) and (deep or same_objects(got, ref))
        elif kind in ("flags", "flags-exact"):
            spec = pick_spec(rng, list(node), pool)
            exact = kind == "flags-exact"
            w["spec"], w["exact"] = spec_repr(spec), exact
            got = node.getChildrenWithFlags(spec, exactMatch=exact)
            ref = [o for o in list(node) if flag_match(o, spec, exact)]
            ok = same_objects(got, ref) and same_objects(list(node.iterChildrenWithFlags(spec, exact)), ref)
            if ref and len(ref) < len(node):
                rec.hit("flags.query-selects-proper-subset")
        elif kind == "type":
            # reference: the type name the object was given when it was constructed (by the harness, or by the generated
            # blueprint), kept on the object by the harness - never armi's getType()
            if not len(node) and node.parent is not None:
                node = node.parent  # a leaf has nothing to select from: ask its parent instead
                w["node"] = repr(node)
            kids = list(node)
            stamps = [getattr(o, TYPE_ATTR, None) for o in kids]
            if not kids or any(s_ is None for s_ in stamps):
                rec.skip("type-name query on children whose construction-time type name the harness does not know (generic composites, systems)")
                return kind
            t = rng.choice(stamps + ["nonexistent"])
            w["type"] = t
            got, ref = node.getChildrenOfType(t), [o for o, s_ in zip(kids, stamps) if s_ == t]
            ok = same_objects(got, ref) and same_objects(list(node.iterChildrenOfType(t)), ref)
            rec.hit("type.query-by-construction-name")
        elif kind in ("components", "components-flags"):
            everything = ([node] if isinstance(node, Component) else []) + walk(node)
            comps = [o for o in everything if isinstance(o, Component)]
            exact = rng.random() < .5
            if kind == "components":
                spec = None
                if exact:
                    # getComponents says "exact has no impact if typeSpec is None", hasFlags says "None matches no object if
                    # exact": the two documents disagree, so this combination is outside the judged domain
                    rec.skip("getComponents(None, exact=True): getComponents and hasFlags document different results")
                    return kind
            else:
                spec = pick_spec(rng, comps, pool)
            w["spec"], w["exact"] = spec_repr(spec), exact
            got = node.getComponents(spec, exact)
            ref = [o for o in comps if flag_match(o, spec, exact)]
            ok = same_objects(got, ref) and same_objects(list(node.iterComponents(spec, exact)), ref)
        elif kind == "ancestor":
            chain = []
            n = node
            while n is not None:
                chain.append(n)
                n = n.parent
            k = rng.randint(2, 5)
            pred = lambda o, k=k: len(o.name) % k == 1
            ref = next(((o, i) for i, o in enumerate(chain) if pred(o)), None)
            got = node.getAncestor(pred)
            got2 = node.getAncestorAndDistance(pred)
            ok = (got is (ref[0] if ref else None)) and ((got2 is None and ref is None) or (got2 is not None and ref is not None and got2[0] is ref[0] and got2[1] == ref[1]))
            spec = pick_spec(rng, chain, pool)
            exact = rng.random() < .5
            w["spec"], w["exact"] = spec_repr(spec), exact
            refF = next((o for o in chain if flag_match(o, spec, exact)), None)
            gotF = node.getAncestorWithFlags(spec, exactMatch=exact) if (exact or rng.random() < .5) else node.getAncestorWithFlags(spec)
            ok = ok and gotF is refF
            rec.hit("ancestor.flags")
            if refF is not next((o for o in chain if flag_match(o, spec, not exact)), None):
                rec.hit("ancestor.flags-exactness-decides")
                if refF is not chain[0] and not flag_match(chain[0], spec, False):
                    rec.hit("ancestor.flags-exactness-decides-above-self")
            ref, got = (ref, refF), (got, got2, gotF)
        else:  # contains / index
            kids = list(node)
            other = rng.choice(nodes)
            ok = (other in node) == any(other is k for k in kids)
            if kids:
                i = rng.randrange(len(kids))
                ok = ok and node.index(kids[i]) == next(j for j, k in enumerate(kids) if k is kids[i]) and node[i] is kids[i]
            got, ref = None, None
        if not ok:
            rec.violation("traversal/%s-differs-from-naive-walk" % kind, "query %s on %r returned %s; naive walk gives %s" % (kind, node, short(got), short(ref)), w)
    except Exception as e:
        rec.crash("traversal/" + kind, e, w)
    return kind


def sibling_order_ok(objs):
    """objects that share a parent appear in that parent's child order"""
    pos = {}
    for o in objs:
        p = o.parent
        if p is None:
            continue
        kids = list(p)
        idx = next((j for j, k in enumerate(kids) if k is o), None)
        if idx is None:
            return False
        if pos.get(id(p), -1) >= idx:
            return False
        pos[id(p)] = idx
    return True


def short(x):
    try:
        return [getattr(o, "name", repr(o)) for o in x][:12]
    except TypeError:
        return repr(x)[:200]


def shape(node):
    # "equal-shaped": same classes and child structure; names are compared below the copied root only where armi keeps them
    # (Core.__deepcopy__ renames the copy "<name>-copy" by design, assemblies are renamed by makeUnique)
    return (type(node).__name__, [shape(c) for c in list(node)])


def shape_sig(node):
    kids = list(node)
    return [type(node).__name__, len(kids), sorted({len(list(k)) for k in kids})[:4]]


def all_parts(node):
    """ids of every object a copy must not share: nodes, parameter collections, grids, locators, materials"""
    ids = {}
    for n in [node] + walk(node):
        ids[id(n)] = ("node", n)
        ids[id(n.p)] = ("params", n)
        if n.spatialGrid is not None:
            ids[id(n.spatialGrid)] = ("grid", n)
        if n.spatialLocator is not None:
            ids[id(n.spatialLocator)] = ("locator", n)
            for sl in sub_locations(n.spatialLocator):
                ids[id(sl)] = ("locator", n)
        m = getattr(n, "material", None)
        if m is not None:
            ids[id(m)] = ("material", n)
    return ids


def check_copy(rec, orig, cp, how, w):
    rec.hit("copy.isolation")
    w = dict(w, copy=how)
    try:
        if shape(orig) != shape(cp):
            rec.violation("copy/%s/shape-differs" % how, "copy has a different shape/names than the original", w)
            return
        a, b = all_parts(orig), all_parts(cp)
        shared = set(a) & set(b)
        if shared:
            kinds = sorted({a[i][0] for i in shared})
            rec.violation("copy/%s/shares-%s" % (how, "+".join(kinds)), "copy shares %d objects with the original (%s), e.g. of %r" % (len(shared), kinds, a[next(iter(shared))][1]), w)
        # a reactor's shortcuts to its own children (r.core, r.excore[name]) must lead to the copy's children
        ex_o, ex_c = getattr(orig, "excore", None), getattr(cp, "excore", None)
        if isinstance(ex_o, dict):
            rec.hit("copy.reactor-links")
            kids_o, kids_c = list(orig), list(cp)
            for nm_, s_o in dict.items(ex_o):
                idx = next((j for j, k in enumerate(kids_o) if k is s_o), None)
                if idx is not None and (not isinstance(ex_c, dict) or dict.get(ex_c, nm_) is not kids_c[idx]):
                    rec.violation("copy/%s/reactor-excore-not-relinked" % how, "the original reactor reaches its child %r as excore[%r]; the copy's excore collection holds %s"
                                  % (s_o, nm_, sorted(dict.keys(ex_c)) if isinstance(ex_c, dict) else repr(ex_c)), w)
                    break
            idx = next((j for j, k in enumerate(kids_o) if k is getattr(orig, "core", None)), None)
            if idx is not None and getattr(cp, "core", None) is not kids_c[idx]:
                rec.violation("copy/%s/reactor-core-not-relinked" % how, "the copy's .core is %r, not its own child %r" % (getattr(cp, "core", None), kids_c[idx]), w)
        if cp.parent is not None:
            rec.violation("copy/%s/copy-keeps-parent" % how, "copied subtree root points at parent %r" % cp.parent, w)
        inside = {id(n) for n in [cp] + walk(cp)}
        for n in [cp] + walk(cp):
            for k in list(n):
                if k.parent is not n:
                    rec.violation("copy/%s/child-not-relinked" % how, "in the copy %r lists %r whose parent is %r" % (n, k, k.parent), w)
                    return
            if n.spatialGrid is not None:
                if n.spatialGrid.armiObject is not n:
                    rec.violation("copy/%s/grid-not-relinked" % how, "in the copy the grid of %r is anchored to %r" % (n, n.spatialGrid.armiObject), w)
                    return
                for k in list(n):
                    g = getattr(k.spatialLocator, "grid", None)
                    if g is not None and g is not n.spatialGrid and not any(g is x.spatialGrid for x in [cp] + walk(cp)):
                        rec.violation("copy/%s/locator-points-outside" % how, "child %r of the copy holds a locator in a grid outside the copy" % k, w)
                        return
            m = getattr(n, "material", None)
            if m is not None and getattr(m, "parent", None) is not None and id(m.parent) not in inside:
                rec.violation("copy/%s/material-parent-outside" % how, "material of %r points at a component outside the copy" % n, w)
                return
        # grids at the new owner: whatever was located in its parent's grid in the original is located in the copy's grid in the
        # copy - the locator itself and, for a multi-index locator, each of the cells it lists (pairs by position: equal shape)
        pairs = [(orig, cp)]
        while pairs:
            no, nc = pairs.pop()
            ko_, kc_ = list(no), list(nc)
            pairs.extend(zip(ko_, kc_))
            if no.spatialGrid is None:
                continue
            for ko, kc in zip(ko_, kc_):
                lo, lc = ko.spatialLocator, kc.spatialLocator
                if lo is None or getattr(lo, "grid", None) is not no.spatialGrid:
                    continue
                rec.hit("copy.locator-relinked")
                if lc is None or getattr(lc, "grid", None) is not nc.spatialGrid:
                    rec.violation("copy/%s/locator-not-relinked" % how, "%r sat in the grid of its parent %r; in the copy its locator %r belongs to %s"
                                  % (ko, no, lc, "no grid" if getattr(lc, "grid", None) is None else "the grid of %r" % lc.grid.armiObject), w)
                    return
                so, sc = sub_locations(lo), sub_locations(lc)
                if type(lo) is not type(lc) or len(so) != len(sc) or (not so and (lo.i, lo.j, lo.k) != (lc.i, lc.j, lc.k)):
                    rec.violation("copy/%s/locator-differs" % how, "%r is located at %r (%d cells), its copy at %r (%d cells)" % (ko, lo, len(so), lc, len(sc)), w)
                    return
                if so:
                    rec.hit("copy.multi-location-relinked")
                    for x, y in zip(so, sc):
                        if (x.i, x.j, x.k) != (y.i, y.j, y.k):
                            rec.violation("copy/%s/locator-differs" % how, "cell %r of the multi-index locator of %r became %r in the copy" % (x, ko, y), w)
                            return
                        if x.grid is no.spatialGrid and y.grid is not nc.spatialGrid:
                            alias = next((m for m in [orig] + walk(orig) if m.parent is not no and any(s_ is x for s_ in sub_locations(m.spatialLocator))), None)
                            if alias is not None:
                                # root cause is the removal defect: the cell object of this grid is also listed by the locator of an
                                # object that was removed from this block and now lives elsewhere, so the copy of that other owner
                                # re-associates the shared cell with ITS grid. Same mechanism, same key.
                                rec.violation("tree/removed-object-keeps-grid-location/multi-sub-locations",
                                              "consequence in a %s: %r was removed from %r and now belongs to %r, but its locator still lists the cell objects of the old grid; "
                                              "in the copy the cell %r of %r therefore belongs to the grid of %r" % (how, alias, no, alias.parent, y, kc, y.grid.armiObject if y.grid is not None else None), w)
                                return
                            rec.violation("copy/%s/multi-sub-location-not-relinked" % how, "cell %r of the multi-index locator of %r belongs to %s in the copy"
                                          % (y, kc, "no grid" if y.grid is None else "the grid of %r" % y.grid.armiObject), w)
                            return
    except Exception as e:
        rec.crash("copy-check/" + how, e, w)


# ----------------------------------------------------------------------------- families
COUNTER = [0]
NAMES = ["fuel", "clad", "duct", "coolant", "control", "shield", "bond", "wire", "plenum", "gap", "reflector", "intercoolant"]


def new_generic(rng, depth=0):
    from armi.reactor import composites, grids
    from armi.reactor.flags import Flags

    COUNTER[0] += 1
    nm = "%s%d" % (rng.choice(NAMES), COUNTER[0])
    c = composites.Composite(nm)
    c.p.flags = Flags.fromStringIgnoreErrors(rng.choice(NAMES) + (" " + rng.choice(NAMES) if rng.random() < .3 else ""))
    if rng.random() < .6:
        c.spatialGrid = grids.CartesianGrid.fromRectangle(1.0, 1.0, numRings=2, armiObject=c)
    if depth < 2:
        for _ in range(rng.randint(0, 3)):
            attach(rng, c, new_generic(rng, depth + 1))
    return c


def attach(rng, parent, child, index=None):
    """valid usage: detached child gets a locator of the parent's grid (as armi's own builders do), then add/insert"""
    if type(child).__name__ == "DerivedShape" and any(type(k).__name__ == "DerivedShape" for k in parent):
        raise SkipOp()  # at most one DerivedShape per parent (see the block family)
    if parent.spatialGrid is not None:
        used = {(k.spatialLocator.i, k.spatialLocator.j) for k in list(parent) if k.spatialLocator is not None and getattr(k.spatialLocator, "grid", None) is parent.spatialGrid}
        while True:
            ij = (rng.randint(-6, 6), rng.randint(-6, 6))
            if ij not in used:
                break
        child.spatialLocator = parent.spatialGrid[ij[0], ij[1], 0]
    if index is None:
        parent.add(child)
    else:
        parent.insert(index, child)


def new_component(rng):
    from armi.reactor import components

    COUNTER[0] += 1
    nm = rng.choice(["fuel", "clad", "wire", "bond", "liner", "shield"])
    od = rng.uniform(.2, 1.0)
    c = components.Circle("%s%d" % (nm, COUNTER[0]), rng.choice(["HT9", "UZr", "Sodium", "B4C"]), 25.0, 25.0, od=od, id=od * rng.uniform(0, .8), mult=rng.choice([1, 7, 19]))
    setattr(c, TYPE_ATTR, "%s%d" % (nm, COUNTER[0]))
    return c


def stamp_block(b, bspec, tname):
    """remember the type names given at construction: the block's type, and for each component the name it was constructed with
    (which must be one of the names in the block design; Reactor.sort may have re-ordered the components since)"""
    setattr(b, TYPE_ATTR, tname)
    names = {cs["name"] for cs in bspec["components"]}
    for c in list(b):
        if c.name in names:
            setattr(c, TYPE_ATTR, c.name)
    return b


def pin_grid(rec, b, parent_grid=None):
    """give the block a pin grid the way armi does (multi-index locators for mult>1 components); armi declines for blocks that
    are not 'mult 1 or N filling whole hex rings' (ValueError/NotImplementedError, as Assembly.orientBlocks expects)"""
    try:
        b.autoCreateSpatialGrids(parent_grid)
    except (ValueError, NotImplementedError):
        rec.add("pin grid declined by armi (multiplicities not 1/N or not whole rings)", 1)
        return False
    rec.add("blocks given a pin grid", 1)
    return True


def place_in_block(rng, b, c):
    """valid usage: a component that joins a block with a pin grid gets a locator of that grid, built like armi's own builders do:
    a multi-index locator over the first `mult` cells for mult>1, the centre otherwise"""
    from armi.reactor import grids
    from vlib import gen

    g = b.spatialGrid
    if g is None:
        return
    try:
        mult = int(c.getDimension("mult") or 1)
    except Exception:
        mult = 1
    if mult > 1:
        rings = next(r_ for r_ in range(1, 12) if 1 + 3 * r_ * (r_ - 1) >= mult)
        c.spatialLocator = g[[(i, j, 0) for (i, j) in gen.hex_cells(rings)[:mult]]]
    elif rng.random() < .5:
        c.spatialLocator = grids.CoordinateLocation(0.0, 0.0, 0.0, g)
    else:
        c.spatialLocator = g[0, 0, 0]


def run_shard(spec, rec):
    REC[0] = rec
    install_hooks()
    fam = spec["family"]
    for i in range(spec["n"]):
        rng = random.Random("%s:%d" % (spec["rng"], i))
        try:
            one_history(rec, rng, fam, spec["ops"], i)
        except Exception as e:
            rec.crash("history(harness?)/" + fam, e, {"family": fam, "case": i})


def make_root(rec, rng, fam):
    from vlib import gen

    if fam == "generic":
        return new_generic(rng), None
    if fam == "block":
        bs = gen.pin_block_spec(rng, kind=rng.choice(["fuel", "control", "shield", "plenum"])) if rng.random() < .7 else gen.generic_block_spec(rng)
        b = stamp_block(gen.build_block(bs, 10.0), bs, bs.get("kind", "fuel"))
        if rng.random() < .75:
            pin_grid(rec, b)
        return b, None
    if fam == "assembly":
        pitch = rng.uniform(8, 14)
        nb = rng.randint(1, 5)
        bss = [gen.pin_block_spec(rng, kind=rng.choice(["fuel", "shield", "control"]), pitch=pitch, npins=rng.choice([1, 7, 19])) for _ in range(nb)]
        a = gen.build_assembly(bss, [rng.uniform(5, 30) for _ in range(nb)])
        setattr(a, TYPE_ATTR, "fuel")
        for b, bs in zip(list(a), bss):
            stamp_block(b, bs, bs.get("kind", "fuel"))
        if rng.random() < .7:
            a.orientBlocks(None)  # armi's own way of giving every block of an assembly its pin grid
            rec.add("blocks given a pin grid", sum(1 for b in a if b.spatialGrid is not None))
        return a, pitch
    cs_ = gen.core_spec(rng, rings=rng.randint(2, 3), symmetry=rng.choice(["third periodic", "full"]), ndesigns=rng.randint(1, 2), nblocks=rng.randint(1, 3))
    track = rng.random() < .6
    r, cs, bp, text = gen.build_reactor(cs_, {"trackAssems": True} if track else None)
    r._c01_track = track
    rec.add("reactors that track discharged assemblies" if track else "reactors that delete discharged assemblies", 1)
    stamp_reactor(r, cs_)
    return r, None


def stamp_reactor(r, cspec):
    """type names from the generated blueprint: assembly design by the specifier placed at the assembly's (i, j), block design by
    axial index, component name by position in the block design"""
    by_spec = {d["specifier"]: (name, d) for name, d in cspec["assemblies"].items()}
    contents = cspec["grids"]["core"]["contents"]
    for a in list(r.core):
        loc = a.spatialLocator
        sp = contents.get((loc.i, loc.j))
        if sp is None or len(list(a)) != len(by_spec[sp][1]["blocks"]):
            continue
        name, d = by_spec[sp]
        setattr(a, TYPE_ATTR, name)
        for b, bn in zip(list(a), d["blocks"]):
            if True:
                stamp_block(b, cspec["blocks"][bn], bn)


def spent_fuel_pool(core):
    r = core.parent
    return None if r is None else next((x for x in list(r) if type(x).__name__ == "SpentFuelPool"), None)


def kji(o):
    loc = o.spatialLocator
    return (loc.k, loc.j, loc.i)


def one_history(rec, rng, fam, nops, case):
    from armi.reactor import assemblies, blocks, composites
    from armi.reactor.components import Component
    from vlib import gen

    root, aux = make_root(rec, rng, fam)
    roots = [root]
    detached = []
    hist = []
    w = {"family": fam, "case": case, "history": hist}
    check_global(rec, roots, detached, w)

    def containers(r_):
        return [n for n in [r_] + walk(r_) if not isinstance(n, Component)]

    for step in range(nops):
        tree = rng.choice(roots)
        conts = containers(tree)
        if fam == "core":
            from armi.reactor.reactors import Core

            cores = [n for n in conts if isinstance(n, Core)]
            pools = [n for n in conts if type(n).__name__ == "SpentFuelPool" and len(n)]
            u = rng.random()
            target = rng.choice(pools) if pools and u < .12 else rng.choice(cores) if cores and u < .65 else tree if u >= .93 else rng.choice(conts)
        else:
            target = rng.choice(conts) if conts else tree
        kids = list(target)
        op = rng.choice(["add", "add", "insert", "remove", "remove", "readd", "removeAll", "setChildren", "sort", "deepcopy", "pickle", "special", "query-scratch"])
        model = None
        try:
            if isinstance(target, Component):
                continue
            if op == "query-scratch":
                # a caller uses the list a query handed out as its own scratch space (reorders it, appends, pops, clears): the answer
                # of a query is the caller's, the tree is the object's - nothing about the tree may change, whatever the query
                queries = [("getChildren()", lambda: target.getChildren()), ("getChildren(deep)", lambda: target.getChildren(deep=True)),
                           ("getChildren(generationNum=1)", lambda: target.getChildren(generationNum=1)),
                           ("getChildrenWithFlags(None)", lambda: target.getChildrenWithFlags(None)),
                           ("getChildren(includeMaterials)", lambda: target.getChildren(includeMaterials=True))]
                for nm in ("getComponents", "getBlocks", "getAssemblies", "getChildrenOfType"):
                    if nm != "getChildrenOfType" and callable(getattr(target, nm, None)):
                        queries.append((nm + "()", getattr(target, nm)))
                qname, q = rng.choice(queries)
                try:
                    got = q()
                except Exception:
                    raise SkipOp()
                if not isinstance(got, list):
                    raise SkipOp()
                rec.hit("query-scratch")
                rec.hit("query-scratch/" + qname)
                stranger = new_generic(rng, 2)
                for act in rng.sample(["reverse", "append", "pop", "clear", "shuffle", "insert"], rng.randint(1, 3)):
                    if act == "reverse":
                        got.reverse()
                    elif act == "append":
                        got.append(stranger)
                    elif act == "insert":
                        got.insert(0, stranger)
                    elif act == "pop" and got:
                        got.pop(rng.randrange(len(got)))
                    elif act == "clear":
                        del got[:]
                    elif act == "shuffle":
                        rng.shuffle(got)
                hist.append("query-scratch(%s)" % qname)
                if stranger.parent is not None:
                    rec.violation("query/scratch-use-of-a-result-changed-the-tree", "an object appended to the list returned by %s got parent %r" % (qname, stranger.parent), w)
                model = ("ordered", kids)
            from armi.reactor.reactors import Core, Reactor

            if op == "query-scratch":
                pass
            elif type(target).__name__ == "SpentFuelPool":
                model = pool_op(rec, rng, target, op, hist, detached, roots, w)
            elif isinstance(target, Reactor) or type(target).__name__ in ("ExcoreStructure",):
                if op in ("deepcopy", "pickle", "add", "readd") and isinstance(target, Reactor) and len(roots) < 3:
                    how = "pickle" if op in ("pickle", "readd") else "deepcopy"
                    cp = copy.deepcopy(target) if how == "deepcopy" else pickle.loads(pickle.dumps(target))
                    hist.append("%s(reactor)" % how)
                    check_copy(rec, target, cp, how, w)
                    if getattr(cp, "_c01_track", None) is not getattr(target, "_c01_track", None):
                        raise RuntimeError("harness: the tracking stamp did not survive the copy")
                    roots.append(cp)
                elif op in ("sort", "special") and isinstance(target, Reactor):
                    before = {id(n) for n in walk(target)}
                    target.sort()
                    hist.append("sort(reactor)")
                    if {id(n) for n in walk(target)} != before:
                        rec.violation("sort/changed-node-set", "Reactor.sort changed the set of objects in the tree", w)
                else:
                    continue
            elif isinstance(target, Core):
                model = core_op(rec, rng, target, op, hist, detached, roots, w)
            elif isinstance(target, assemblies.Assembly):
                model = assembly_op(rec, rng, target, op, hist, detached, roots, w, gen, aux)
            elif isinstance(target, blocks.Block):
                model = block_op(rec, rng, target, op, hist, detached, roots, w, gen)
            else:
                model = generic_op(rec, rng, target, op, hist, detached, roots, w, tree)
        except SkipOp:
            continue
        except ValueError as e:
            if "no valid pitch defining component" in str(e):
                # an earlier edit removed the component that defines the block pitch; armi refuses geometry-dependent
                # operations (sorting by size, symmetry factors on Core.add) on such a block. The call may have mutated
                # before refusing (documented gotcha), so this history ends here.
                rec.reject("operation refused on a block without pitch-defining component")
                return
            rec.crash("op/%s/%s" % (fam, op), e, dict(w, target=repr(target)))
            return
        except Exception as e:
            rec.crash("op/%s/%s" % (fam, op), e, dict(w, target=repr(target)))
            return
        if model is not None:
            rec.hit("shadow")
            mode, exp = model
            got = list(target)
            if (mode == "ordered" and not same_objects(got, exp)) or (mode == "set" and not same_set(got, exp)):
                rec.violation("shadow/children-differ-after-%s" % hist[-1].split("(")[0], "after %s children of %r are %s, intended %s" % (hist[-1], target, short(got), short(exp)), w)
        check_global(rec, roots, detached, w)
        qk = [check_traversal(rec, rng, rng.choice(roots), w) for _ in range(3)]
        rec.case([fam, hist[-1].split("(")[0] if hist else "noop", qk, shape_sig(root)], nontrivial=len(walk(root)) >= 2,
                 sample={"family": fam, "history": list(hist), "shape": shape_sig(root)} if case == 0 and step == 8 else None)


class SkipOp(Exception):
    pass


def generic_op(rec, rng, t, op, hist, detached, roots, w, tree):
    kids = list(t)
    if op == "add":
        c = new_generic(rng, 2)
        attach(rng, t, c)
        hist.append("add")
        return "ordered", kids + [c]
    if op == "insert":
        c = new_generic(rng, 2)
        i = rng.randint(0, len(kids))
        attach(rng, t, c, index=i)
        hist.append("insert(%d)" % i)
        return "ordered", kids[:i] + [c] + kids[i:]
    if op == "remove" and kids:
        c = rng.choice(kids)
        t.remove(c)
        detached.append(c)
        hist.append("remove")
        return "ordered", [k for k in kids if k is not c]
    if op == "readd" and detached:
        c = rng.choice(detached)
        if c.parent is not None or any(t is n for n in [c] + walk(c)):
            raise SkipOp()
        attach(rng, t, c)
        detached[:] = [d for d in detached if d is not c]
        hist.append("re-add-elsewhere")
        return "ordered", kids + [c]
    if op == "removeAll":
        t.removeAll()
        detached.extend(kids)
        hist.append("removeAll")
        return "ordered", []
    if op == "setChildren":
        keep = rng.sample(kids, rng.randint(0, len(kids)))
        rng.shuffle(keep)
        fresh = [new_generic(rng, 2) for _ in range(rng.randint(0, 2))]
        if t.spatialGrid is not None:
            for j, c in enumerate(fresh):
                c.spatialLocator = t.spatialGrid[7 + j, 7, 0]
        items = keep + fresh
        if rng.random() < .3:
            # the natural way to re-order or replace: take the list the object hands out, edit it, give it back
            rec.hit("setChildren.fed-with-edited-getChildren-result")
            got = t.getChildren()
            if rng.random() < .7:
                got.reverse()
            if got and fresh and rng.random() < .4:
                got[rng.randrange(len(got))] = fresh[0]  # replace one child through the list
                fresh = fresh[:1]
            else:
                fresh = []
            items = list(got)
            keep = [g for g in items if not any(g is f for f in fresh)]
            t.setChildren(got)
        else:
            t.setChildren(items)
        if t.spatialGrid is not None:  # removeAll detached the kept children's locators: re-place them like a builder would
            for j, c in enumerate(keep):
                c.spatialLocator = t.spatialGrid[-7, j - 6, 0]
        detached.extend(k for k in kids if not any(k is x for x in keep))
        hist.append("setChildren(keep=%d,new=%d)" % (len(keep), len(fresh)))
        return "ordered", items
    if op == "sort":
        try:
            t.sort()
        except ValueError:
            rec.reject("sort refused: children not comparable (different grids)")
            hist.append("sort-refused")
            return "set", kids
        hist.append("sort")
        got = list(t)
        for a, b in zip(got, got[1:]):
            if b < a:
                rec.violation("sort/not-ordered", "after sort %r precedes %r although it compares greater" % (a, b), w)
                break
        if len({id(getattr(k.spatialLocator, "grid", None)) for k in kids}) <= 1:
            # documented order: by location, K then J then I, among objects of one grid (an off-grid coordinate location counts as
            # the origin); list.sort is stable, so children in the same cell keep their relative order
            rec.hit("sort.order-by-location")
            return "ordered", sorted(kids, key=lambda k: (0, 0, 0) if type(k.spatialLocator).__name__ == "CoordinateLocation" else kji(k))
        return "set", kids
    if op in ("deepcopy", "pickle") and len(roots) < 4:
        cp = copy.deepcopy(t) if op == "deepcopy" else pickle.loads(pickle.dumps(t))
        hist.append(op)
        check_copy(rec, t, cp, op, w)
        roots.append(cp)
        return "ordered", kids
    raise SkipOp()


def block_op(rec, rng, b, op, hist, detached, roots, w, gen):
    kids = list(b)
    if op in ("add", "insert"):
        c = new_component(rng)
        if rng.random() < .6:
            place_in_block(rng, b, c)
        if op == "add":
            b.add(c)
            hist.append("block.add")
            return "ordered", kids + [c]
        i = rng.randint(0, len(kids))
        b.insert(i, c)
        hist.append("block.insert(%d)" % i)
        return "ordered", kids[:i] + [c] + kids[i:]
    if op == "remove" and len(kids) > 1:
        c = rng.choice(kids)
        b.remove(c, recomputeAreaFractions=False)
        detached.append(c)
        hist.append("block.remove")
        return "ordered", [k for k in kids if k is not c]
    if op == "readd":
        cands = [d for d in detached if d.parent is None and type(d).__name__ in ("Circle", "Hexagon", "Helix", "DerivedShape")]
        if not cands:
            raise SkipOp()
        c = rng.choice(cands)
        if type(c).__name__ == "DerivedShape" and any(type(k).__name__ == "DerivedShape" for k in b):
            # a block holds at most one DerivedShape (it is "whatever the others leave"; two of them define each other and armi
            # recurses without end when asked for a volume): not a model the property speaks about
            raise SkipOp()
        if rng.random() < .6:
            place_in_block(rng, b, c)
        b.add(c)
        detached[:] = [d for d in detached if d is not c]
        hist.append("block.re-add-elsewhere")
        return "ordered", kids + [c]
    if op == "setChildren":
        keep = rng.sample(kids, rng.randint(1, len(kids)))
        rng.shuffle(keep)
        items = keep + [new_component(rng) for _ in range(rng.randint(0, 2))]
        for c in items[len(keep):]:
            if rng.random() < .6:
                place_in_block(rng, b, c)
        b.setChildren(items)
        for c in keep:  # removeAll detached the kept children's locators: re-place them like a builder would
            place_in_block(rng, b, c)
        detached.extend(k for k in kids if not any(k is x for x in keep))
        hist.append("block.setChildren")
        return "ordered", items
    if op == "special":
        obs = gen.pin_block_spec(rng, kind=rng.choice(["control", "fuel"]))
        other = stamp_block(gen.build_block(obs, 10.0), obs, obs["kind"])
        if rng.random() < .5:
            pin_grid(rec, other)
        n_other = [c.name for c in other]
        b.replaceBlockWithBlock(other)
        setattr(b, TYPE_ATTR, obs["kind"])  # the block takes the replacement's parameters, type name included
        detached.extend(kids)
        hist.append("replaceBlockWithBlock")
        got = list(b)
        if [c.name for c in got] != n_other:
            rec.violation("replaceBlockWithBlock/children", "after replacement block holds %s, replacement had %s" % ([c.name for c in got], n_other), w)
        if any(any(x is y for y in other) for x in got):
            rec.violation("replaceBlockWithBlock/shares-components", "replaced block shares component objects with the replacement block", w)
        return "ordered", got
    if op in ("deepcopy", "pickle") and len(roots) < 4:
        cp = copy.deepcopy(b) if op == "deepcopy" else pickle.loads(pickle.dumps(b))
        hist.append("block." + op)
        check_copy(rec, b, cp, op, w)
        roots.append(cp)
        return "ordered", kids
    raise SkipOp()


def assembly_op(rec, rng, a, op, hist, detached, roots, w, gen, pitch):
    from armi.reactor import blocks as blk

    kids = list(a)
    pitch = pitch or (kids[0].getPitch() if kids else 10.0)

    def new_block():
        nbs = gen.pin_block_spec(rng, kind=rng.choice(["fuel", "shield"]), pitch=pitch, npins=rng.choice([1, 7]))
        nb = stamp_block(gen.build_block(nbs, rng.uniform(5, 20)), nbs, nbs["kind"])
        if rng.random() < .6:
            pin_grid(rec, nb)
        return nb

    if op == "add":
        b = new_block()
        a.add(b)
        hist.append("assembly.add")
        exp = kids + [b]
    elif op == "insert":
        b = new_block()
        i = rng.randint(0, len(kids))
        a.insert(i, b)
        a.reestablishBlockOrder()
        a.calculateZCoords()
        hist.append("assembly.insert(%d)+reestablishBlockOrder" % i)
        exp = kids[:i] + [b] + kids[i:]
    elif op == "remove" and len(kids) > 1:
        b = rng.choice(kids)
        a.remove(b)
        a.reestablishBlockOrder()
        a.calculateZCoords()
        detached.append(b)
        hist.append("assembly.remove+reestablishBlockOrder")
        exp = [k for k in kids if k is not b]
    elif op == "readd":
        cands = [d for d in detached if d.parent is None and isinstance(d, blk.Block)]
        if not cands:
            raise SkipOp()
        b = rng.choice(cands)
        a.add(b)
        detached[:] = [d for d in detached if d is not b]
        hist.append("assembly.re-add-elsewhere")
        exp = kids + [b]
    elif op == "sort":
        a.sort()
        hist.append("assembly.sort")
        exp = kids  # blocks already in axial order after reestablishBlockOrder
    elif op == "special":
        a.reestablishBlockOrder()
        hist.append("reestablishBlockOrder")
        exp = kids
    elif op in ("deepcopy", "pickle") and len(roots) < 4 and len(kids) > 1 and rng.random() < .4:
        # a block is taken out, the assembly is copied as it stands (its axial grid still knows the vacated cell), and the copy is
        # edited on its own: a block put on that cell of the copy sits on the copy's grid
        b = rng.choice(kids)
        k = [i_ for i_, x in enumerate(kids) if x is b][0]
        a.remove(b)
        cp = copy.deepcopy(a) if op == "deepcopy" else pickle.loads(pickle.dumps(a))
        nb = new_block()
        cp.insert(k, nb)
        rec.hit("copy.edited-on-a-vacated-cell")
        loc = nb.spatialLocator
        if getattr(loc, "grid", None) is not cp.spatialGrid:
            rec.violation("copy/block-put-on-a-vacated-cell-of-the-copy-is-not-on-its-grid", "after remove -> %s -> insert(%d) on the copy the new block's location belongs to %r, the copy's grid is %r" % (
                op, k, getattr(loc, "grid", None), cp.spatialGrid), w)
        stale = [c_ for c_ in cp.spatialGrid._locations.values() if c_.grid is not cp.spatialGrid]
        if stale:
            rec.violation("copy/grid-cells-not-relinked", "%d cells known to the copy's axial grid are not attached to it (%s)" % (len(stale), op), w)
        for x_ in (a, cp):
            x_.reestablishBlockOrder()
            x_.calculateZCoords()
        detached.append(b)
        hist.append("assembly.remove -> %s -> insert on the copy" % op)
        if a.parent is None:
            roots.append(cp)
        else:
            detached.append(cp)
        exp = [x for x in kids if x is not b]
    elif op in ("deepcopy", "pickle") and len(roots) < 4:
        cp = copy.deepcopy(a) if op == "deepcopy" else pickle.loads(pickle.dumps(a))
        hist.append("assembly." + op)
        check_copy(rec, a, cp, op, w)
        if a.parent is None:
            roots.append(cp)
        else:
            detached.append(cp)
        exp = kids
    else:
        raise SkipOp()
    # axial locators follow the child order
    for zi, b in enumerate(list(a)):
        loc = b.spatialLocator
        if loc.grid is not a.spatialGrid or (loc.i, loc.j, loc.k) != (0, 0, zi):
            rec.violation("assembly/block-locator-not-its-index", "after %s block #%d holds locator %r (grid is assembly grid: %s)" % (hist[-1], zi, loc, loc.grid is a.spatialGrid), w)
            break
    return "ordered", exp


def core_op(rec, rng, core, op, hist, detached, roots, w):
    """The core's child list is judged in order: Core.add appends, removeAssembly takes one out, sort orders by location (K, J, I)."""
    from armi.reactor import assemblies

    kids = list(core)
    if op in ("remove", "special") and len(kids) > 1:
        a = rng.choice(kids)
        discharge = rng.random() < .6
        sfp = spent_fuel_pool(core)
        track = getattr(core.parent, "_c01_track", None)
        if track is None:
            raise SkipOp()
        pool_before = list(sfp) if sfp is not None else []
        reachable = sfp is not None and dict.get(core.parent.excore, "sfp") is sfp
        core.removeAssembly(a, discharge=discharge)
        hist.append("core.removeAssembly(discharge=%s,tracked=%s)" % (discharge, track))
        if discharge and track and sfp is not None and not reachable:
            # this reactor is a copy that lost the excore entry of its pool (judged when the copy was made, key
            # copy/deepcopy/reactor-excore-not-relinked): armi cannot find the pool, what it does then is not judged as a move
            rec.skip("discharge in a reactor whose excore collection does not know its own pool (defect of the copy, reported there)")
            if a.parent is None:
                detached.append(a)
        elif discharge and track and sfp is not None:
            # a MOVE: the pool lists the assembly (appended), is its parent, and holds it in a cell of the pool's own grid
            rec.hit("discharge.move-to-sfp")
            pool = list(sfp)
            if not same_objects(pool, pool_before + [a]):
                rec.violation("discharge/sfp-children-differ", "after discharging %r the pool holds %s, intended %s" % (a, short(pool), short(pool_before + [a])), w)
            elif a.parent is not sfp:
                rec.violation("discharge/assembly-parent-not-sfp", "discharged %r is listed by the pool but its parent is %r" % (a, a.parent), w)
            elif sfp.spatialGrid is not None:
                loc = a.spatialLocator
                if loc is None or loc.grid is not sfp.spatialGrid:
                    rec.violation("discharge/locator-not-in-sfp-grid", "discharged %r holds locator %r that is not a cell of the pool's grid" % (a, loc), w)
                elif any((loc.i, loc.j, loc.k) == (o.spatialLocator.i, o.spatialLocator.j, o.spatialLocator.k) for o in pool_before):
                    rec.violation("discharge/sfp-location-shared", "discharged %r was put into pool cell %r which is already taken" % (a, loc), w)
        else:
            detached.append(a)  # taken out of the model: check_global demands no parent and a detached location
        rec.hit("core.order")
        return "ordered", [k for k in kids if k is not a]
    if op in ("add", "readd", "insert"):
        cands = [d for d in detached if d.parent is None and isinstance(d, assemblies.Assembly)]
        occupied = {tuple(k.spatialLocator.getCompleteIndices()[:2]) for k in kids}
        free = [(i, j) for i in range(-3, 4) for j in range(-3, 4) if (i, j) not in occupied and max(abs(i), abs(j), abs(i + j)) <= 3 and core.spatialGrid.locatorInDomain(core.spatialGrid[i, j, 0])]
        if not free:
            raise SkipOp()
        if cands and rng.random() < .7:
            a = rng.choice(cands)
            detached[:] = [d for d in detached if d is not a]
            how = "core.add(previously removed)"
        else:
            src = rng.choice(kids)
            a = copy.deepcopy(src)
            check_copy(rec, src, a, "deepcopy", w)
            a.makeUnique()
            how = "core.add(deep copy made unique)"
        ij = rng.choice(free)
        if core.assembliesByName.get(a.getName()) not in (None, a):
            a.makeUnique()  # valid usage: a copy must get its own identity before it joins the core
            how += "+makeUnique"
        core.add(a, core.spatialGrid[ij[0], ij[1], 0])
        hist.append(how)
        loc = a.spatialLocator
        if loc.grid is not core.spatialGrid or (loc.i, loc.j) != ij:
            rec.violation("core/added-assembly-not-at-its-location", "assembly added at %s holds locator %r (core grid: %s)" % (ij, loc, loc.grid is core.spatialGrid), w)
        rec.hit("core.order")
        return "ordered", kids + [a]
    if op == "sort":
        core.sort()
        hist.append("core.sort")
        rec.hit("core.order")
        return "ordered", sorted(kids, key=kji)  # cells are distinct, so the documented K, J, I order is total
    if op in ("deepcopy", "pickle"):
        a = rng.choice(kids)
        cp = copy.deepcopy(a) if op == "deepcopy" else pickle.loads(pickle.dumps(a))
        hist.append("assembly-in-core." + op)
        check_copy(rec, a, cp, op, w)
        detached.append(cp)
        return "ordered", kids
    raise SkipOp()


def pool_op(rec, rng, sfp, op, hist, detached, roots, w):
    """the spent fuel pool: take an assembly out for good (it can re-enter a core later), sort, copy one"""
    kids = list(sfp)
    if not kids:
        raise SkipOp()
    if op in ("remove", "readd"):
        a = rng.choice(kids)
        sfp.remove(a)
        detached.append(a)
        hist.append("pool.remove")
        return "ordered", [k for k in kids if k is not a]
    if op == "sort":
        sfp.sort()
        hist.append("pool.sort")
        return "ordered", sorted(kids, key=kji)
    if op in ("deepcopy", "pickle"):
        a = rng.choice(kids)
        cp = copy.deepcopy(a) if op == "deepcopy" else pickle.loads(pickle.dumps(a))
        hist.append("assembly-in-pool." + op)
        check_copy(rec, a, cp, op, w)
        detached.append(cp)
        return "ordered", kids
    raise SkipOp()
