#!/usr/bin/env python3
"""Regenerate the generated blocks of DESIGN.md (between <!-- BEGIN:x --> / <!-- END:x --> markers) from
known_findings.json, seeded/*/meta.json and selftest/results/*.json."""
import glob, json, os, re, subprocess, sys
ROOT = os.path.dirname(os.path.dirname(os.path.abspath(__file__)))


def out(cmd):
    return subprocess.run(cmd, capture_output=True, text=True, cwd=ROOT).stdout.strip()


def mutants():
    rows = ["| property | mutants caught / run | tier | missed (equivalent or out of reach, see text) |", "|---|---|---|---|"]
    for f in sorted(glob.glob(os.path.join(ROOT, "selftest", "results", "*.json"))):
        r = json.load(open(f))
        missed = "; ".join("%s (%s)" % (m["name"], m.get("note", m["result"])[:160]) for m in r["mutants"] if not m["caught"]) or "-"
        rows.append("| %s | %d / %d | %s | %s |" % (r["property"], r["caught"], r["total"], r["tier"], missed))
    return "\n".join(rows)


def asbuilt():
    sw = {}
    f = os.path.join(ROOT, "selftest", "sweeps.jsonl")
    if os.path.exists(f):
        for l in open(f):
            r = json.loads(l)
            sw.setdefault((r["check"], r["tier"]), []).append(r)
    man = {c["property_id"]: c for c in json.load(open(os.path.join(ROOT, "MANIFEST.json")))["checks"]}
    rows = ["| id | level | quick: executions / distinct / wall (evidence file) | monitors with floors | thorough sweeps (seed: executions, wall, verdict) | quick seed sweeps |", "|---|---|---|---|---|---|"]
    for i in range(1, 21):
        c = "C%02d" % i
        ev = json.load(open(os.path.join(ROOT, "evidence", c + ".json")))
        cov = ev["coverage"]
        th = "; ".join("s%d: %s, %ss, %s" % (r["seed"], r["executions"], r["wall_s"], "HELD" if r["exit"] == 0 else "exit %d" % r["exit"]) for r in sw.get((c, "thorough"), [])) or "-"
        qs = ", ".join("s%d:%s" % (r["seed"], "HELD" if r["exit"] == 0 else "exit %d" % r["exit"]) for r in sw.get((c, "quick"), [])) or "-"
        lvl = man[c].get("level_claimed", man[c].get("level", ""))
        lvl = lvl.get("category") if isinstance(lvl, dict) else lvl
        rows.append("| %s | %s | %s / %s / %ss | %d | %s | %s |" % (c, lvl, cov["evaluations"], cov["distinct_nontrivial"], ev.get("wall_s"), len(cov.get("monitor_hits", {})), th, qs))
    return "\n".join(rows)


blocks = {
    "asbuilt": asbuilt(),
    "findings": out(["python3", "tools/findings_table.py"]),
    "seeded": out(["python3", "tools/seedtable.py"]),
    "mutants": mutants(),
}
p = os.path.join(ROOT, "DESIGN.md")
s = open(p).read()
for k, v in blocks.items():
    pat = re.compile(r"(<!-- BEGIN:%s -->\n).*?(<!-- END:%s -->)" % (k, k), re.S)
    if not pat.search(s):
        print("marker missing:", k); sys.exit(1)
    s = pat.sub(lambda m: m.group(1) + v + "\n" + m.group(2), s)
open(p, "w").write(s)
print("DESIGN.md blocks regenerated:", ", ".join(blocks))
