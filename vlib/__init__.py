"""Runtime-monitoring machinery for terrapower/armi (see /verif/DESIGN.md)."""
