"""Entry point of one shard process:  python -m vlib.shard <module> <spec.json> <out.json>"""
import importlib
import json
import os
import sys
import time
import traceback


def main():
    modname, specfile, outfile = sys.argv[1:4]
    spec = json.load(open(specfile))
    here = os.path.dirname(os.path.dirname(os.path.abspath(__file__)))
    if here not in sys.path:
        sys.path.insert(0, here)
    from vlib import env
    from vlib.rec import Recorder

    t0 = time.time()
    mod = importlib.import_module("checks." + modname)
    env.setup(full=getattr(mod, "ARMI_FULL", True))
    rec = Recorder(mod.PROP, spec)
    err = None
    try:
        mod.run_shard(spec, rec)
    except BaseException as e:  # harness failure, not a verdict
        err = "".join(traceback.format_exception(type(e), e, e.__traceback__))[-6000:]
    out = rec.dump()
    out["error"] = err
    out["wall_s"] = time.time() - t0
    with open(outfile + ".tmp", "w") as f:
        json.dump(out, f)
    os.replace(outfile + ".tmp", outfile)
    sys.stdout.flush()
    sys.stderr.flush()
    env._cleanup()
    os._exit(0)  # skip armi's atexit chatter; cleanup done explicitly above

if __name__ == "__main__":
    main()
