"""Shared workload generators: block / assembly / core specifications, YAML rendering, construction.

A *spec* is the generator's own plain-dict description of a reactor.  armi only ever sees the YAML text
rendered from it (or direct constructor calls with the same numbers), so checks may use the spec as an
independent reading of the input.
"""
import io
import math

HEX_PIN_COUNTS = [1, 7, 19, 37, 61, 91, 127, 169, 217, 271]
SOLIDS = ["HT9", "UZr", "UO2", "B4C", "Zr", "Graphite", "Inconel600", "TZM", "MgO", "HastelloyN", "Inconel625", "InconelX750", "Inconel800", "Sc2O3", "Y2O3", "Be9"]
STRUCT = ["HT9", "Zr", "Inconel600", "TZM", "HastelloyN", "Inconel625"]
FUELS = ["UZr", "UO2"]
FLUIDS = ["Sodium", "Lead", "LeadBismuth"]


def hexarea(p):
    return math.sqrt(3) / 2 * p * p


# --------------------------------------------------------------------------------------------- block specs
def pin_block_spec(rng, kind="fuel", npins=None, pitch=None, coolant="Sodium", hot=True, wire=True, bond=None, liner=False, overlap=False):
    """A hex pin-type block: [fuel|absorber|shield pins], (bond), clad, (wire), coolant(Derived), duct, intercoolant.
    Returns ordered list of component dicts. Geometry is consistent (positive coolant area)."""
    npins = npins or rng.choice(HEX_PIN_COUNTS[:7])
    rings = next(r for r in range(1, 12) if 1 + 3 * r * (r - 1) >= npins)
    clad_od = rng.uniform(0.6, 1.2)
    clad_t = clad_od * rng.uniform(0.04, 0.1)
    clad_id = clad_od - 2 * clad_t
    wire_od = rng.uniform(0.08, 0.15) if wire else 0.0
    ppitch = clad_od + wire_od
    bundle = 2 * (rings - 1) * ppitch + clad_od + 2 * wire_od  # corner-to-corner of the pin bundle
    need = bundle * 1.02 + 0.2
    duct_ip = max(need, math.sqrt(1.35 * npins * math.pi / 4 * (clad_od + wire_od) ** 2 / (math.sqrt(3) / 2)))
    if pitch is not None:
        duct_t = pitch * 0.02
        duct_op = pitch - 0.3
        duct_ip = duct_op - 2 * duct_t
        if duct_ip < need:  # shrink pins to fit the imposed pitch
            s = duct_ip / need * 0.98
            clad_od, clad_id, wire_od = clad_od * s, clad_id * s, wire_od * s
            ppitch = clad_od + wire_od
    else:
        duct_t = rng.uniform(0.2, 0.5)
        duct_op = duct_ip + 2 * duct_t
        pitch = duct_op + rng.uniform(0.2, 0.6)
    Tc = rng.uniform(350, 500) if hot else 25.0
    Tf = rng.uniform(500, 800) if hot else 25.0
    Ts = rng.uniform(350, 500) if hot else 25.0
    smat = rng.choice(["HT9", "HT9", "Zr", "Inconel600"])
    comps = []
    if kind == "fuel":
        fmat = rng.choice(FUELS)
        bond = (rng.random() < .6) if bond is None else bond
        fuel_od = clad_id * (rng.uniform(0.75, 0.95) if bond else 1.0)
        if not bond:
            fuel_od = clad_id * 0.999
        if overlap:
            # a Void gap between fuel and clad that the hot fuel has closed and overlapped: armi allows the resulting negative gap
            # area on purpose (Composite.getVolumeFractions documents it); only asked for by name, so other callers' streams are unchanged
            bond = False
            fuel_od = clad_id * 0.9996
            Tf = max(Tf, 550.0)
        comps.append({"name": "fuel", "shape": "Circle", "material": fmat, "Tinput": 25.0, "Thot": Tf, "id": 0.0, "od": fuel_od, "mult": npins})
        if overlap:
            comps.append({"name": "gap", "shape": "Circle", "material": "Void", "Tinput": Tc, "Thot": Tc, "id": "fuel.od", "od": "clad.id", "mult": "fuel.mult"})
        if bond:
            comps.append({"name": "bond", "shape": "Circle", "material": coolant, "Tinput": Tc, "Thot": Tc, "id": "fuel.od", "od": "clad.id", "mult": "fuel.mult"})
        comps.append({"name": "clad", "shape": "Circle", "material": smat, "Tinput": 25.0, "Thot": Ts, "id": clad_id, "od": clad_od, "mult": "fuel.mult"})
    elif kind == "control":
        comps.append({"name": "control", "shape": "Circle", "material": "B4C", "Tinput": 25.0, "Thot": Ts, "id": 0.0, "od": clad_id * 0.9, "mult": npins})
        comps.append({"name": "gap", "shape": "Circle", "material": "Void", "Tinput": Tc, "Thot": Tc, "id": "control.od", "od": "clad.id", "mult": "control.mult"})
        comps.append({"name": "clad", "shape": "Circle", "material": smat, "Tinput": 25.0, "Thot": Ts, "id": clad_id, "od": clad_od, "mult": "control.mult"})
    elif kind in ("shield", "reflector", "plenum"):
        if kind == "plenum":
            comps.append({"name": "gap", "shape": "Circle", "material": "Void", "Tinput": Tc, "Thot": Tc, "id": 0.0, "od": "clad.id", "mult": "clad.mult"})
            comps.append({"name": "clad", "shape": "Circle", "material": smat, "Tinput": 25.0, "Thot": Ts, "id": clad_id, "od": clad_od, "mult": npins})
        else:
            nm = "shield" if kind == "shield" else "reflector"
            comps.append({"name": nm, "shape": "Circle", "material": smat, "Tinput": 25.0, "Thot": Ts, "id": 0.0, "od": clad_od, "mult": npins})
            wire = False
    if wire and kind != "dummy":
        first = comps[0]["name"] if comps[0]["name"] != "gap" else "clad"
        comps.append({"name": "wire", "shape": "Helix", "material": smat, "Tinput": 25.0, "Thot": Ts, "axialPitch": rng.uniform(15, 40),
                      "helixDiameter": clad_od + wire_od, "id": 0.0, "od": wire_od, "mult": "%s.mult" % first})
    comps.append({"name": "coolant", "shape": "DerivedShape", "material": coolant, "Tinput": Tc, "Thot": Tc})
    comps.append({"name": "duct", "shape": "Hexagon", "material": smat, "Tinput": 25.0, "Thot": Ts, "ip": duct_ip, "op": duct_op, "mult": 1})
    comps.append({"name": "intercoolant", "shape": "Hexagon", "material": coolant, "Tinput": Tc, "Thot": Tc, "ip": "duct.op", "op": pitch, "mult": 1})
    return {"components": comps, "pitch": pitch, "npins": npins, "kind": kind}


def dummy_block_spec(rng, pitch, coolant="Sodium"):
    Tc = 450.0
    return {"components": [
        {"name": "coolant", "shape": "Hexagon", "material": coolant, "Tinput": Tc, "Thot": Tc, "ip": 0.0, "op": pitch, "mult": 1}],
        "pitch": pitch, "npins": 0, "kind": "dummy"}


SHAPE_POOL = ["Circle", "Hexagon", "Rectangle", "Square", "Triangle", "SolidRectangle", "Helix", "HoledHexagon", "HoledRectangle", "HoledSquare", "HexHoledCircle", "UnshapedComponent"]


def generic_block_spec(rng, nshapes=None, coolant="Sodium", hot=True, derived=True):
    """A hex block of arbitrary extruded shapes + DerivedShape coolant + bounding duct. Only areas matter."""
    nshapes = nshapes or rng.randint(1, 6)
    comps = []
    tot = 0.0
    u = rng.uniform
    for i in range(nshapes):
        shape = rng.choice(SHAPE_POOL)
        mat = rng.choice(SOLIDS if rng.random() < .8 else FLUIDS)
        Th = u(100, 600) if hot else 25.0
        Ti = 25.0 if mat in SOLIDS else Th
        mult = rng.choice([1, 1, 2, 7, 19, 61, 271])
        d = {"name": "%s%d" % (shape.lower()[:6], i), "shape": shape, "material": mat, "Tinput": Ti, "Thot": Th}
        if shape == "Circle":
            od = u(.2, 1.5)
            d.update(od=od, id=rng.choice([0.0, od * u(.1, .9)]), mult=mult)
            a = math.pi / 4 * (od ** 2 - d["id"] ** 2) * mult
        elif shape == "Hexagon":
            op = u(.5, 4)
            d.update(op=op, ip=rng.choice([0.0, op * u(.1, .9)]), mult=min(mult, 7))
            a = (hexarea(op) - hexarea(d["ip"])) * d["mult"]
        elif shape == "Rectangle":
            lo, wo = u(.5, 3), u(.5, 3)
            d.update(lengthOuter=lo, lengthInner=lo * u(0, .9), widthOuter=wo, widthInner=wo * u(0, .9), mult=min(mult, 7))
            a = (lo * wo - d["lengthInner"] * d["widthInner"]) * d["mult"]
        elif shape == "Square":
            wo = u(.5, 3)
            d.update(widthOuter=wo, widthInner=wo * u(0, .9), mult=min(mult, 7))
            a = (wo ** 2 - d["widthInner"] ** 2) * d["mult"]
        elif shape == "Triangle":
            d.update(base=u(.3, 3), height=u(.3, 3), mult=min(mult, 19))
            a = .5 * d["base"] * d["height"] * d["mult"]
        elif shape == "SolidRectangle":
            d.update(lengthOuter=u(.3, 3), widthOuter=u(.3, 3), mult=min(mult, 7))
            a = d["lengthOuter"] * d["widthOuter"] * d["mult"]
        elif shape == "Helix":
            od = u(.05, .2)
            d.update(od=od, id=0.0, axialPitch=u(10, 40), helixDiameter=u(.5, 2), mult=mult)
            a = math.pi / 4 * od ** 2 * mult * 1.1
        elif shape == "HoledHexagon":
            op = u(2, 6)
            d.update(op=op, holeOD=op * u(.02, .1), nHoles=rng.choice([1, 7, 19]), mult=1)
            a = hexarea(op)
        elif shape == "HoledRectangle":
            lo, wo = u(1, 4), u(1, 4)
            d.update(lengthOuter=lo, widthOuter=wo, holeOD=min(lo, wo) * u(.1, .8), mult=1)
            a = lo * wo
        elif shape == "HoledSquare":
            wo = u(1, 4)
            d.update(widthOuter=wo, holeOD=wo * u(.1, .8), mult=1)
            a = wo * wo
        elif shape == "HexHoledCircle":
            od = u(1, 4)
            d.update(od=od, holeOP=od * u(.1, .6), mult=1)
            a = math.pi / 4 * od ** 2
        else:  # UnshapedComponent
            d.update(area=u(.1, 5))
            a = d["area"]
        tot += a
        comps.append(d)
    need = tot * u(1.15, 2.0) + 1.0
    duct_ip = math.sqrt(need / (math.sqrt(3) / 2))
    duct_op = duct_ip + u(.2, .6)
    pitch = duct_op + u(.1, .5)
    Tc = u(350, 500) if hot else 25.0
    if derived:  # derived=False: stated shapes only, the rest of the cell is empty (hot and cold totals then differ)
        comps.append({"name": "coolant", "shape": "DerivedShape", "material": coolant, "Tinput": Tc, "Thot": Tc})
    comps.append({"name": "duct", "shape": "Hexagon", "material": "HT9", "Tinput": 25.0, "Thot": Tc, "ip": duct_ip, "op": duct_op, "mult": 1})
    if rng.random() < .7:
        comps.append({"name": "intercoolant", "shape": "Hexagon", "material": coolant, "Tinput": Tc, "Thot": Tc, "ip": "duct.op", "op": pitch, "mult": 1})
    else:
        pitch = duct_op
    return {"components": comps, "pitch": pitch, "npins": 0, "kind": "generic"}


# --------------------------------------------------------------------------------------------- direct construction
def build_block(bspec, height=None, name=None, cls=None):
    """Construct a HexBlock straight from a block spec using the real component classes."""
    from armi.reactor import blocks
    from armi.reactor.components import ComponentType

    b = (cls or blocks.HexBlock)(name or bspec.get("kind", "fuel"))
    made = {}
    pending = list(bspec["components"])
    # components whose links point forward are built after their targets
    guard = 0
    order = []
    while pending and guard < 100:
        guard += 1
        for c in list(pending):
            links = [v.split(".")[0] for k, v in c.items() if isinstance(v, str) and k not in ("name", "shape", "material") and "." in v]
            if all(l in made for l in links):
                kw = {k: v for k, v in c.items() if k not in ("name", "shape", "material", "flags")}
                comp = ComponentType.TYPES[c["shape"].lower()](c["name"], c["material"], components=made, **kw)
                made[c["name"]] = comp
                pending.remove(c)
    if pending:
        raise ValueError("unresolvable links in block spec: %s" % [c["name"] for c in pending])
    for c in bspec["components"]:  # add in spec order
        b.add(made[c["name"]])
        order.append(made[c["name"]])
    if height is not None:
        b.setHeight(height)
    try:  # block type -> flags (FUEL, CONTROL, ...), as the blueprint path does
        b.setType(name or bspec.get("kind", "fuel"))
    except Exception:
        pass
    return b


def build_assembly(bspecs, heights, name="fuel", xstypes=None):
    from armi.reactor import assemblies, grids

    a = assemblies.HexAssembly(name)
    a.spatialGrid = grids.AxialGrid.fromNCells(len(bspecs))
    for i, (bs, h) in enumerate(zip(bspecs, heights)):
        b = build_block(bs, h, name=bs.get("kind", "fuel"))
        if xstypes:
            b.p.xsType = xstypes[i]
        a.add(b)
    a.calculateZCoords()
    a.reestablishBlockOrder()
    return a


# --------------------------------------------------------------------------------------------- YAML rendering
def _fmt(v):
    if isinstance(v, bool):
        return "true" if v else "false"
    if isinstance(v, float):
        return repr(v)
    return str(v)


def render_blueprint(spec):
    """spec: {"blocks": {name: blockspec}, "assemblies": {name: {...}}, "grids": {...}, "systems": optional, ...}"""
    out = io.StringIO()
    w = out.write
    if spec.get("custom isotopics"):
        w("custom isotopics:\n")
        for nm, iso in spec["custom isotopics"].items():
            w("    %s:\n" % nm)
            for k, v in iso.items():
                w("        %s: %s\n" % (k, _fmt(v)))
    if spec.get("nuclide flags"):
        w("nuclide flags:\n")
        for nm, fl in spec["nuclide flags"].items():
            w("    %s: {burn: %s, xs: %s}\n" % (nm, _fmt(fl.get("burn", False)), _fmt(fl.get("xs", True))))
    w("blocks:\n")
    for bname, b in spec["blocks"].items():
        w("    %s: &block_%s\n" % (bname, bname.replace(" ", "_")))
        if b.get("grid name"):
            w("        grid name: %s\n" % b["grid name"])
        for c in b["components"]:
            w("        %s:\n" % c["name"])
            for k, v in c.items():
                if k == "name":
                    continue
                if k == "latticeIDs":
                    w("            latticeIDs: [%s]\n" % ", ".join(v))
                elif k == "flags":
                    w("            flags: %s\n" % v)
                else:
                    w("            %s: %s\n" % (k, _fmt(v)))
    w("assemblies:\n")
    for aname, a in spec["assemblies"].items():
        w("    %s:\n" % aname)
        w("        specifier: %s\n" % a["specifier"])
        w("        blocks: [%s]\n" % ", ".join("*block_%s" % b.replace(" ", "_") for b in a["blocks"]))
        w("        height: [%s]\n" % ", ".join(_fmt(float(h)) for h in a["height"]))
        w("        axial mesh points: [%s]\n" % ", ".join(str(int(m)) for m in a["axial mesh points"]))
        w("        xs types: [%s]\n" % ", ".join(a["xs types"]))
        for k in ("nozzleType", "crCurrentElevation", "crInsertedElevation", "crWithdrawnElevation"):  # stated only when a caller asks for them
            if a.get(k) is not None:
                w("        %s: %s\n" % (k, _fmt(a[k])))
        if a.get("material modifications"):
            w("        material modifications:\n")
            for k, v in a["material modifications"].items():
                if k == "by component":
                    w("            by component:\n")
                    for cname, mods in v.items():
                        w("                %s:\n" % cname)
                        for mk, mv in mods.items():
                            w("                    %s: [%s]\n" % (mk, ", ".join("''" if x == "" else _fmt(x) for x in mv)))
                else:
                    w("            %s: [%s]\n" % (k, ", ".join("''" if x == "" else _fmt(x) for x in v)))
    w("systems:\n")
    systems = spec.get("systems") or {"core": {"grid name": "core", "origin": (0.0, 0.0, 0.0)}}
    for sname, s in systems.items():
        w("    %s:\n" % sname)
        if s.get("type"):
            w("        type: %s\n" % s["type"])
        w("        grid name: %s\n" % s["grid name"])
        o = s.get("origin", (0.0, 0.0, 0.0))
        w("        origin: {x: %s, y: %s, z: %s}\n" % (_fmt(float(o[0])), _fmt(float(o[1])), _fmt(float(o[2]))))
    w("grids:\n")
    for gname, g in spec["grids"].items():
        w("    %s:\n" % gname)
        w("        geom: %s\n" % g["geom"])
        if g.get("symmetry"):
            w("        symmetry: %s\n" % g["symmetry"])
        if g.get("lattice pitch"):
            lp = g["lattice pitch"]
            w("        lattice pitch: {x: %s, y: %s}\n" % (_fmt(float(lp[0])), _fmt(float(lp[1]))))
        if g.get("grid bounds"):
            w("        grid bounds:\n")
            for k, v in g["grid bounds"].items():
                w("            %s: [%s]\n" % (k, ", ".join(_fmt(float(x)) for x in v)))
        if g.get("lattice map") is not None:
            w("        lattice map: |\n")
            for line in g["lattice map"].splitlines():
                w("            %s\n" % line)
        elif g.get("contents"):
            w("        grid contents:\n")
            for (i, j), s in g["contents"].items():
                w("            [%d, %d]: %s\n" % (i, j, s))
    return out.getvalue()


# --------------------------------------------------------------------------------------------- core specs
def hex_cells(rings):
    return [(i, j) for i in range(-(rings - 1), rings) for j in range(-(rings - 1), rings) if max(abs(i), abs(j), abs(i + j)) <= rings - 1]


def in_first_third(i, j):
    """Independent first-third test by polar angle of the flats-up centre: 0 <= angle < 120 deg (0-degree line included)."""
    if (i, j) == (0, 0):
        return True
    x, y = math.sqrt(3) / 2 * i, i / 2 + j
    ang = math.degrees(math.atan2(y, x)) % 360.0
    return ang < 120.0 - 1e-9 or ang > 360.0 - 1e-9


def core_spec(rng, rings=3, symmetry="third periodic", geom="hex", ndesigns=2, holes=0.15, nblocks=None, pitch=None, kinds=None, coolant="Sodium", hot=True, full_blocks=True, sfp=True):
    """A small hex core: `ndesigns` assembly designs on a random map with holes."""
    pitch = pitch or rng.uniform(8, 18)
    nblocks = nblocks or rng.randint(2, 5)
    spec = {"blocks": {}, "assemblies": {}, "grids": {}}
    heights = [round(rng.uniform(8, 40), 3) for _ in range(nblocks)]  # all designs share the axial mesh
    specs = ["A%d" % d for d in range(ndesigns)]
    for d in range(ndesigns):
        bnames = []
        for k in range(nblocks):
            kind = (kinds or ["fuel", "fuel", "shield", "control", "plenum"])[rng.randrange(len(kinds or [0] * 5))] if (0 < k < nblocks - 1 or nblocks < 3) else rng.choice(["shield", "reflector", "fuel"])
            bn = "b%d_%d_%s" % (d, k, kind)
            bs = pin_block_spec(rng, kind=kind, pitch=pitch, npins=rng.choice(HEX_PIN_COUNTS[:5]), coolant=coolant, hot=hot)
            spec["blocks"][bn] = bs
            bnames.append(bn)
        spec["assemblies"]["design%d" % d] = {
            "specifier": specs[d], "blocks": bnames, "height": heights, "axial mesh points": [1] * nblocks,
            "xs types": [rng.choice("ABCD") for _ in range(nblocks)]}
    cells = hex_cells(rings)
    if symmetry.startswith("third"):
        cells = [c for c in cells if in_first_third(*c)]
    contents = {}
    for c in cells:
        if c != (0, 0) and rng.random() < holes:
            continue
        contents[c] = rng.choice(specs)
    if (0, 0) not in contents:
        contents[(0, 0)] = specs[0]
    spec["grids"]["core"] = {"geom": geom, "symmetry": symmetry, "contents": contents}
    if sfp:
        spec["systems"] = {"core": {"grid name": "core", "origin": (0.0, 0.0, 0.0)},
                           "sfp": {"type": "sfp", "grid name": "sfp", "origin": (5000.0, 5000.0, 0.0)}}
        spec["grids"]["sfp"] = {"geom": "cartesian", "symmetry": "full", "lattice pitch": (pitch * 2, pitch * 2)}
    spec["pitch"] = pitch
    return spec


def nuclide_flags_for(spec):
    """Default armi flags + every nuclide/element name the materials used by the spec hold (burn False)."""
    from armi import materials
    from armi.reactor.blueprints import isotopicOptions

    flags = {k: {"burn": v["burn"], "xs": v["xs"]} for k, v in isotopicOptions.getDefaultNuclideFlags().items()}
    used = {c["material"] for b in spec["blocks"].values() for c in b["components"]}
    for m in sorted(used):
        try:
            mat = materials.resolveMaterialClassByName(m)()
        except Exception:
            continue
        for nuc in mat.massFrac:
            flags.setdefault(nuc, {"burn": False, "xs": True})
    return flags


def load_blueprint(text):
    from armi.reactor import blueprints

    return blueprints.Blueprints.load(io.StringIO(text))


def build_reactor(spec_or_text, settings_overrides=None):
    """Returns (reactor, cs, bp, yaml_text)."""
    from armi import settings
    from armi.reactor import reactors

    if not isinstance(spec_or_text, str) and "nuclide flags" not in spec_or_text:
        spec_or_text["nuclide flags"] = nuclide_flags_for(spec_or_text)
    text = spec_or_text if isinstance(spec_or_text, str) else render_blueprint(spec_or_text)
    cs = settings.Settings()
    if settings_overrides:
        cs = cs.modified(newSettings=settings_overrides)
    bp = load_blueprint(text)
    from vlib.env import quiet

    with quiet():
        r = reactors.factory(cs, bp)
    return r, cs, bp, text
