"""C07 - grid indices, ring/position, labels and coordinates are consistent bijections.

Oracle: closed-form geometry written here from the statement (basis vectors from the pitch and the
orientation, cube-coordinate hex distance, brute-force ring counting), never armi's own arithmetic.
Exhaustive over all cells within N rings for both hex orientations; sampled far cells, pitches,
offsets, bounds, nestings.
"""
import itertools
import math
import random

PROP = "C07"
LEVEL = "exploration"
ARMI_FULL = True
RULE = (
    "hex: every cell within N rings (exhaustive), both orientations, x several pitches, + random far cells; "
    "cartesian: every cell within N rings, through-centre and offset; axial/theta-rz: random increasing bounds; "
    "nestings core->assembly->block pin grid built from real composites. A case = one (grid kind, orientation, "
    "cell or parameter tuple); distinct = distinct such tuples; all are non-trivial except the centre cell."
)
TOLERANCES = {"coord_rel_to_pitch": 1e-9, "angle_rad": 1e-9}
EXHAUSTIVE = {"quick": True, "thorough": True}
EXHAUSTIVE_PART = "all hex cells within N rings (quick N=14, thorough N=60) for both orientations; all cartesian cells within N rings"
TIMEOUT = {"quick": 600, "thorough": 3600}
FLOORS = {
    "quick": {"hex.cell": 1000, "hex.neighbours": 1000, "cart.cell": 500, "bounds.cell": 200, "nest.loc": 100, "minrings": 1000, "reduce": 50, "changePitch": 20, "reduce.after-mutation": 60, "nest.no-add": 40, "mixed-layout.cell": 800, "mixed-layout.cell/BSS": 100, "mixed-layout.cell/SBS": 100},
    "thorough": {"hex.cell": 20000, "hex.neighbours": 20000, "cart.cell": 5000, "bounds.cell": 2000, "nest.loc": 1000, "minrings": 10000, "reduce": 500, "changePitch": 200, "reduce.after-mutation": 600, "nest.no-add": 300, "mixed-layout.cell": 8000, "mixed-layout.cell/BSS": 1000, "mixed-layout.cell/SBS": 1000},
}


def plan(tier, seed):
    n = 14 if tier == "quick" else 60
    nc = 10 if tier == "quick" else 40
    shards = []
    for cu in (False, True):
        shards.append({"name": "hex-%s" % ("cu" if cu else "fu"), "kind": "hex", "cornersUp": cu, "rings": n})
        shards.append({"name": "hexfar-%s" % ("cu" if cu else "fu"), "kind": "hexfar", "cornersUp": cu, "n": 3000 if tier == "quick" else 60000})
    shards.append({"name": "cart", "kind": "cart", "rings": nc})
    shards.append({"name": "bounds", "kind": "bounds", "n": 150 if tier == "quick" else 3000})
    shards.append({"name": "nest", "kind": "nest", "n": 60 if tier == "quick" else 1200})
    shards.append({"name": "minrings", "kind": "minrings", "upto": 20000 if tier == "quick" else 400000, "nrand": 3000 if tier == "quick" else 100000})
    shards.append({"name": "reduce", "kind": "reduce", "n": 120 if tier == "quick" else 3000})
    return shards


# ----------------------------------------------------------------------------- reference geometry
def hex_basis(pitch, cornersUp):
    if cornersUp:
        a = (math.cos(math.radians(60)), math.sin(math.radians(60)))
        b = (math.cos(math.radians(120)), math.sin(math.radians(120)))
    else:
        a = (math.cos(math.radians(30)), math.sin(math.radians(30)))
        b = (0.0, 1.0)
    return (pitch * a[0], pitch * a[1]), (pitch * b[0], pitch * b[1])


def hex_xy(i, j, pitch, cornersUp):
    a, b = hex_basis(pitch, cornersUp)
    return (i * a[0] + j * b[0], i * a[1] + j * b[1])


def hex_dist(i, j):
    return max(abs(i), abs(j), abs(i + j))


def close(a, b, scale, rel=1e-9):
    return abs(a - b) <= rel * max(scale, abs(a), abs(b)) + 1e-300


def vclose(u, v, scale, rel=1e-9):
    return len(u) == len(v) and all(close(float(x), float(y), scale, rel) for x, y in zip(u, v))


def run_shard(spec, rec):
    rng = random.Random(spec["rng"])
    k = spec["kind"]
    {"hex": do_hex, "hexfar": do_hexfar, "cart": do_cart, "bounds": do_bounds, "nest": do_nest,
     "minrings": do_minrings, "reduce": do_reduce}[k](spec, rec, rng)


# ----------------------------------------------------------------------------- hex
def check_hex_cell(g, i, j, kk, pitch, cu, rec, tag):
    from armi.reactor import grids

    H = grids.HexGrid
    w = {"i": i, "j": j, "k": kk, "pitch": pitch, "cornersUp": cu}
    rec.hit("hex.cell")
    try:
        ring, pos = H.indicesToRingPos(i, j)
        # ring = hex distance + 1
        if ring != hex_dist(i, j) + 1:
            rec.violation("hex/ring-not-distance+1", "indicesToRingPos(%d,%d) ring=%s, hex distance+1=%d" % (i, j, ring, hex_dist(i, j) + 1), w)
        npos = 1 if ring == 1 else 6 * (ring - 1)
        if not (isinstance(pos, int) and 1 <= pos <= npos):
            rec.violation("hex/pos-out-of-range", "pos %s not in 1..%d for ring %d" % (pos, npos, ring), w)
        back = H.getIndicesFromRingAndPos(ring, pos)
        if tuple(back) != (i, j):
            rec.violation("hex/ringpos-roundtrip", "getIndicesFromRingAndPos(indicesToRingPos(%d,%d)=(%s,%s)) = %s" % (i, j, ring, pos, back), w)
        if g.getRingPos((i, j, kk)) != (ring, pos):
            rec.violation("hex/getRingPos-differs", "getRingPos != indicesToRingPos at %s" % ((i, j),), w)
        # labels
        for idx in ((i, j), (i, j, kk)):
            lab = g.getLabel(idx)
            parsed = grids.locatorLabelToIndices(lab)
            want = (ring, pos, None) if len(idx) == 2 else (ring, pos, kk)
            if tuple(parsed) != want:
                rec.violation("hex/label-roundtrip", "label %r of %s parses to %s, expected %s" % (lab, idx, parsed, want), w)
        # locator objects
        loc = g[i, j, kk]
        if tuple(int(x) for x in loc.indices) != (i, j, kk) or loc.grid is not g or (loc.i, loc.j, loc.k) != (i, j, kk):
            rec.violation("hex/locator-indices", "grid[%s] has indices %s grid-is-g=%s" % ((i, j, kk), loc.indices, loc.grid is g), w)
        if g[i, j, kk] is not loc:
            rec.violation("hex/locator-not-unique", "grid[ijk] returned two different locator objects", w)
        l2 = g.getLocatorFromRingAndPos(ring, pos, kk)
        if l2 is not loc:
            rec.violation("hex/locator-from-ringpos", "getLocatorFromRingAndPos(%d,%d,%d) is not grid[%s]" % (ring, pos, kk, (i, j, kk)), w)
        if loc.getRingPos() != (ring, pos):
            rec.violation("hex/locator-getRingPos", "locator.getRingPos()=%s" % (loc.getRingPos(),), w)
        # coordinates: centre is affine in indices
        x, y = hex_xy(i, j, pitch, cu)
        c = g.getCoordinates((i, j, kk))
        if not vclose(c, (x, y, 0.0), pitch):
            rec.violation("hex/centre-coordinates", "getCoordinates(%s)=%s expected (%r,%r,0)" % ((i, j, kk), list(c), x, y), w)
        lc = loc.getLocalCoordinates()
        gc = loc.getGlobalCoordinates()
        if not (vclose(lc, c, pitch) and vclose(gc, c, pitch)):
            rec.violation("hex/locator-coordinates", "locator local/global coords differ from grid.getCoordinates", w)
        # base/top: affine midpoint rule: base(i) = (c(i-1)+c(i))/2 ; top(i) = base(i+1)
        bx, by = hex_xy(i - 0.5, j - 0.5, pitch, cu)
        tx, ty = hex_xy(i + 0.5, j + 0.5, pitch, cu)
        b = g.getCellBase((i, j, kk))
        t = g.getCellTop((i, j, kk))
        if not vclose(b, (bx, by, 0.0), pitch):
            rec.violation("hex/cell-base", "getCellBase(%s)=%s expected (%r,%r,0)" % ((i, j, kk), list(b), bx, by), w)
        if not vclose(t, (tx, ty, 0.0), pitch):
            rec.violation("hex/cell-top", "getCellTop(%s)=%s expected (%r,%r,0)" % ((i, j, kk), list(t), tx, ty), w)
        # neighbours: one pitch away, counter-clockwise
        nb = g.getNeighboringCellIndices(i, j, kk)
        rec.hit("hex.neighbours")
        if len(nb) != 6 or len(set(nb)) != 6:
            rec.violation("hex/neighbour-count", "neighbours %s" % (nb,), w)
        angs = []
        for (ni, nj, nk) in nb:
            if nk != kk:
                rec.violation("hex/neighbour-k", "neighbour changes k", w)
            nc = g.getCoordinates((ni, nj, nk))
            d = math.hypot(nc[0] - c[0], nc[1] - c[1])
            if not close(d, pitch, pitch, 1e-9 * max(1.0, hex_dist(i, j))):
                rec.violation("hex/neighbour-distance", "neighbour %s of %s at distance %r, pitch %r" % ((ni, nj), (i, j), d, pitch), w)
            # direction from the *reference* geometry, so large |coords| do not cost precision
            dx, dy = hex_xy(ni - i, nj - j, 1.0, cu)
            if hex_dist(ni - i, nj - j) != 1:
                rec.violation("hex/neighbour-not-adjacent", "neighbour %s of %s is not at hex distance 1" % ((ni, nj), (i, j)), w)
            angs.append(math.atan2(dy, dx) % (2 * math.pi))
        for a0, a1 in zip(angs, angs[1:]):
            step = (a1 - a0) % (2 * math.pi)
            if abs(step - math.pi / 3) > 1e-9:
                rec.violation("hex/neighbour-order", "neighbour angles %s not CCW 60-degree steps" % ([round(math.degrees(a), 6) for a in angs],), w)
                break
        first = math.degrees(angs[0]) if angs else None
        if angs and abs(first - (60.0 if cu else 30.0)) > 1e-6:
            rec.violation("hex/neighbour-start", "first neighbour at %r deg, documented start is %s" % (first, 60 if cu else 30), w)
    except Exception as e:  # armi raised on a valid cell
        rec.crash("hex-cell/" + tag, e, w)


def do_hex(spec, rec, rng):
    from armi.reactor import grids

    cu = spec["cornersUp"]
    N = spec["rings"]
    pitches = [1.0, 16.142, 10 ** rng.uniform(-3, 3)]
    H = grids.HexGrid
    for pi_, pitch in enumerate(pitches):
        g = H.fromPitch(pitch, numRings=3, cornersUp=cu)
        if g.cornersUp != cu:
            rec.violation("hex/cornersUp-flag", "fromPitch(cornersUp=%s).cornersUp=%s" % (cu, g.cornersUp), {"pitch": pitch})
        if not close(g.pitch, pitch, pitch):
            rec.violation("hex/pitch-property", "pitch property %r != %r" % (g.pitch, pitch), {"pitch": pitch})
        seen = {}
        for i in range(-(N - 1), N):
            for j in range(-(N - 1), N):
                if hex_dist(i, j) > N - 1:
                    continue
                kk = 0 if pi_ else (i * 7 + j * 3) % 4
                check_hex_cell(g, i, j, kk, pitch, cu, rec, "exh")
                try:
                    rp = H.indicesToRingPos(i, j)
                    seen.setdefault(rp[0], []).append(rp[1])
                except Exception:
                    pass
                rec.case(["hex", cu, pi_, i, j], nontrivial=(i, j) != (0, 0),
                         sample={"grid": "hex", "cornersUp": cu, "pitch": pitch, "ij": [i, j]} if (i, j) == (2, -1) else None)
        # ring r holds 6(r-1) cells numbered 1..6(r-1) once each
        for r in range(1, N + 1):
            want = list(range(1, (1 if r == 1 else 6 * (r - 1)) + 1))
            rec.hit("hex.ring-census")
            if sorted(seen.get(r, [])) != want:
                rec.violation("hex/ring-census", "ring %d holds positions %s..., expected 1..%d once each" % (r, sorted(seen.get(r, []))[:12], want[-1]), {"ring": r, "cornersUp": cu})
            if H.getPositionsInRing(r) != len(want):
                rec.violation("hex/positions-in-ring", "getPositionsInRing(%d)=%s" % (r, H.getPositionsInRing(r)), {"ring": r})
        # inverse direction: every (ring,pos) -> indices -> (ring,pos)
        for r in range(1, N + 1):
            for p in range(1, (1 if r == 1 else 6 * (r - 1)) + 1):
                rec.hit("hex.ringpos->ij")
                try:
                    ij = H.getIndicesFromRingAndPos(r, p)
                    if H.indicesToRingPos(*ij) != (r, p):
                        rec.violation("hex/ij-roundtrip", "indicesToRingPos(getIndicesFromRingAndPos(%d,%d)=%s)=%s" % (r, p, ij, H.indicesToRingPos(*ij)), {"ring": r, "pos": p})
                except Exception as e:
                    rec.crash("hex-ringpos", e, {"ring": r, "pos": p})
            if pi_:
                break


def do_hexfar(spec, rec, rng):
    from armi.reactor import grids

    cu = spec["cornersUp"]
    for n in range(spec["n"]):
        mag = rng.choice([30, 300, 10 ** 4, 10 ** 6])
        i, j = rng.randint(-mag, mag), rng.randint(-mag, mag)
        if n % 7 == 0:  # ring corners and edges far away
            r = rng.randint(2, mag)
            i, j = rng.choice([(r, 0), (0, r), (-r, r), (-r, 0), (0, -r), (r, -r), (r - 1, 1), (1, -r)])
        pitch = 10 ** rng.uniform(-3, 3)
        g = grids.HexGrid.fromPitch(pitch, numRings=1, cornersUp=cu)
        if rng.random() < 0.3:
            off = [rng.uniform(-5, 5) * pitch for _ in range(3)]
            g.offset = __import__("numpy").array(off)
            try:
                c = g.getCoordinates((i, j, 0))
                x, y = hex_xy(i, j, pitch, cu)
                rec.hit("hex.offset")
                if not vclose(c, (x + off[0], y + off[1], off[2]), pitch * max(1, abs(i), abs(j))):
                    rec.violation("hex/offset-coordinates", "offset grid centre %s expected %s" % (list(c), (x + off[0], y + off[1], off[2])), {"i": i, "j": j, "pitch": pitch, "offset": off})
            except Exception as e:
                rec.crash("hex-offset", e, {"i": i, "j": j})
            g = grids.HexGrid.fromPitch(pitch, numRings=1, cornersUp=cu)
        check_hex_cell(g, i, j, rng.randint(0, 5), pitch, cu, rec, "far")
        rec.case(["hexfar", cu, i, j, round(math.log10(pitch), 3)], sample={"grid": "hex", "cornersUp": cu, "pitch": pitch, "ij": [i, j]} if n < 2 else None)


# ----------------------------------------------------------------------------- cartesian
def cart_ring_ref(i, j, through):
    """Ring by Chebyshev distance (statement/docstring picture): through-centre ring 1 = 1 cell,
    offset ring 1 = the 4 cells around the origin."""
    if through:
        return max(abs(i), abs(j)) + 1
    # cell (i,j) spans [i,i+1]x[j,j+1]; ring = chebyshev distance of the far corner
    fi = i + 1 if i >= 0 else -i
    fj = j + 1 if j >= 0 else -j
    return max(fi, fj)


def do_cart(spec, rec, rng):
    import numpy as np
    from armi.reactor import grids

    N = spec["rings"]
    for through in (True, False):
        for wh in ((1.0, 1.0), (1.26, 1.26), (10 ** rng.uniform(-2, 2), 10 ** rng.uniform(-2, 2))):
            w_, h_ = wh
            g = grids.CartesianGrid.fromRectangle(w_, h_, numRings=2, isOffset=not through)
            census = {}
            lo, hi = (-(N - 1), N - 1) if through else (-N, N - 1)
            for i in range(lo, hi + 1):
                for j in range(lo, hi + 1):
                    wit = {"i": i, "j": j, "throughCenter": through, "w": w_, "h": h_}
                    rec.hit("cart.cell")
                    try:
                        ring, pos = g.getRingPos((i, j))
                        want = cart_ring_ref(i, j, through)
                        if ring != want:
                            rec.violation("cart/ring", "getRingPos(%s) ring=%s expected %d (throughCentre=%s)" % ((i, j), ring, want, through), wit)
                        census.setdefault(ring, []).append(pos)
                        off = (0.0, 0.0) if through else (w_ / 2, h_ / 2)
                        c = g.getCoordinates((i, j, 0))
                        if not vclose(c, (i * w_ + off[0], j * h_ + off[1], 0.0), max(w_, h_)):
                            rec.violation("cart/centre-coordinates", "getCoordinates(%s)=%s" % ((i, j), list(c)), wit)
                        b = g.getCellBase((i, j, 0))
                        t = g.getCellTop((i, j, 0))
                        if not vclose(b, ((i - .5) * w_ + off[0], (j - .5) * h_ + off[1], 0.0), max(w_, h_)):
                            rec.violation("cart/cell-base", "getCellBase(%s)=%s" % ((i, j), list(b)), wit)
                        if not vclose(t, ((i + .5) * w_ + off[0], (j + .5) * h_ + off[1], 0.0), max(w_, h_)):
                            rec.violation("cart/cell-top", "getCellTop(%s)=%s" % ((i, j), list(t)), wit)
                        loc = g[i, j, 0]
                        if tuple(int(x) for x in loc.indices) != (i, j, 0) or loc.grid is not g or g[i, j, 0] is not loc:
                            rec.violation("cart/locator", "grid[%s] inconsistent" % ((i, j, 0),), wit)
                        for idx in ((i, j), (i, j, 3)):
                            lab = g.getLabel(idx)
                            try:
                                parsed = tuple(grids.locatorLabelToIndices(lab))
                            except Exception as e:
                                parsed = "raised %s: %s" % (type(e).__name__, e)
                            wantl = (i, j, None) if len(idx) == 2 else idx
                            if parsed != wantl:
                                neg = "negative" if (i < 0 or j < 0) else "nonnegative"
                                rec.violation("cart/label-roundtrip/%s-index" % neg, "label %r of %s parses to %s" % (lab, idx, parsed), wit)
                        nb = g.getNeighboringCellIndices(i, j, 0)
                        if sorted(nb) != sorted([(i + 1, j, 0), (i, j + 1, 0), (i - 1, j, 0), (i, j - 1, 0)]):
                            rec.violation("cart/neighbours", "neighbours of %s = %s" % ((i, j), nb), wit)
                    except Exception as e:
                        rec.crash("cart-cell", e, wit)
                    rec.case(["cart", through, round(w_, 6), i, j], sample=wit if (i, j) == (1, -2) else None)
            for r in range(1, N + 1):
                rec.hit("cart.ring-census")
                try:
                    npos = g.getPositionsInRing(r)
                except Exception as e:
                    rec.crash("cart-positionsInRing", e, {"ring": r})
                    continue
                ref = sum(1 for i in range(lo, hi + 1) for j in range(lo, hi + 1) if cart_ring_ref(i, j, through) == r)
                if npos != ref:
                    rec.violation("cart/positions-in-ring", "getPositionsInRing(%d)=%s, cells at that ring=%d (throughCentre=%s)" % (r, npos, ref, through), {"ring": r, "throughCenter": through})
                if sorted(census.get(r, [])) != list(range(1, ref + 1)):
                    rec.violation("cart/ring-census/%s" % ("through-centre" if through else "offset"),
                                  "ring %d positions %s, expected 1..%d once each" % (r, sorted(census.get(r, []))[:16], ref), {"ring": r, "throughCenter": through})
            # minimum rings vs brute force
            tot = 0
            table = []
            for r in range(1, 60):
                tot += (1 if r == 1 else 8 * (r - 1)) if through else (4 if r == 1 else 8 * (r - 1) + 4)
                table.append(tot)
            for n in list(range(1, 400)) + [rng.randint(400, table[-1]) for _ in range(100)]:
                rec.hit("cart.minrings")
                ref = next(r for r, t in enumerate(table, 1) if t >= n)
                got = g.getMinimumRings(n)
                if got != ref:
                    rec.violation("cart/minimum-rings", "getMinimumRings(%d)=%s expected %d (throughCentre=%s)" % (n, got, ref, through), {"n": n, "throughCenter": through})
            # changePitch on grids built directly from constructor arguments with integer-valued offsets/steps (legal input)
            for offs in ((1, 1, 0), (2, 3, 0), (1.0, 2.0, 0.0)):
                iw, ih = rng.choice([(2, 2), (2, 4), (3, 1)])
                gi = grids.CartesianGrid(unitSteps=((iw, 0, 0), (0, ih, 0), (0, 0, 0)), unitStepLimits=((-2, 3), (-2, 3), (0, 1)), offset=offs)
                cells_ = [(0, 0, 0), (1, 2, 0), (-2, 1, 0), (-4, -4, 0)]
                c0s = [gi.getCoordinates(k_) for k_ in cells_]
                nw_, nh_ = rng.choice([(3.0, 3.0), (5.0, 1.0), (1.0, 1.0), (iw * 1.5, ih * 0.5)])
                gi.changePitch(nw_, nh_)
                rec.hit("changePitch")
                for k_, c0 in zip(cells_, c0s):
                    c1 = gi.getCoordinates(k_)
                    exp = (c0[0] * nw_ / iw, c0[1] * nh_ / ih, c0[2])
                    if not vclose(c1, exp, max(nw_, nh_)):
                        rec.violation("cart/changePitch/integer-constructor-arguments", "grid(steps %sx%s, offset %s): after changePitch(%r,%r) centre of %s is %s, expected %s" % (iw, ih, offs, nw_, nh_, k_, list(c1), exp),
                                      {"steps": [iw, ih], "offset": list(offs), "new": [nw_, nh_]})
                        break
                g3 = type(gi)(*gi.reduce())
                if not all(vclose(g3.getCoordinates(k_), gi.getCoordinates(k_), max(nw_, nh_)) for k_ in cells_):
                    rec.violation("cart/changePitch-then-reduce", "grid rebuilt from reduce() after changePitch differs", {"steps": [iw, ih], "offset": list(offs)})
            # changePitch: rescales coordinates (and offset), nothing else
            g2 = grids.CartesianGrid.fromRectangle(w_, h_, numRings=2, isOffset=not through, symmetry="full")
            before = {k_: (tuple(g2.getCoordinates(k_)), g2.getRingPos(k_)) for k_ in [(0, 0, 0), (1, 2, 0), (-2, 1, 0), (3, -1, 0)]}
            red0 = g2.reduce()
            nw, nh = w_ * rng.uniform(.3, 3), h_ * rng.uniform(.3, 3)
            g2.changePitch(nw, nh)
            rec.hit("changePitch")
            for k_, (c0, rp0) in before.items():
                c1 = g2.getCoordinates(k_)
                if not vclose(c1, (c0[0] * nw / w_, c0[1] * nh / h_, c0[2]), max(nw, nh)) or g2.getRingPos(k_) != rp0:
                    rec.violation("cart/changePitch", "after changePitch coords of %s = %s, expected scaled %s" % (k_, list(c1), c0), {"w": w_, "h": h_, "nw": nw, "nh": nh, "throughCenter": through})
            red1 = g2.reduce()
            if (red0.bounds, red0.unitStepLimits, red0.geomType, red0.symmetry) != (red1.bounds, red1.unitStepLimits, red1.geomType, red1.symmetry):
                rec.violation("cart/changePitch-metadata", "changePitch altered metadata", {"before": str(red0), "after": str(red1)})
            if not vclose(g2.pitch, (nw, nh), max(nw, nh)):
                rec.violation("cart/pitch-property", "pitch %s after changePitch(%r,%r)" % (g2.pitch, nw, nh), {})


# ----------------------------------------------------------------------------- bounds grids
def inc_bounds(rng, n, lo=0.0, hi=None):
    xs = [lo]
    for _ in range(n):
        xs.append(xs[-1] + 10 ** rng.uniform(-2, 2))
    if hi is not None:
        s = (hi - lo) / (xs[-1] - lo)
        xs = [lo + (x - lo) * s for x in xs]
        xs[-1] = hi
    return xs


def do_bounds(spec, rec, rng):
    import numpy as np
    from armi.reactor import grids

    for n in range(spec["n"]):
        # --- axial
        nz = rng.randint(1, 12)
        zb = inc_bounds(rng, nz, lo=rng.choice([0.0, 0.0, rng.uniform(-50, 50)]))
        off = None if rng.random() < .6 else [rng.uniform(-3, 3) for _ in range(3)]
        g = grids.AxialGrid(bounds=(None, None, np.array(zb)), offset=off)
        o = off or [0, 0, 0]
        scale = max(abs(zb[0]), abs(zb[-1]), 1.0)
        for k in range(nz):
            rec.hit("bounds.cell")
            w = {"grid": "axial", "zbounds": zb, "k": k, "offset": off}
            try:
                c, b, t = g.getCoordinates((0, 0, k)), g.getCellBase((0, 0, k)), g.getCellTop((0, 0, k))
                if not vclose(c, (o[0], o[1], (zb[k] + zb[k + 1]) / 2 + o[2]), scale):
                    rec.violation("axial/centre", "getCoordinates k=%d -> %s" % (k, list(c)), w)
                if not vclose(b, (o[0], o[1], zb[k] + o[2]), scale) or not vclose(t, (o[0], o[1], zb[k + 1] + o[2]), scale):
                    rec.violation("axial/base-top", "base %s top %s, bounds %r..%r" % (list(b), list(t), zb[k], zb[k + 1]), w)
                loc = g[0, 0, k]
                if tuple(int(x) for x in loc.indices) != (0, 0, k) or loc.grid is not g:
                    rec.violation("axial/locator", "locator mismatch", w)
                lab = g.getLabel((0, 0, k))
                if tuple(grids.locatorLabelToIndices(lab)) != (0, 0, k):
                    rec.violation("axial/label-roundtrip", "label %r" % lab, w)
            except Exception as e:
                rec.crash("axial-cell", e, w)
        if not g.isAxialOnly and nz > 1:
            rec.violation("axial/isAxialOnly", "AxialGrid with %d cells reports isAxialOnly False" % nz, {"zbounds": zb})
        rec.case(["axial", nz, [round(z, 6) for z in zb], off and [round(x, 6) for x in off]], sample={"grid": "axial", "zbounds": zb, "offset": off} if n < 1 else None)
        # negative index must be refused, never wrap around
        try:
            g.getCoordinates((0, 0, -1))
            rec.violation("axial/negative-index-wraps", "getCoordinates((0,0,-1)) accepted on a bounds grid", {"zbounds": zb})
        except IndexError:
            rec.reject("bounds-negative-index")
        except Exception as e:
            rec.crash("axial-negative", e, {})
        # --- every mix of step-defined and bounds-defined dimensions (a non-uniform x mesh with uniform y and z, ...): each
        # coordinate is the affine rule of its own dimension, whichever order the two kinds come in
        lay = ["SSS", "SSB", "SBS", "BSS", "SBB", "BSB", "BBS", "BBB"][n % 8]
        st = [rng.uniform(.5, 3.0) if L == "S" else 0.0 for L in lay]
        bd = [inc_bounds(rng, rng.randint(2, 5), lo=rng.uniform(-5, 5)) if L == "B" else None for L in lay]
        offm = None if rng.random() < .5 else [rng.uniform(-3, 3) for _ in range(3)]
        wm = {"grid": "cartesian-mixed", "layout": lay, "steps": st, "bounds": bd, "offset": offm}
        try:
            sd_ = [d for d, L in enumerate(lay) if L == "S"]
            # unit steps: one row per dimension, one column per step-defined dimension (as armi's own hex-with-axial-bounds grids)
            rows_ = [(tuple(st[d] if c_ == d else 0.0 for c_ in sd_) if lay[d] == "S" else (0.0,) * len(sd_)) if sd_ else 0 for d in range(3)]
            gm = grids.CartesianGrid(unitSteps=tuple(rows_), bounds=tuple(np.array(b_) if b_ is not None else None for b_ in bd),
                                     unitStepLimits=tuple((0, 1) if L == "B" else (-2, 3) for L in lay), offset=offm)
            om = offm or [0, 0, 0]
            for _ in range(12):
                idx = tuple(rng.randint(-3, 3) if L == "S" else rng.randrange(len(bd[d]) - 1) for d, L in enumerate(lay))
                rec.hit("mixed-layout.cell")
                rec.hit("mixed-layout.cell/" + lay)
                want_c, want_b, want_t = [], [], []
                for d, L in enumerate(lay):
                    if L == "S":
                        want_c.append(idx[d] * st[d] + om[d]); want_b.append((idx[d] - .5) * st[d] + om[d]); want_t.append((idx[d] + .5) * st[d] + om[d])
                    else:
                        lo_, hi_ = bd[d][idx[d]], bd[d][idx[d] + 1]
                        want_c.append((lo_ + hi_) / 2 + om[d]); want_b.append(lo_ + om[d]); want_t.append(hi_ + om[d])
                c, b, t = gm.getCoordinates(idx), gm.getCellBase(idx), gm.getCellTop(idx)
                if not vclose(c, want_c, 10.0) or not vclose(b, want_b, 10.0) or not vclose(t, want_t, 10.0):
                    rec.violation("mixed-layout/%s" % lay, "layout %s cell %s: centre %s base %s top %s, by the rule of each dimension %s %s %s" % (
                        lay, idx, [float(x) for x in c], [float(x) for x in b], [float(x) for x in t], want_c, want_b, want_t), dict(wm, cell=list(idx)))
                    break
        except Exception as e:
            rec.crash("mixed-layout", e, wm)
        # --- theta-r-z
        nt, nr, nz = rng.randint(1, 8), rng.randint(1, 6), rng.randint(1, 5)
        tb = inc_bounds(rng, nt, 0.0, hi=rng.choice([2 * math.pi, 2 * math.pi / 3, math.pi / 2, rng.uniform(.1, 2 * math.pi)]))
        rb = inc_bounds(rng, nr, 0.0)
        zb = inc_bounds(rng, nz, 0.0)
        g = grids.ThetaRZGrid(bounds=(np.array(tb), np.array(rb), np.array(zb)))
        for (i, j, k) in itertools.product(range(nt), range(nr), range(nz)):
            rec.hit("bounds.cell")
            w = {"grid": "thetarz", "tb": tb, "rb": rb, "zb": zb, "ijk": [i, j, k]}
            try:
                th, r, z = (tb[i] + tb[i + 1]) / 2, (rb[j] + rb[j + 1]) / 2, (zb[k] + zb[k + 1]) / 2
                nat = g.getCoordinates((i, j, k), nativeCoords=True)
                xyz = g.getCoordinates((i, j, k))
                sc = max(rb[-1], zb[-1], 1.0)
                if not vclose(nat, (th, r, z), sc):
                    rec.violation("thetarz/native-centre", "native coords %s expected %s" % (list(nat), (th, r, z)), w)
                if not vclose(xyz, (r * math.cos(th), r * math.sin(th), z), sc):
                    rec.violation("thetarz/xyz-centre", "xyz %s expected %s" % (list(xyz), (r * math.cos(th), r * math.sin(th), z)), w)
                b, t = g.getCellBase((i, j, k)), g.getCellTop((i, j, k))
                if not vclose(b, (tb[i], rb[j], zb[k]), sc) or not vclose(t, (tb[i + 1], rb[j + 1], zb[k + 1]), sc):
                    rec.violation("thetarz/base-top", "base %s top %s" % (list(b), list(t)), w)
                ring, pos = g.getRingPos((i, j, k))
                if tuple(g.getIndicesFromRingAndPos(ring, pos)) != (i, j):
                    rec.violation("thetarz/ringpos-roundtrip", "ring,pos=%s -> %s" % ((ring, pos), g.getIndicesFromRingAndPos(ring, pos)), w)
                loc = g[i, j, k]
                if tuple(int(x) for x in loc.indices) != (i, j, k) or loc.grid is not g:
                    rec.violation("thetarz/locator", "locator mismatch", w)
                if tuple(grids.locatorLabelToIndices(g.getLabel((i, j, k)))) != (i, j, k):
                    rec.violation("thetarz/label-roundtrip", "label %r" % g.getLabel((i, j, k)), w)
            except Exception as e:
                rec.crash("thetarz-cell", e, w)
        rec.case(["trz", nt, nr, nz, round(tb[-1], 6), round(rb[-1], 6)], sample={"grid": "thetarz", "tb": tb, "rb": rb} if n < 1 else None)


# ----------------------------------------------------------------------------- nesting
def do_nest(spec, rec, rng):
    import numpy as np
    from armi.reactor import composites, grids

    for n in range(spec["n"]):
        kind = rng.choice(["hex", "hexcu", "cart"])
        pitch = 10 ** rng.uniform(0, 2)
        # the number of rings only says how many locations a grid builds ahead of time (the rest are made on demand): it must not
        # change what a grid *is* - in particular a one-ring radial grid is still a radial grid
        top = composites.Composite("top")
        core = composites.Composite("core")
        top.add(core)
        if kind == "cart":
            core.spatialGrid = grids.CartesianGrid.fromRectangle(pitch, pitch, numRings=rng.choice([1, 1, 2, 3, 5]), isOffset=rng.random() < .5, armiObject=core)
            cxy = lambda i, j: tuple(core.spatialGrid.getCoordinates((i, j, 0))[:2])  # judged in do_cart
        else:
            cu = kind == "hexcu"
            core.spatialGrid = grids.HexGrid.fromPitch(pitch, numRings=rng.choice([1, 1, 2, 3, 5]), cornersUp=cu, armiObject=core)
            cxy = lambda i, j, cu=cu: hex_xy(i, j, pitch, cu)
        coreOffset = None
        if rng.random() < .4:
            coreOffset = (rng.uniform(-9, 9), rng.uniform(-9, 9), rng.uniform(-9, 9))
            core.spatialLocator = grids.CoordinateLocation(*coreOffset, None)
        nA = rng.randint(1, 4)
        used = set()
        for ai in range(nA):
            while True:
                i, j = rng.randint(-4, 4), rng.randint(-4, 4)
                if (i, j) not in used:
                    used.add((i, j))
                    break
            a = composites.Composite("a%d" % ai)
            nz = rng.randint(1, 5)
            zb = inc_bounds(rng, nz)
            a.spatialGrid = grids.AxialGrid(bounds=(None, None, np.array(zb)), armiObject=a)
            a.spatialLocator = core.spatialGrid[i, j, 0]
            core.add(a)
            ax, ay = cxy(i, j)
            ox, oy, oz = coreOffset or (0, 0, 0)
            for k in range(nz):
                b = composites.Composite("b%d" % k)
                b.spatialLocator = a.spatialGrid[0, 0, k]
                a.add(b)
                w = {"kind": kind, "pitch": pitch, "assem": [i, j], "k": k, "zb": zb, "coreOffset": coreOffset}
                rec.hit("nest.loc")
                try:
                    ci = b.spatialLocator.getCompleteIndices()
                    if tuple(int(x) for x in ci) != (i, j, k):
                        rec.violation("nest/complete-indices-axial-in-radial", "block complete indices %s expected %s" % (ci, (i, j, k)), w)
                    gc = b.spatialLocator.getGlobalCoordinates()
                    zc = (zb[k] + zb[k + 1]) / 2
                    exp = (ax + ox, ay + oy, zc + oz)
                    if not vclose(gc, exp, max(pitch * 5, zb[-1])):
                        rec.violation("nest/global-coordinates", "block global coords %s expected %s" % (list(gc), exp), w)
                    gb, gt = b.spatialLocator.getGlobalCellBase(), b.spatialLocator.getGlobalCellTop()
                    ab, at = core.spatialGrid.getCellBase((i, j, 0)), core.spatialGrid.getCellTop((i, j, 0))
                    if not vclose(gb, (ab[0] + ox, ab[1] + oy, zb[k] + oz), max(pitch * 5, zb[-1])) or not vclose(gt, (at[0] + ox, at[1] + oy, zb[k + 1] + oz), max(pitch * 5, zb[-1])):
                        rec.violation("nest/global-base-top", "global base %s top %s" % (list(gb), list(gt)), w)
                    # third level: pin grid in block: indices must NOT add; coordinates must
                    ppitch = pitch / 10
                    b.spatialGrid = grids.HexGrid.fromPitch(ppitch, numRings=rng.choice([1, 1, 2, 3]), armiObject=b) if kind != "cart" else grids.CartesianGrid.fromRectangle(ppitch, ppitch, numRings=rng.choice([1, 1, 2, 3]), armiObject=b)
                    pi_, pj = rng.randint(-3, 3), rng.randint(-3, 3)
                    pin = composites.Composite("pin")
                    pin.spatialLocator = b.spatialGrid[pi_, pj, 0]
                    b.add(pin)
                    pci = pin.spatialLocator.getCompleteIndices()
                    if tuple(int(x) for x in pci) != (pi_, pj, 0):
                        rec.violation("nest/pin-indices-added", "pin complete indices %s, local %s (2-D in 1-D must not add)" % (pci, (pi_, pj, 0)), w)
                    px, py = (hex_xy(pi_, pj, ppitch, False) if kind != "cart" else (pi_ * ppitch, pj * ppitch))
                    pgc = pin.spatialLocator.getGlobalCoordinates()
                    if not vclose(pgc, (exp[0] + px, exp[1] + py, exp[2]), max(pitch * 5, zb[-1])):
                        rec.violation("nest/pin-global-coordinates", "pin global %s expected %s" % (list(pgc), (exp[0] + px, exp[1] + py, exp[2])), w)
                    # multi-index locator: coordinates of each member
                    idxs = [(rng.randint(-2, 2), rng.randint(-2, 2), 0) for _ in range(rng.randint(1, 4))]
                    ml = b.spatialGrid[list(idxs)]
                    if [tuple(int(x) for x in ii) for ii in ml.indices] != idxs or any(l_.grid is not b.spatialGrid for l_ in ml):
                        rec.violation("nest/multi-index", "multi index locator %s from %s" % (ml.indices, idxs), w)
                except Exception as e:
                    rec.crash("nest", e, w)
                rec.case(["nest", kind, round(pitch, 6), i, j, k, bool(coreOffset)], sample=w if n < 2 and k == 0 else None)
            # indices add for axial-in-radial nesting ONLY: an axial grid inside an axial cell, and a radial grid inside a radial cell, keep
            # their local indices (coordinates still add)
            w = {"kind": kind, "pitch": pitch, "assem": [i, j], "zb": zb, "coreOffset": coreOffset}
            try:
                rec.hit("nest.no-add")
                seg = composites.Composite("seg")
                kk = rng.randrange(nz)
                seg.spatialLocator = a.spatialGrid[0, 0, kk]
                a.add(seg)
                zs = inc_bounds(rng, rng.randint(2, 4))
                seg.spatialGrid = grids.AxialGrid(bounds=(None, None, np.array(zs)), armiObject=seg)
                m = rng.randrange(len(zs) - 1)
                leaf = composites.Composite("leaf")
                leaf.spatialLocator = seg.spatialGrid[0, 0, m]
                seg.add(leaf)
                ci = tuple(int(x) for x in leaf.spatialLocator.getCompleteIndices())
                if ci != (0, 0, m):
                    rec.violation("nest/indices-added/axial-in-axial", "complete indices %s of a cell %d of an axial grid sitting in axial cell %d; indices add for axial-in-radial only" % (ci, m, kk), w)
                sub = composites.Composite("sub")
                sub.spatialLocator = core.spatialGrid[i, j, 0] if False else core.spatialGrid[i + 7, j - 7, 0]
                core.add(sub)
                sub.spatialGrid = grids.HexGrid.fromPitch(pitch / 7, numRings=rng.choice([1, 1, 2, 3]), armiObject=sub) if kind != "cart" else grids.CartesianGrid.fromRectangle(pitch / 7, pitch / 7, numRings=rng.choice([1, 1, 2, 3]), armiObject=sub)
                p_, q_ = rng.randint(-2, 2), rng.randint(-2, 2)
                leaf2 = composites.Composite("leaf2")
                leaf2.spatialLocator = sub.spatialGrid[p_, q_, 0]
                sub.add(leaf2)
                ci = tuple(int(x) for x in leaf2.spatialLocator.getCompleteIndices())
                if ci != (p_, q_, 0):
                    rec.violation("nest/indices-added/radial-in-radial", "complete indices %s of cell %s of a radial grid sitting in radial cell %s" % (ci, (p_, q_), (i + 7, j - 7)), w)
                sx, sy = cxy(i + 7, j - 7)
                lx, ly = (hex_xy(p_, q_, pitch / 7, False) if kind != "cart" else (p_ * pitch / 7, q_ * pitch / 7))
                gc2 = leaf2.spatialLocator.getGlobalCoordinates()
                if not vclose(gc2, (sx + ox + lx, sy + oy + ly, oz), pitch * 20):
                    rec.violation("nest/global-coordinates/radial-in-radial", "global coords %s expected %s" % (list(gc2), (sx + ox + lx, sy + oy + ly, oz)), w)
                core.remove(sub)
            except Exception as e:
                rec.crash("nest-no-add", e, w)


# ----------------------------------------------------------------------------- minimum rings
def hex_minrings_ref(n):
    if n <= 0:
        return 0
    # smallest r with 1+3r(r-1) >= n, integer arithmetic
    r = max(1, math.isqrt(max(0, (n - 1) // 3)))
    while 1 + 3 * r * (r - 1) >= n and r > 1:
        r -= 1
    while 1 + 3 * r * (r - 1) < n:
        r += 1
    return r


def do_minrings(spec, rec, rng):
    from armi.reactor import grids
    from armi.utils import hexagon

    H = grids.HexGrid

    def one(n, cls):
        rec.hit("minrings")
        try:
            got = H.getMinimumRings(n)
        except Exception as e:
            rec.crash("hex-minrings", e, {"n": n})
            return
        ref = hex_minrings_ref(n)
        if got != ref:
            rec.violation("hex/minimum-rings/%s" % cls, "getMinimumRings(%d)=%s, least r with 1+3r(r-1)>=n is %d" % (n, got, ref), {"n": n})

    for n in range(0, spec["upto"]):
        one(n, "small" if n < 10 ** 6 else "large")
    rec.case(["minrings-range", spec["upto"]], sample={"minrings": "all n in [0,%d)" % spec["upto"]})
    for q in range(spec["nrand"]):
        r = rng.randint(2, 10 ** 6 if q % 2 else 3000)
        base = 1 + 3 * r * (r - 1)
        n = base + rng.choice([-1, 0, 1, 2, rng.randint(0, 6 * r)])
        one(n, "small" if n < 10 ** 9 else "large")
        rec.case(["minrings", n])
    for r in range(1, 3000):
        rec.hit("totalPositions")
        if hexagon.totalPositionsUpToRing(r) != sum((1 if q == 1 else 6 * (q - 1)) for q in range(1, r + 1)) if r < 200 else hexagon.totalPositionsUpToRing(r) != 1 + 3 * r * (r - 1):
            rec.violation("hex/total-positions", "totalPositionsUpToRing(%d)=%s" % (r, hexagon.totalPositionsUpToRing(r)), {"ring": r})
        if hexagon.numPositionsInRing(r) != (1 if r == 1 else 6 * (r - 1)):
            rec.violation("hex/num-positions", "numPositionsInRing(%d)" % r, {"ring": r})


# ----------------------------------------------------------------------------- reduce / changePitch
def do_reduce(spec, rec, rng):
    import numpy as np
    from armi.reactor import grids

    def probe_indices(g, rng):
        (i0, i1), (j0, j1), (k0, k1) = g.getIndexBounds()
        bd = g.getBounds()
        out = []
        for _ in range(12):
            idx = []
            for d, (lo, hi) in enumerate(((i0, i1), (j0, j1), (k0, k1))):
                if bd[d] is not None:
                    idx.append(rng.randint(0, len(bd[d]) - 2))
                else:
                    idx.append(rng.randint(-6, 6))
            out.append(tuple(idx))
        return out

    for n in range(spec["n"]):
        kind = rng.choice(["hex", "hexcu", "cart", "cartoff", "axial", "trz", "hexz"])
        sym = ""
        if kind in ("hex", "hexcu", "hexz"):
            pitch = 10 ** rng.uniform(-2, 2)
            sym = rng.choice(["", "full", "third periodic"])
            g = grids.HexGrid.fromPitch(pitch, numRings=rng.randint(1, 4), cornersUp=(kind == "hexcu"), symmetry=sym)
            if kind == "hexz":
                zb = inc_bounds(rng, rng.randint(1, 5))
                us = grids.HexGrid._getRawUnitSteps(pitch, rng.random() < .5)
                g = grids.HexGrid(unitSteps=(us[0][:2], us[1][:2]), bounds=(None, None, np.array(zb)),
                                  unitStepLimits=((-2, 3), (-2, 3), (0, 1)), symmetry=sym, geomType=rng.choice(["", "hex"]))
            if rng.random() < .3:
                g.offset = np.array([rng.uniform(-2, 2) for _ in range(3)])
        elif kind in ("cart", "cartoff"):
            sym = rng.choice(["", "full", "quarter reflective", "quarter periodic through center assembly"])
            g = grids.CartesianGrid.fromRectangle(10 ** rng.uniform(-1, 1), 10 ** rng.uniform(-1, 1), numRings=rng.randint(1, 4), isOffset=(kind == "cartoff"), symmetry=sym)
        elif kind == "axial":
            g = grids.AxialGrid(bounds=(None, None, np.array(inc_bounds(rng, rng.randint(1, 8)))), offset=None if rng.random() < .5 else (0.0, 0.0, rng.uniform(-4, 4)))
        else:
            g = grids.ThetaRZGrid(bounds=(np.array(inc_bounds(rng, rng.randint(1, 6), 0, 2 * math.pi)), np.array(inc_bounds(rng, rng.randint(1, 5))), np.array(inc_bounds(rng, rng.randint(1, 4)))),
                                  geomType=rng.choice(["", "thetarz"]), symmetry=rng.choice(["", "full"]))
        w = {"kind": kind, "symmetry": sym}
        rec.hit("reduce")
        try:
            red = g.reduce()
            g2 = type(g)(*red)
            idxs = probe_indices(g, rng)
            for idx in idxs:
                c1, c2 = g.getCoordinates(idx), g2.getCoordinates(idx)
                b1, b2 = g.getCellBase(idx), g2.getCellBase(idx)
                t1, t2 = g.getCellTop(idx), g2.getCellTop(idx)
                if not (np.array_equal(c1, c2) and np.array_equal(b1, b2) and np.array_equal(t1, t2)):
                    rec.violation("reduce/coordinates", "rebuilt grid differs at %s: %s vs %s" % (idx, list(c1), list(c2)), dict(w, reduce=str(red)))
                    break
            if g._symmetry != g2._symmetry or g._geomType != g2._geomType or g.getIndexBounds() != g2.getIndexBounds() or len(g) != len(g2) or g.isAxialOnly != g2.isAxialOnly:
                rec.violation("reduce/metadata", "rebuilt grid metadata differs: sym %s/%s geom %r/%r bounds %s/%s len %d/%d" % (g._symmetry, g2._symmetry, g._geomType, g2._geomType, g.getIndexBounds(), g2.getIndexBounds(), len(g), len(g2)), dict(w, reduce=str(red)))
            red2 = g2.reduce()
            if repr(red2) != repr(red):
                rec.violation("reduce/not-idempotent", "reduce of rebuilt grid differs", {"a": repr(red), "b": repr(red2)})
            try:
                hash(red)
            except TypeError:
                rec.violation("reduce/unhashable", "reduce() result is not hashable", dict(w, reduce=repr(red)))
            if isinstance(g, grids.HexGrid) and g2.cornersUp != g.cornersUp:
                rec.violation("reduce/orientation", "cornersUp lost", w)
        except Exception as e:
            rec.crash("reduce", e, w)
        rec.case(["reduce", kind, sym, n], sample=dict(w, reduce=repr(red)[:300]) if n < 2 else None)
        # the stored constructor arguments follow the live grid through every public mutation (reduce was already called once above,
        # as a database write does; a later write must not see the earlier answer)
        muts = []
        try:
            for _ in range(rng.randint(1, 3) if kind != "trz" else 0):  # an offset on a theta-r-z grid shifts theta out of its mesh: refused by armi
                m = rng.choice(["offset=", "offset+=", "offset[k]=", "symmetry", "changePitch", "backup-restore"])
                if m == "offset=":
                    g.offset = np.array([rng.uniform(-3, 3) for _ in range(3)])
                elif m == "offset+=":
                    g.offset += np.array([0.0, rng.uniform(.1, 2), rng.uniform(-2, -.1)])
                elif m == "offset[k]=":
                    g.offset[rng.randrange(3)] = rng.uniform(-5, 5)
                elif m == "symmetry":
                    if kind not in ("hex", "hexcu", "hexz"):
                        continue
                    g.symmetry = rng.choice(["full", "third periodic"])
                elif m == "changePitch":
                    if kind in ("hex", "hexcu"):
                        g.changePitch(g.pitch * rng.uniform(.5, 2))
                    elif kind in ("cart", "cartoff"):
                        px, py = g.pitch
                        g.changePitch(px * rng.uniform(.5, 2), py * rng.uniform(.5, 2))
                    else:
                        continue
                else:
                    g.backUp()
                    g.offset = np.array([rng.uniform(-3, 3) for _ in range(3)])
                    g.reduce()
                    g.restoreBackup()
                muts.append(m)
                rec.hit("reduce.after-mutation")
                g3 = type(g)(*g.reduce())
                bad = None
                for idx in probe_indices(g, rng):
                    if not (np.array_equal(g.getCoordinates(idx), g3.getCoordinates(idx)) and np.array_equal(g.getCellBase(idx), g3.getCellBase(idx)) and np.array_equal(g.getCellTop(idx), g3.getCellTop(idx))):
                        bad = "coordinates at %s: live %s rebuilt %s" % (idx, list(g.getCoordinates(idx)), list(g3.getCoordinates(idx)))
                        break
                if bad is None and (g._symmetry != g3._symmetry or g._geomType != g3._geomType or g.getIndexBounds() != g3.getIndexBounds()):
                    bad = "metadata: symmetry %s/%s geomType %s/%s" % (g._symmetry, g3._symmetry, g._geomType, g3._geomType)
                if bad:
                    rec.violation("reduce/stale-after-mutation/" + m, "grid rebuilt from reduce() after %s differs from the live grid: %s" % (muts, bad), dict(w, mutations=list(muts)))
                    break
        except Exception as e:
            rec.crash("reduce-after-mutation", e, dict(w, mutations=muts))
        # hex changePitch: coordinates scale by ratio, nothing else changes
        if kind == "hexz":
            rec.skip("changePitch on a step+bounds (hex with axial bounds) grid: no armi factory builds one; not judged")
        if kind in ("hex", "hexcu"):
            rec.hit("changePitch")
            try:
                old = g.pitch
                idxs = probe_indices(g, rng)
                before = [(g.getCoordinates(i_), g.getCellBase(i_), g.getCellTop(i_)) for i_ in idxs]
                meta0 = (g._symmetry, g._geomType, g.getIndexBounds(), g.cornersUp, tuple(g.offset), repr(g.reduce().bounds), len(g))
                new = old * rng.uniform(.2, 5)
                g.changePitch(new)
                meta1 = (g._symmetry, g._geomType, g.getIndexBounds(), g.cornersUp, tuple(g.offset), repr(g.reduce().bounds), len(g))
                if meta0 != meta1:
                    rec.violation("hex/changePitch-metadata", "changePitch changed %s -> %s" % (meta0, meta1), w)
                if not close(g.pitch, new, new):
                    rec.violation("hex/changePitch-pitch", "pitch %r after changePitch(%r)" % (g.pitch, new), w)
                off = g.offset
                for idx, (c0, b0, t0) in zip(idxs, before):
                    for lab, v0, v1 in (("centre", c0, g.getCoordinates(idx)), ("base", b0, g.getCellBase(idx)), ("top", t0, g.getCellTop(idx))):
                        exp = [(v0[0] - off[0]) * new / old + off[0], (v0[1] - off[1]) * new / old + off[1], v0[2]]
                        if not vclose(v1, exp, new * 8):
                            rec.violation("hex/changePitch-coordinates", "%s of %s after pitch %r->%r: %s expected %s" % (lab, idx, old, new, list(v1), exp), w)
            except Exception as e:
                rec.crash("changePitch", e, w)
