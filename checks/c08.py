"""C08 - grid symmetry and rotation operations agree with the physical geometry.

Oracle: a 2x2 rotation / reflection applied to *coordinates* of cells (coordinates come from
getCoordinates, judged independently in C07 against closed-form geometry; here they are also
recomputed from the closed form so that a broken getCoordinates cannot mask a broken symmetry map).
"""
import math
import random

from checks.c07 import hex_dist, hex_xy

PROP = "C08"
LEVEL = "exploration"
RULE = (
    "hex: every cell within N rings x both orientations: symmetric equivalents (third core), domain membership, symmetry-line "
    "classification; every cell x k in [-13,13] + random |k|<=1e6 for rotateIndex; cartesian: every cell within N rings x 4 quarter-core "
    "symmetry variants; blocks/assemblies: generated hex blocks with single/multi-index/free-coordinate children and random boundary "
    "6-vectors rotated by k*60 deg (angle computed three ways). distinct = distinct (kind, orientation, cell, k) or (block layout, k)."
)
TOLERANCES = {"coord_rel_to_pitch": 1e-9}
EXHAUSTIVE = {"quick": True, "thorough": True}
EXHAUSTIVE_PART = "all cells within N rings (quick 14, thorough 50) x both orientations x all k in [-13,13]; 4 cartesian quarter variants"
FLOORS = {
    "quick": {"hex.sym": 500, "hex.rot": 10000, "cart.sym": 1000, "block.rotate": 150, "assem.rotate": 60, "hex.rot.cellnumber": 3000, "hex.sym.after-symmetry-change": 40},
    "thorough": {"hex.sym": 7000, "hex.rot": 100000, "cart.sym": 10000, "block.rotate": 3000, "assem.rotate": 1000, "hex.rot.cellnumber": 30000, "hex.sym.after-symmetry-change": 600},
}


def plan(tier, seed):
    n = 14 if tier == "quick" else 50
    out = []
    for cu in (False, True):
        out.append({"name": "hexsym-%d" % cu, "kind": "hexsym", "cornersUp": cu, "rings": n, "flips": 40 if tier == "quick" else 600})
        out.append({"name": "hexrot-%d" % cu, "kind": "hexrot", "cornersUp": cu, "rings": n, "nrand": 2000 if tier == "quick" else 40000})
    out.append({"name": "cart", "kind": "cart", "rings": 10 if tier == "quick" else 40})
    nb = 4 if tier == "quick" else 12
    for s in range(nb):
        out.append({"name": "block-%d" % s, "kind": "block", "n": 60 if tier == "quick" else 400})
    return out


def rot(x, y, deg):
    a = math.radians(deg)
    return (x * math.cos(a) - y * math.sin(a), x * math.sin(a) + y * math.cos(a))


def near(p, q, tol):
    return abs(p[0] - q[0]) <= tol and abs(p[1] - q[1]) <= tol


def run_shard(spec, rec):
    rng = random.Random(spec["rng"])
    {"hexsym": do_hexsym, "hexrot": do_hexrot, "cart": do_cart, "block": do_block}[spec["kind"]](spec, rec, rng)


def cells(N):
    for i in range(-(N - 1), N):
        for j in range(-(N - 1), N):
            if hex_dist(i, j) <= N - 1:
                yield i, j


# ----------------------------------------------------------------------------- hex symmetry
def do_hexsym(spec, rec, rng):
    from armi.reactor import grids
    from armi.reactor.grids import constants as gc

    cu, N = spec["cornersUp"], spec["rings"]
    pitch = 10 ** rng.uniform(-1, 2)
    g = grids.HexGrid.fromPitch(pitch, numRings=2, cornersUp=cu, symmetry="third periodic")
    gfull = grids.HexGrid.fromPitch(pitch, numRings=2, cornersUp=cu, symmetry="full")
    tol = 1e-9 * pitch * N
    # lookup coordinates -> cell (reference geometry)
    byxy = {}
    for i, j in cells(N + 1):
        x, y = hex_xy(i, j, pitch, cu)
        byxy[(round(x / pitch * 1e6), round(y / pitch * 1e6))] = (i, j)

    def cell_at(x, y):
        return byxy.get((round(x / pitch * 1e6), round(y / pitch * 1e6)))

    axis0 = 30.0 if cu else 0.0  # orientation of the theta=0 symmetry line of the third-core view
    for i, j in cells(N):
        w = {"i": i, "j": j, "cornersUp": cu, "pitch": pitch}
        rec.hit("hex.sym")
        try:
            c = g.getCoordinates((i, j, 0))
            x, y = hex_xy(i, j, pitch, cu)
            if not near((c[0], c[1]), (x, y), tol):
                rec.violation("hexsym/coordinates", "getCoordinates differs from closed form", w)
            eq = [tuple(e) for e in g.getSymmetricEquivalents((i, j, 0))]
            want = []
            if (i, j) != (0, 0):
                for d in (120, 240):
                    want.append(cell_at(*rot(x, y, d)))
            if None in want:
                raise RuntimeError("harness: rotated centre is not a cell centre")
            if sorted(eq) != sorted(want):
                rec.violation("hexsym/equivalents-not-120deg-images", "equivalents of %s are %s, 120/240-degree images are %s" % ((i, j), eq, want), w)
            elif eq != want and (i, j) != (0, 0):
                rec.add("equivalents_in_other_order")
            # also through the locator API
            leq = [tuple(e) for e in g[i, j, 0].getSymmetricEquivalents()]
            if leq != eq:
                rec.violation("hexsym/locator-equivalents", "locator.getSymmetricEquivalents differs from grid's", w)
            if gfull.getSymmetricEquivalents((i, j, 0)) != []:
                rec.violation("hexsym/full-core-has-equivalents", "full core grid reports equivalents", w)
            # symmetry-line classification vs polar angle
            line = g.overlapsWhichSymmetryLine((i, j))
            if (i, j) == (0, 0):
                wantline = gc.BOUNDARY_CENTER
            else:
                ang = (math.degrees(math.atan2(y, x)) - axis0) % 360.0
                wantline = None
                for deg, const in ((0.0, gc.BOUNDARY_0_DEGREES), (60.0, gc.BOUNDARY_60_DEGREES), (120.0, gc.BOUNDARY_120_DEGREES)):
                    if abs(ang - deg) < 1e-6 or abs(ang - deg - 360) < 1e-6:
                        wantline = const
            if line != wantline:
                rec.violation("hexsym/symmetry-line", "overlapsWhichSymmetryLine(%s)=%s, polar angle from the axis says %s" % ((i, j), line, wantline), w)
            # orbit: exactly one member in the domain unless on the 0/120 symmetry lines
            orbit = [(i, j)] + eq
            inside = [o for o in orbit if g.locatorInDomain(g[o[0], o[1], 0])]
            insideOverlap = [o for o in orbit if g.locatorInDomain(g[o[0], o[1], 0], symmetryOverlap=True)]
            onEdge = any(g.overlapsWhichSymmetryLine(o) in (gc.BOUNDARY_0_DEGREES, gc.BOUNDARY_120_DEGREES) for o in orbit)
            if len(inside) != 1:
                rec.violation("hexsym/orbit-members-in-domain/%s" % ("on-line" if onEdge else "off-line"),
                              "orbit %s has %d members in the third-core domain: %s" % (orbit, len(inside), inside), w)
            if onEdge:
                rec.hit("hex.sym.online")
                if len(insideOverlap) != 2:
                    rec.violation("hexsym/orbit-overlap", "orbit on a symmetry line %s: with symmetryOverlap %d members in domain (expected both edge images)" % (orbit, len(insideOverlap)), w)
                # the in-domain member of an edge orbit lies on the 0-degree line
                if len(inside) == 1 and g.overlapsWhichSymmetryLine(inside[0]) != gc.BOUNDARY_0_DEGREES:
                    rec.violation("hexsym/edge-member", "in-domain member %s of an edge orbit is not on the 0-degree line" % (inside[0],), w)
            else:
                if len(insideOverlap) != 1:
                    rec.violation("hexsym/orbit-overlap-offline", "off-line orbit %s has %d members with symmetryOverlap" % (orbit, len(insideOverlap)), w)
                # member in domain has polar angle in [0,120) from the axis
                if len(inside) == 1 and inside[0] != (0, 0):
                    mx, my = hex_xy(inside[0][0], inside[0][1], pitch, cu)
                    ang = (math.degrees(math.atan2(my, mx)) - axis0) % 360.0
                    if not (-1e-6 < ang < 120 + 1e-6):
                        rec.violation("hexsym/domain-sector", "in-domain cell %s at %.3f deg from the axis, outside [0,120]" % (inside[0], ang), w)
            if not gfull.locatorInDomain(gfull[i, j, 0]):
                rec.violation("hexsym/full-domain", "full core: cell not in domain", w)
        except Exception as e:
            rec.crash("hexsym", e, w)
        rec.case(["hexsym", cu, i, j], nontrivial=(i, j) != (0, 0), sample=w if (i, j) == (3, -1) else None)
    # one grid object whose symmetry is changed in place between queries (Core.symmetry's setter and the third<->full converters do
    # exactly this): every answer follows the symmetry the grid has at the time of the question, not the one at the first question
    allc = [c_ for c_ in cells(N) if c_ != (0, 0)]
    for t in range(spec.get("flips", 40)):
        start = rng.choice(["third periodic", "full"])
        g2 = grids.HexGrid.fromPitch(pitch, numRings=2, cornersUp=cu, symmetry=start)
        seq = [start] + [rng.choice(["third periodic", "full"]) for _ in range(rng.randint(1, 4))]
        w = {"cornersUp": cu, "symmetries": seq}
        try:
            for k, sym in enumerate(seq):
                if k:
                    g2.symmetry = sym
                if k and rng.random() < .2:
                    continue  # not every state is queried
                i, j = rng.choice(allc)
                rec.hit("hex.sym.after-symmetry-change" if k and sym != seq[k - 1] else "hex.sym.same-symmetry-again")
                eq = sorted(tuple(e) for e in (g2.getSymmetricEquivalents((i, j, 0)) if rng.random() < .5 else g2[i, j, 0].getSymmetricEquivalents()))
                x, y = hex_xy(i, j, pitch, cu)
                want = sorted(cell_at(*rot(x, y, d)) for d in (120, 240)) if sym.startswith("third") else []
                if eq != want:
                    rec.violation("hexsym/equivalents-follow-an-earlier-symmetry", "grid now %r (history %s): equivalents of %s are %s, expected %s" % (sym, seq[:k + 1], (i, j), eq, want), w)
                    break
                orbit = [(i, j)] + eq
                inside = [o for o in orbit if g2.locatorInDomain(g2[o[0], o[1], 0])]
                if len(inside) != (1 if sym.startswith("third") else len(orbit)):
                    rec.violation("hexsym/domain-follows-an-earlier-symmetry", "grid now %r (history %s): %d of the orbit %s are in the domain" % (sym, seq[:k + 1], len(inside), orbit), w)
                    break
        except Exception as e:
            rec.crash("hexsym-flip", e, w)
        rec.case(["hexsym-flip", cu, tuple(seq)], nontrivial=True, sample=w if t == 0 else None)


def do_hexrot(spec, rec, rng):
    from armi.reactor import grids

    cu, N = spec["cornersUp"], spec["rings"]
    pitch = 10 ** rng.uniform(-1, 2)
    g = grids.HexGrid.fromPitch(pitch, numRings=2, cornersUp=cu)
    H = grids.HexGrid
    ks = list(range(-13, 14))

    def one(i, j, k, kk):
        w = {"i": i, "j": j, "k": k, "cornersUp": cu}
        rec.hit("hex.rot")
        try:
            loc = grids.IndexLocation(i, j, kk, g if (i + j) % 2 else None)
            r = g.rotateIndex(loc, k)
            x, y = hex_xy(i, j, pitch, cu)
            rx, ry = rot(x, y, 60.0 * (k % 6))
            gx, gy = hex_xy(r.i, r.j, pitch, cu)
            if not near((gx, gy), (rx, ry), 1e-9 * pitch * (hex_dist(i, j) + 1)):
                rec.violation("hexrot/not-k60-rotation", "rotateIndex(%s,%d)=%s at %s, R(60k) of the centre is %s" % ((i, j), k, (r.i, r.j), (gx, gy), (rx, ry)), w)
            if r.k != kk:
                rec.violation("hexrot/k-changed", "axial index changed", w)
            if H.indicesToRingPos(r.i, r.j)[0] != H.indicesToRingPos(i, j)[0]:
                rec.violation("hexrot/ring-not-preserved", "ring %d -> %d" % (H.indicesToRingPos(i, j)[0], H.indicesToRingPos(r.i, r.j)[0]), w)
            if k % 6 == 0 and (r.i, r.j) != (i, j):
                rec.violation("hexrot/multiple-of-6-not-identity", "k=%d gives %s" % (k, (r.i, r.j)), w)
            return r
        except Exception as e:
            rec.crash("hexrot", e, w)

    from armi.utils import hexagon

    def number(ring, pos):
        return 1 if ring == 1 else 1 + 3 * (ring - 1) * (ring - 2) + pos  # cells counted ring by ring, closed form

    for i, j in cells(N):
        for k in ks:
            r_ = one(i, j, k, 0)
            if 0 <= k <= 5 and r_ is not None:
                # the cell *number* form of the same rotation (pins of a rotated block are renumbered with it)
                rec.hit("hex.rot.cellnumber")
                try:
                    n0 = number(*H.indicesToRingPos(i, j))
                    want = number(*H.indicesToRingPos(r_.i, r_.j))
                    got = hexagon.getIndexOfRotatedCell(n0, k)
                    if got != want:
                        rec.violation("hexrot/cell-number", "getIndexOfRotatedCell(%d, %d) = %s; cell %d is at %s, R(60k) puts it at %s = cell %d" % (n0, k, got, n0, (i, j), (r_.i, r_.j), want),
                                      {"i": i, "j": j, "k": k, "cornersUp": cu})
                except Exception as e:
                    rec.crash("getIndexOfRotatedCell", e, {"i": i, "j": j, "k": k})
            rec.case(["hexrot", cu, i, j, k], nontrivial=(i, j) != (0, 0) and k % 6 != 0,
                     sample={"ij": [i, j], "k": k, "cornersUp": cu} if (i, j, k) == (2, 1, -5) else None)
    for n in range(spec["nrand"]):
        mag = rng.choice([20, 1000, 10 ** 5])
        i, j = rng.randint(-mag, mag), rng.randint(-mag, mag)
        k1, k2 = rng.randint(-10 ** 6, 10 ** 6), rng.randint(-40, 40)
        a = one(i, j, k1, rng.randint(0, 3))
        if a is None:
            continue
        # additivity
        try:
            b = g.rotateIndex(a, k2)
            c = g.rotateIndex(grids.IndexLocation(i, j, a.k, None), k1 + k2)
            rec.hit("hex.rot.additive")
            if (b.i, b.j, b.k) != (c.i, c.j, c.k):
                rec.violation("hexrot/not-additive", "rot(rot(x,%d),%d)=%s but rot(x,%d)=%s" % (k1, k2, (b.i, b.j), k1 + k2, (c.i, c.j)), {"i": i, "j": j, "k1": k1, "k2": k2})
        except Exception as e:
            rec.crash("hexrot-add", e, {"i": i, "j": j, "k1": k1, "k2": k2})
        rec.case(["hexrot-r", cu, i, j, k1 % 6, k2 % 6])
    # inconsistent grid must be refused
    other = grids.HexGrid.fromPitch(pitch, numRings=1, cornersUp=not cu)
    try:
        g.rotateIndex(other[1, 0, 0], 1)
        rec.violation("hexrot/foreign-orientation-accepted", "rotateIndex accepted a locator of a grid of the other orientation", {})
    except TypeError:
        rec.reject("rotateIndex-foreign-grid")


# ----------------------------------------------------------------------------- cartesian quarter core
def do_cart(spec, rec, rng):
    from armi.reactor import grids

    N = spec["rings"]
    variants = [
        ("quarter reflective", False, False), ("quarter periodic", True, False),
        ("quarter reflective through center assembly", False, True), ("quarter periodic through center assembly", True, True),
    ]
    for sym, periodic, through in variants:
        w_, h_ = (1.0, 1.0) if periodic else (10 ** rng.uniform(-1, 1), 10 ** rng.uniform(-1, 1))
        if periodic:
            w_ = h_ = 10 ** rng.uniform(-1, 1)  # 90-degree rotation only maps a square lattice onto itself
        g = grids.CartesianGrid.fromRectangle(w_, h_, numRings=2, symmetry=sym, isOffset=not through)
        off = (0.0, 0.0) if through else (w_ / 2, h_ / 2)
        lo, hi = (-(N - 1), N - 1) if through else (-N, N - 1)
        byxy = {}
        for i in range(lo - 1, hi + 2):
            for j in range(lo - 1, hi + 2):
                byxy[(round((i * w_ + off[0]) / w_ * 1e6), round((j * h_ + off[1]) / h_ * 1e6))] = (i, j)

        def cell_at(x, y):
            return byxy.get((round(x / w_ * 1e6), round(y / h_ * 1e6)))

        for i in range(lo, hi + 1):
            for j in range(lo, hi + 1):
                wit = {"i": i, "j": j, "symmetry": sym, "w": w_, "h": h_}
                rec.hit("cart.sym")
                try:
                    c = g.getCoordinates((i, j, 0))
                    x, y = i * w_ + off[0], j * h_ + off[1]
                    if not near((c[0], c[1]), (x, y), 1e-9 * max(w_, h_) * N):
                        rec.violation("cartsym/coordinates", "getCoordinates differs from closed form", wit)
                    eq = [tuple(e) for e in g.getSymmetricEquivalents((i, j))]
                    if periodic:
                        imgs = [cell_at(*rot(x, y, d)) for d in (90, 180, 270)]
                    else:
                        imgs = [cell_at(-x, y), cell_at(-x, -y), cell_at(x, -y)]
                    want = []
                    for im in imgs:  # distinct images other than the cell itself
                        if im is None:
                            raise RuntimeError("harness: image is not a cell centre")
                        if im != (i, j) and im not in want:
                            want.append(im)
                    if sorted(eq) != sorted(want):
                        rec.violation("cartsym/equivalents/%s" % sym.replace(" ", "-"), "equivalents of %s are %s; images under the symmetry group are %s" % ((i, j), eq, want), wit)
                    orbit = [(i, j)] + want
                    inside = [o for o in orbit if g.locatorInDomain(g[o[0], o[1], 0])]
                    online = through and (i == 0 or j == 0)
                    if not online and len(inside) != 1:
                        rec.violation("cartsym/orbit-members-in-domain", "orbit %s has %d members in the quarter domain" % (orbit, len(inside)), wit)
                    if online and len(inside) < 1:
                        rec.violation("cartsym/orbit-on-line-empty", "orbit of a cell on a symmetry line has no member in the domain", wit)
                    # domain = first quadrant by coordinates
                    indom = g.locatorInDomain(g[i, j, 0])
                    if indom != (x > -1e-9 * w_ and y > -1e-9 * h_):
                        rec.violation("cartsym/domain-quadrant", "locatorInDomain(%s)=%s but centre is (%r,%r)" % ((i, j), indom, x, y), wit)
                except Exception as e:
                    rec.crash("cartsym", e, wit)
                rec.case(["cartsym", sym, i, j], nontrivial=(i, j) != (0, 0), sample=wit if (i, j) == (2, -3) else None)
        gf = grids.CartesianGrid.fromRectangle(w_, h_, numRings=2, symmetry="full", isOffset=not through)
        if gf.getSymmetricEquivalents((1, 2)) != [] or not gf.locatorInDomain(gf[-1, -2, 0]):
            rec.violation("cartsym/full", "full-core cartesian grid reports equivalents or excludes a cell", {})


# ----------------------------------------------------------------------------- block / assembly rotation
def angle_for(k, how):
    if how == 0:
        return k * math.pi / 3
    if how == 1:
        return math.radians(60 * k)
    if how == 2:
        a = 0.0
        step = math.pi / 3 if k >= 0 else -math.pi / 3
        for _ in range(abs(k)):
            a += step
        return a
    return k * (math.pi / 3)


def make_block(rng):
    import numpy as np
    from armi.reactor import blocks, components, grids
    from armi.reactor.parameters import ParamLocation

    b = blocks.HexBlock("fuel")
    cu = rng.random() < .5
    ppitch = rng.uniform(.5, 2)
    b.spatialGrid = grids.HexGrid.fromPitch(ppitch, numRings=0, armiObject=b, cornersUp=cu)
    nrings = rng.randint(1, 4)
    allc = [(i, j, 0) for i, j in cells(nrings)]
    layout = []
    nchild = rng.randint(1, 5)
    for ci in range(nchild):
        kind = rng.choice(["multi", "single", "coord", "none", "multi"])
        isclad = rng.random() < .6
        name = ("clad%d" if isclad else "fuel%d") % ci
        if kind == "multi":
            idx = rng.sample(allc, rng.randint(1, min(len(allc), 7)))
            c = components.Circle(name, "HT9", Tinput=25, Thot=25, od=.3, id=0.1, mult=len(idx))
            b.add(c)
            c.spatialLocator = b.spatialGrid[list(idx)]
        elif kind == "single":
            idx = rng.choice(allc)
            c = components.Circle(name, "HT9", Tinput=25, Thot=25, od=.3, id=0.1, mult=1)
            b.add(c)
            c.spatialLocator = b.spatialGrid[idx]
        elif kind == "coord":
            idx = (rng.uniform(-3, 3), rng.uniform(-3, 3), rng.uniform(-1, 1))
            c = components.Circle(name, "HT9", Tinput=25, Thot=25, od=.3, id=0.1, mult=1)
            b.add(c)
            c.spatialLocator = grids.CoordinateLocation(idx[0], idx[1], idx[2], b.spatialGrid)
        else:
            idx = None
            c = components.Hexagon("duct%d" % ci, "HT9", Tinput=25, Thot=25, op=10, ip=9.5, mult=1)
            b.add(c)
            c.spatialLocator = None
        layout.append((name, kind, idx))
    names = b.p.paramDefs.atLocation(ParamLocation.CORNERS).names + b.p.paramDefs.atLocation(ParamLocation.EDGES).names
    vecs = {}
    for nme in names:
        t = rng.choice(["list", "array", "unset", "list", "scalar", "table"])
        if t == "list":
            v = [rng.uniform(0, 1000) for _ in range(6)]
        elif t == "array":
            v = np.array([rng.uniform(0, 1000) for _ in range(6)])
        elif t == "scalar":
            v = rng.uniform(0, 10)  # documented: a scalar on a corner/edge parameter is not per-corner data and is left alone
        elif t == "table":
            ng_ = rng.choice([2, 3, 6])
            v = np.array([[rng.uniform(0, 1000) for _ in range(ng_)] for _ in range(6)])  # one row per corner/edge (e.g. x group)
        else:
            continue
        b.p[nme] = v
        vecs[nme] = v
    if rng.random() < .7:
        b.p.displacementX, b.p.displacementY = rng.uniform(-1, 1), rng.uniform(-1, 1)
    return b, {"cornersUp": cu, "pinPitch": ppitch, "layout": layout, "vectors": sorted(vecs)}


def snapshot(b):
    import numpy as np
    from armi.reactor import grids
    from armi.reactor.parameters import ParamLocation

    locs = []
    for c in b:
        sl = c.spatialLocator
        if isinstance(sl, grids.MultiIndexLocation):
            locs.append(("multi", [tuple(l_.getLocalCoordinates()) for l_ in sl]))
        elif isinstance(sl, grids.CoordinateLocation):
            locs.append(("coord", [tuple(sl.getLocalCoordinates())]))
        elif isinstance(sl, grids.IndexLocation):
            locs.append(("single", [tuple(sl.getLocalCoordinates())]))
        else:
            locs.append(("none", []))
    names = b.p.paramDefs.atLocation(ParamLocation.CORNERS).names + b.p.paramDefs.atLocation(ParamLocation.EDGES).names
    vec = {}
    for n in names:
        v = b.p[n]
        vec[n] = (type(v).__name__, None if v is None else (np.asarray(v, dtype=float).tolist() if isinstance(v, (list, np.ndarray)) else v))
    return {"locs": locs, "vec": vec, "disp": (b.p.displacementX, b.p.displacementY), "orient": list(b.p.orientation),
            "pins": [tuple(p) for p in b.getPinCoordinates()] if len(b.getPinLocations()) else []}


def judge_rotation(rec, before, after, k, w, pitch, where, slack=0.0):
    """slack: how far the angle actually handed to armi is from k*pi/3 (radians): the displacement is rotated by the given
    angle, so an inexact argument (e.g. 10001 accumulated additions of pi/3) may legitimately move it by slack*|d|."""
    import numpy as np

    tol = 1e-9 * max(1.0, pitch) * 10
    deg = 60.0 * (k % 6)
    for (kind0, pts0), (kind1, pts1) in zip(before["locs"], after["locs"]):
        if kind0 != kind1 or len(pts0) != len(pts1):
            rec.violation(where + "/locator-kind-changed", "child locator %s(%d) became %s(%d)" % (kind0, len(pts0), kind1, len(pts1)), w)
            continue
        for p0, p1 in zip(pts0, pts1):
            rx, ry = rot(p0[0], p0[1], deg)
            if not near((p1[0], p1[1]), (rx, ry), tol) or abs(p1[2] - p0[2]) > tol:
                rec.violation(where + "/child-%s-not-rotated" % kind0, "child at %s moved to %s; R(%g deg) gives %s" % (p0, p1, deg, (rx, ry, p0[2])), w)
                break
    if len(before["pins"]) != len(after["pins"]):
        rec.violation(where + "/pin-count", "pin count changed", w)
    else:
        for p0, p1 in zip(before["pins"], after["pins"]):
            rx, ry = rot(p0[0], p0[1], deg)
            if not near((p1[0], p1[1]), (rx, ry), tol):
                rec.violation(where + "/pin-coordinates", "pin at %s -> %s; R(%g deg) gives %s" % (p0, p1, deg, (rx, ry)), w)
                break
    for n, (t0, v0) in before["vec"].items():
        t1, v1 = after["vec"][n]
        if isinstance(v0, list) and len(v0) == 6:
            want = np.roll(np.array(v0), k % 6, axis=0).tolist()  # row c (corner/edge c) moves to c+k; a row may be a value or a vector of values
            if not isinstance(v1, list) or len(v1) != 6 or want != v1:
                rec.violation(where + "/boundary-vector", "%s: %s rotated %d steps gave %s, expected %s" % (n, v0, k % 6, v1, want), w)
            if t0 != t1:
                rec.violation(where + "/boundary-vector-type", "%s changed type %s -> %s" % (n, t0, t1), w)
        elif v0 != v1 and not (v0 is None and v1 is None):
            rec.violation(where + "/non-vector-changed", "%s (not a 6-vector) changed %r -> %r" % (n, v0, v1), w)
    dx, dy = before["disp"]
    rx, ry = rot(dx, dy, deg)
    if not near(after["disp"], (rx, ry), 1e-9 + 2.0 * slack * math.hypot(dx, dy)):
        rec.violation(where + "/displacement", "displacement %s -> %s; R(%g deg) gives %s" % (before["disp"], after["disp"], deg, (rx, ry)), w)
    o0, o1 = before["orient"], after["orient"]
    if o0[:2] != o1[:2] or abs(((o1[2] - o0[2]) - deg) % 360.0) > 1e-9 and abs(((o1[2] - o0[2]) - deg) % 360.0 - 360.0) > 1e-9:
        rec.violation(where + "/orientation", "orientation %s -> %s after %g deg" % (o0, o1, deg), w)


def do_block(spec, rec, rng):
    from armi.reactor import assemblies, grids

    for n in range(spec["n"]):
        try:
            b, desc = make_block(rng)
        except Exception as e:
            rec.crash("make-block(harness)", e, {})
            continue
        # --- block rotation, single and composed
        seq = [rng.choice(list(range(-7, 8)) + [12, -12, 600, -601, 10 ** 4 + 1]) for _ in range(rng.randint(1, 3))]
        how = rng.randint(0, 2)
        w = {"block": desc, "ks": seq, "angle_how": ["k*pi/3", "radians(60k)", "accumulated"][how]}
        s0 = snapshot(b)
        tot = 0
        ok = True
        slack = 0.0
        for k in seq:
            sb = snapshot(b)
            rec.hit("block.rotate")
            rad = angle_for(k, how)
            sl = abs(rad - k * math.pi / 3)
            slack += sl
            try:
                b.rotate(rad)
            except Exception as e:
                rec.crash("HexBlock.rotate", e, w)
                ok = False
                break
            judge_rotation(rec, sb, snapshot(b), k, dict(w, step=k), desc["pinPitch"], "blockrot", slack=sl)
            tot += k
        if ok and len(seq) > 1:
            judge_rotation(rec, s0, snapshot(b), tot, dict(w, composed=tot), desc["pinPitch"], "blockrot-composed", slack=slack)
        rec.case(["blockrot", desc["cornersUp"], [(l[1], len(l[2]) if isinstance(l[2], list) else 1) for l in desc["layout"]], desc["vectors"], seq, how],
                 sample=w if n < 1 else None)
        # --- assembly rotation: every block rotates the same way; every exact 60-degree multiple is accepted
        try:
            a = assemblies.HexAssembly("fuel")
            nb = rng.randint(1, 4)
            a.spatialGrid = grids.AxialGrid.fromNCells(nb)
            bs = []
            for _ in range(nb):
                bb, dd = make_block(rng)
                a.add(bb)
                bs.append((bb, dd))
        except Exception as e:
            rec.crash("make-assembly(harness)", e, {})
            continue
        k = rng.choice(list(range(-24, 25)) + [rng.randint(-300, 300)])
        how = rng.randint(0, 2)
        rad = angle_for(k, how)
        w = {"assembly_blocks": [d for _, d in bs], "k": k, "angle_how": ["k*pi/3", "radians(60k)", "accumulated"][how], "rad": rad}
        before = [snapshot(bb) for bb, _ in bs]
        rec.hit("assem.rotate")
        try:
            a.rotate(rad)
        except ValueError as e:
            # an exact 60-degree multiple (to float precision) must not be refused
            rem = math.remainder(rad, math.pi / 3)
            if abs(rem) < 1e-12:  # armi's own stated tolerance, applied symmetrically
                rec.violation("assemrot/refuses-60deg-multiple", "HexAssembly.rotate(%r) [k=%d, %s] refused: %s" % (rad, k, w["angle_how"], str(e)[:120]), w)
            else:
                rec.reject("assem-rotate-not-multiple")
            continue
        except Exception as e:
            rec.crash("HexAssembly.rotate", e, w)
            continue
        for (bb, dd), s0 in zip(bs, before):
            judge_rotation(rec, s0, snapshot(bb), k, w, dd["pinPitch"], "assemrot", slack=abs(rad - k * math.pi / 3))
        rec.case(["assemrot", nb, k, how])
    # non-multiples are refused by the assembly
    try:
        a = assemblies.HexAssembly("fuel")
        a.spatialGrid = grids.AxialGrid.fromNCells(1)
        bb, _ = make_block(rng)
        a.add(bb)
        s0 = snapshot(bb)
        try:
            a.rotate(0.5)
            rec.violation("assemrot/non-multiple-accepted", "HexAssembly.rotate(0.5 rad) accepted", {})
        except ValueError:
            rec.reject("assem-rotate-not-multiple")
            if snapshot(bb) != s0:
                rec.violation("assemrot/refused-but-changed", "refused rotation changed the block", {})
    except Exception as e:
        rec.crash("assem-nonmultiple", e, {})
