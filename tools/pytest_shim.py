#!/usr/bin/env python3
"""Run armi's own tests in a fresh process with the ruamel/yamlize shim applied (harness side only).
usage: /venv/bin/python tools/pytest_shim.py <pytest args>   (cwd is switched to $VERIF_REPO or /repo)"""
import os, sys
here = os.path.dirname(os.path.dirname(os.path.abspath(__file__)))
sys.path.insert(0, here)
repo = os.environ.get("VERIF_REPO", "/repo")
sys.path.insert(0, repo)
from vlib import env
env.shim()
os.chdir(repo)
import pytest
sys.exit(pytest.main(["-q", "-p", "no:cacheprovider", "-x"] + sys.argv[1:]))
