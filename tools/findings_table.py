#!/usr/bin/env python3
"""Markdown tables of fixed and known findings from known_findings.json (for DESIGN.md section 9)."""
import json, os, subprocess
ROOT = os.path.dirname(os.path.dirname(os.path.abspath(__file__)))
F = json.load(open(os.path.join(ROOT, "known_findings.json")))["findings"]
subj = {}
for l in subprocess.run(["git", "-C", "/repo", "log", "--format=%h %s"], capture_output=True, text=True).stdout.splitlines():
    h, s = l.split(" ", 1); subj[h[:7]] = s
print("#### Repaired in terrapower/armi (`fix:` commits; entries with status `fixed` suppress nothing)\n")
print("| commit | property | key | what failed |"); print("|---|---|---|---|")
for e in sorted((e for e in F if e["status"] == "fixed"), key=lambda e: (e["property"], e["key"])):
    print("| %s | %s | `%s` | %s |" % (e.get("commit", "")[:7], e["property"], e["key"], e["what"].replace("|", "\\|")[:260]))
print("\n#### Recorded, not repaired (status `known`: the check prints KNOWN-FINDING for exactly this mechanism)\n")
print("| property | key | what fails | witness |"); print("|---|---|---|---|")
for e in sorted((e for e in F if e["status"] == "known"), key=lambda e: (e["property"], e["key"])):
    print("| %s | `%s` | %s | %s |" % (e["property"], e["key"], e["what"].replace("|", "\\|")[:330], e["witness"].replace("|", "\\|")[:160]))
