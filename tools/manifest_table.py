"""Per-property claims.  A property without an entry here is listed under not_applicable (not yet claimed)."""
import json
import os

ROOT = os.path.dirname(os.path.dirname(os.path.abspath(__file__)))
NOTE = ("Trusted: CPython, numpy, h5py, ruamel.yaml, voluptuous; the harness's own reference oracle for this property "
        "(a few lines, shares no code with armi); the process-local ruamel max_depth shim. Says nothing about inputs the "
        "workload did not generate; evidence lists what the monitors observed.")

CHECKS = [
    {"property_id": "C07",
     "technique": "runtime monitoring: exhaustive/sampled workload on real grids + closed-form geometry oracle",
     "text": "Every hex cell within N rings (quick 14, thorough 60; both orientations) plus sampled far cells, Cartesian cells within N rings "
             "(through-centre and offset), random axial/theta-r-z bounds grids, three-deep nestings of real composites, and ring-count "
             "arithmetic are run through the real grid API and compared with an independent closed-form geometry (basis vectors from the "
             "pitch, cube-coordinate distance, integer ring counting). Exhaustive inside the stated ring bound, sampled outside it.",
     "note": NOTE},
    {"property_id": "C08",
     "technique": "runtime monitoring: exhaustive/sampled workload on real grids, blocks and assemblies + 2x2 rotation/reflection oracle on recorded coordinates",
     "text": "Symmetric equivalents, domain membership and symmetry-line classification of every hex cell within N rings (both orientations) "
             "and every Cartesian cell within N rings (4 quarter-core variants) are compared with the images of the cell centre under the "
             "symmetry group computed by an independent rotation/reflection; rotateIndex is checked for all cells x k in [-13,13] plus random "
             "huge k (rotation of coordinates, additivity, identity at 6, ring preserved); generated hex blocks (multi-index, single, "
             "free-coordinate children; random 6-vectors on every corner/edge parameter; displacement) and assemblies are rotated by k*60 deg "
             "with the angle computed three ways and every observable is compared with the rotated original.",
     "note": NOTE},
    {"property_id": "C19",
     "technique": "runtime monitoring: exhaustive scan of the live nuclide/element/material registries after the real factory ran + independent identifier encoder",
     "text": "Exhaustive over what the running program actually holds: every nuclide base x every identifier kind is looked up in the live module-level "
             "index and must return that very object, identifiers are collected to prove no two nuclides share one, and names/labels/MCNP/AAAZZZS ids are "
             "re-derived by an independent encoder (own periodic table); every element's membership, abundances and standard weight; every burn-chain entry "
             "(products exist, branching in [0,1]); every material class is instantiated and density/pseudo-density/expansion scanned over a temperature grid "
             "across each stated validity range (quick 25, thorough 400 temperatures). Says the tables are self-consistent, not that they are physically right.",
     "note": NOTE},
    {"property_id": "C03",
     "technique": "runtime monitoring: hook on Component.setTemperature records an event log; offline checker applies closed-form expansion laws",
     "text": "Every 2-D shaped component class x every library material class is built and driven through random temperature paths inside the "
             "material's stated range; a hook on the real Component.setTemperature logs temperatures and number densities before/after, and an offline "
             "checker compares every step with f=(100+p(T))/(100+p(T0)) evaluated by the harness from the material's own correlation: N scales by f^-2, "
             "area by f^2, N*A conserved, each expanding dimension = cold x f(Tinput->T), end state independent of the path (vs a fresh component taken "
             "there in one step), hot setDimension reads back, linked dimensions (pairs and chains, free and inside a block) always equal the target's "
             "current value with no stale area/volume cache, fluid/custom components keep their dimensions. The shape x material product is complete; "
             "temperatures and paths are sampled.",
     "note": NOTE},
    {"property_id": "C02",
     "technique": "runtime monitoring: additivity ledger recomputed from leaf components after every edit + read-back oracle per composition edit",
     "text": "Generated blocks of every extruded shape/multiplicity/material, assemblies, and third-/full-core reactors built from generated blueprints "
             "(symmetry factors 1 and 3 observed) are driven through random histories of composition edits at component, block, assembly and core level, "
             "interleaved with temperature and height changes. After every edit a ledger recomputed from the leaf components only (volume, N*V per "
             "nuclide, mass per nuclide and per nuclide/element/list selection) must equal what each parent reports, mass must equal density x volume, "
             "mass fractions must sum to one, and the law of the edit is checked (requested value reads back, every other nuclide unchanged, proportions "
             "and total density kept for mass-fraction edits); densityTools conversions are checked as inverse pairs against N = rho*w*NA/A.",
     "note": NOTE + " Mass edits addressed by an elemental name in an object that also holds isotopes of that element are not judged (the "
             "specifier rule resolves the name per component by design)."},
]

_claimed = {c["property_id"] for c in CHECKS}
NOT_APPLICABLE = []
for line in open(os.path.join(ROOT, "properties.jsonl")):
    p = json.loads(line)
    if p["id"] not in _claimed:
        NOT_APPLICABLE.append({"property_id": p["id"], "reason": "not claimed yet: the runtime-monitoring check for this property is still being built (see DESIGN.md section 4); the technique applies"})
