"""C09 - CCCC nuclear-data files read back what was written, every format, both encodings.

Three layers, all driving the real armi.nuclearDataIO.cccc code:

1. record level   random rw* call sequences through Binary/AsciiRecordWriter, judged by an independent
                  `struct` byte scanner (framing = payload length computed from the call sequence by this
                  module, never by armi), by the byte image of the record built here with numpy conversions,
                  and by a mirrored read-back that also judges the numeric kind (rwInt gives integers,
                  rwFloat/rwDouble reals).  A separate shard writes records with more fields than
                  io.DEFAULT_BUFFER_SIZE (the writer flushes its field list in chunks of that size).
2. fixtures       every CCCC file shipped in the repo: read -> write -> same bytes -> read equal, binary and
                  ASCII, cross-encoding.
3. generated      a *generative reader* (IORecord subclass that invents seeded values, header integers from
                  per-format tables keyed by the metadata key armi is about to fill) is run through each
                  format's own readWrite(); while doing so it also emits the byte image of the file it
                  "read".  Oracles: the real reader on that image returns the same container; the writer
                  reproduces the image byte for byte; framing scan; record census from the format
                  specification; binary/ASCII round trips and cross-encoding equality.  The reference
                  for every round trip is taken before the writer is called.  If armi raises while walking
                  the synthetic file, that is a violation (read/<fmt>/regular-header-refused/<Exc>@<function>)
                  unless the format module refuses that header on purpose or the header is ill-formed
                  (Fmt.refusal names the reason).  Every format has its own floors.
"""
import io
import math
import os
import random
import struct

PROP = "C09"
LEVEL = "exploration"
RULE = (
    "record level: random sequences (1-4 records x 1-8 fields) of rwInt/rwLong/rwFloat/rwDouble/rwString/rwList/rwMatrix/"
    "rwDoubleMatrix/rwIntMatrix/rwImplicitlyTypedMap with values drawn from type extremes (INT_MIN/MAX, 10-digit ints, "
    "LONG_MIN/MAX, FLT_MAX/denormals, DBL_MAX/denormals, 3-digit exponents), strings 0..width, empty lists, 0-size matrices; "
    "a case = one such file in one encoding; distinct = distinct (field type, value class) sequences; plus records of "
    "DEFAULT_BUFFER_SIZE-1 .. 4*DEFAULT_BUFFER_SIZE primitive fields (scalars, mixed types, one long list, one large matrix) between two small records. "
    "format level: every shipped fixture file, plus generated containers per stream class obtained by running a generative "
    "reader through the format's own readWrite() with header integers drawn from per-format tables (dimensions 1-6, flags, "
    "geometry types, block counts, optional-record switches; about 15% of the cases also draw values the format modules refuse on purpose); "
    "a case = one container; distinct = distinct header tuples; "
    "non-trivial = at least one data record beyond the header records. Format-level reals/ints are kept inside the range "
    "the ASCII field widths can hold (|int| < 1e9, |exponent| < 100); the field-width limits themselves are judged at record level."
)
EXHAUSTIVE = {"quick": False, "thorough": False}
EXHAUSTIVE_PART = "all CCCC fixture files tracked in the repository (every one is round-tripped in both encodings)"
TOLERANCES = {
    "binary_float": "exact after rounding the written value to IEEE float32 (independent np.float32 rounding)",
    "binary_double_int_string": "exact",
    "ascii_real": "exact (the ASCII format writes 17 significant digits); a float may also come back as its float32 rounding",
    "numeric_kind": "integers and reals are different values (1 != 1.0): an integer field must come back as an integer, a real as a real; widths "
                    "(int16/int64, float32/float64 of the same value) are not compared; a list and an array holding the same values are the same data",
    "strings": "compared in normal form: no trailing blanks (fields are blank padded to the field width by design)",
    "ascii_fixture_newlines": "CRLF in a shipped ASCII fixture is compared as LF (text-mode newline translation)",
}
GEN_FORMATS = ["rtflux", "atflux", "pwdint", "rzflux", "nhflux", "naflux", "nhflux-variant", "naflux-variant", "geodst", "dif3d", "labels",
               "isotxs", "gamiso", "pmatrx", "compxs", "dlayxs", "fixsrc"]
# per-format floors (a format that loses its generated coverage must not hide behind the other sixteen); smallest counts observed over
# seeds 0-5 (quick) / 0-1 (thorough) are at least twice these.  'complete' = the container went through every round-trip oracle.
_FOUR = ("nhflux", "naflux", "nhflux-variant", "naflux-variant")  # share one thorough shard: half as many cases each
_PER_FORMAT = {"quick": {"image": {"*": 14}, "complete": {"*": 14}},
               "thorough": {"image": dict({"*": 500}, **{f: 250 for f in _FOUR}), "complete": dict({"*": 500}, **{f: 250 for f in _FOUR})}}


def _floors(tier, base):
    out = dict(base)
    for f in GEN_FORMATS:
        if f != "fixsrc":  # FIXSRC containers are generated directly (no synthetic file image)
            out["gen.image-reproduced/" + f] = _PER_FORMAT[tier]["image"].get(f, _PER_FORMAT[tier]["image"]["*"])
        out["gen.roundtrips-complete/" + f] = _PER_FORMAT[tier]["complete"].get(f, _PER_FORMAT[tier]["complete"]["*"])
    return out


FLOORS = {
    "quick": _floors("quick", {"record.bin.framing": 1000, "record.bin.readback": 1000, "record.bin.image": 1000, "record.ascii.readback": 1200, "record.big.bin": 6,
                                "record.big.ascii": 2, "fixture.rewrite": 20, "fixture.bin.roundtrip": 20,
                                "fixture.ascii.roundtrip": 20, "gen.container": 400, "gen.image-reproduced": 380, "gen.bin.roundtrip": 400, "gen.ascii.roundtrip": 400, "census": 350}),
    "thorough": _floors("thorough", {"record.bin.framing": 30000, "record.bin.readback": 30000, "record.bin.image": 25000, "record.ascii.readback": 35000, "record.big.bin": 27,
                                      "record.big.ascii": 9, "fixture.rewrite": 20, "fixture.bin.roundtrip": 20,
                                      "fixture.ascii.roundtrip": 20, "gen.container": 16000, "gen.image-reproduced": 15000, "gen.bin.roundtrip": 16000, "gen.ascii.roundtrip": 16000, "census": 13000}),
}
TIMEOUT = {"quick": 600, "thorough": 3600}
ASSUMPTIONS = [
    "reader and writer of every format share one readWrite(); an error that is symmetric in both directions cancels in any round "
    "trip. Absolute layout is anchored only by (a) the shipped real files, for the header values they happen to have, and (b) the "
    "record census (count and payload length of every record) written here from the CCCC-IV / DIF3D record descriptions for "
    "RTFLUX/ATFLUX, PWDINT, RZFLUX, GEODST, DIF3D, LABELS, NHFLUX/NAFLUX (nodal and VARIANT), FIXSRC, ISOTXS/GAMISO; PMATRX, DLAYXS, "
    "COMPXS have no census",
    "generated containers are those armi's own reader builds from a synthetic file. A refusal is accepted (counted as rejected, not judged) only for "
    "headers the format modules refuse on purpose or that are ill-formed: RTFLUX/ATFLUX NDIM<2, NBLOK/NZONE giving a negative block length, VARIANT iwnhfl=2, "
    "LABELS control-rod and burnup-dependent records, ISOTXS/GAMISO fission-spectrum matrices (ICHIST/ICHI>1), ISOTXS/GAMISO NSBLOK>1 or LORD>1 (recorded finding); "
    "any other exception on a generated header is a violation",
    "ISOTXS/GAMISO cases with NSBLOK>1 or LORD>1 that the reader accepts: differences confined to the scatter (7D) records / scatter matrices are filed under the "
    "recorded finding isotxs/scatter-subblocks-or-orders-accepted-but-garbled; the census and everything outside those records keep their own keys",
    "strings are printable ASCII without trailing blanks or newlines; reals are finite; negative zero is not generated at format level "
    "(sparse scatter blocks drop stored zeros by design)",
    "native little-endian 4-byte record markers (struct 'i'), as armi assumes",
    "documented normalisations: IsotxsIO._updateFileLabel rewrites a foreign 24-character ISOTXS/GAMISO file label to 'ISOTXS' on purpose, so "
    "the label bytes of a shipped file are not compared; ISOTXS LOCA offsets are recomputed by the writer on purpose, so the synthetic file "
    "carries the offsets the CCCC description prescribes; the DLAYXS label width is inferred from the label, so labels are generated at full width",
    "while the known findings 'dlayxs/ascii-unreadable' and 'ascii/rwInt-10-digit-overflows-field' stand, the ASCII encoding of DLAYXS and of the "
    "shipped DIF3D file (LIMTIM=1000000000) cannot be judged beyond that finding; generated DIF3D containers cover the DIF3D ASCII path",
]

I32MAX, I32MIN = 2**31 - 1, -(2**31)
I64MAX, I64MIN = 2**63 - 1, -(2**63)
FLT_MAX = 3.4028234663852886e38
REPO = os.environ.get("VERIF_REPO", "/repo")


# ============================================================================ independent byte scanner
class ScanError(Exception):
    def __init__(self, kind, detail):
        Exception.__init__(self, "%s: %s" % (kind, detail))
        self.kind, self.detail = kind, detail


def scan_records(b):
    """Walk a Fortran sequential file: [n][payload n bytes][n] ... ; returns payload lengths.  Pure struct."""
    pos, out, n = 0, [], len(b)
    while pos < n:
        if pos + 4 > n:
            raise ScanError("trailing-bytes", "%d stray bytes at offset %d after record %d" % (n - pos, pos, len(out)))
        (head,) = struct.unpack_from("i", b, pos)
        if head < 0 or pos + 8 + head > n:
            raise ScanError("count-overruns-file", "record %d at offset %d announces %d bytes, file has %d left" % (len(out), pos, head, n - pos - 8))
        (tail,) = struct.unpack_from("i", b, pos + 4 + head)
        if tail != head:
            raise ScanError("leading-trailing-differ", "record %d at offset %d: leading count %d, trailing count %d" % (len(out), pos, head, tail))
        out.append(head)
        pos += 8 + head
    return out


def scan_ascii(text):
    """Independent view of the ASCII encoding: one line per record, first/last 11 characters are the counts."""
    if text and not text.endswith("\n"):
        raise ScanError("ascii-no-final-newline", repr(text[-30:]))
    lines = text.split("\n")[:-1]
    out = []
    for i, ln in enumerate(lines):
        try:
            h, t = int(ln[:11]), int(ln[-11:])
        except ValueError:
            raise ScanError("ascii-count-unparsable", "line %d: %r ... %r" % (i, ln[:14], ln[-14:]))
        if h != t or len(ln) < 22:
            raise ScanError("ascii-leading-trailing-differ", "line %d: %r vs %r" % (i, ln[:11], ln[-11:]))
        out.append(h)
    return out


# ============================================================================ value helpers
def f32(x):
    import numpy as np

    return float(np.float32(x))


def rand_f32(rng):
    """A finite float32 value (as python float); never -0.0."""
    while True:
        (v,) = struct.unpack("f", struct.pack("I", rng.getrandbits(32)))
        if v == v and abs(v) != float("inf") and not (v == 0.0 and math.copysign(1, v) < 0):
            return float(v)


def nice_f32(rng):
    r = rng.random()
    if r < 0.45:
        return rand_f32(rng)
    if r < 0.55:
        return rng.choice([0.0, 1.0, -1.0, 0.5, FLT_MAX, -FLT_MAX, 1.1754943508222875e-38, 1.401298464324817e-45, 2.0 ** -126, 1e10])
    return f32(rng.uniform(-1, 1) * 10 ** rng.randint(-12, 12))


def nice_f64(rng, ascii_safe=True):
    r = rng.random()
    if r < 0.1:
        return rng.choice([0.0, 1.0, -1.0, 0.1, 1.0 / 3.0, math.pi, 1e99, -1e-99, 9.999999999999999e99])
    e = rng.randint(-98, 98) if ascii_safe else rng.randint(-300, 300)
    return rng.uniform(-9.99, 9.99) * 10.0 ** e


def nice_str(rng, width):
    n = rng.choice([0, width, rng.randint(0, width), rng.randint(0, width)]) if width else 0
    s = "".join(chr(rng.randint(0x20, 0x7E)) for _ in range(n))
    return s.rstrip()


def exp_digits(x):
    """Number of exponent digits '%E' prints for x."""
    if x == 0 or x != x or abs(x) == float("inf"):
        return 2
    return len(("%.16E" % x).split("E")[1]) - 1


# ============================================================================ container normal form / comparison
SKIP_ATTRS = {"container", "fileNames", "_stream", "_scatterWeights", "_fileName", "source"}


def norm(o, seen=None, depth=0):
    import numpy as np

    if seen is None:
        seen = set()
    if o is None or isinstance(o, (bool, int, str)):
        return o
    if isinstance(o, float):
        return o
    if isinstance(o, bytes):
        return o.decode("latin1")
    if isinstance(o, np.generic):
        return o.item()
    if isinstance(o, np.ndarray):
        if o.dtype.kind in "US":
            return ("nd", tuple(o.shape), [str(x) for x in o.ravel().tolist()])
        if o.dtype.kind == "O":
            return ("nd", tuple(o.shape), [norm(x, seen, depth + 1) for x in o.ravel().tolist()])
        return ("nd", tuple(o.shape), o.ravel().tolist())
    if hasattr(o, "toarray") and hasattr(o, "nnz"):
        a = o.toarray()
        return ("nd", tuple(a.shape), a.ravel().tolist())
    if depth > 12 or id(o) in seen:
        return "<cycle>"
    cn = type(o).__name__
    if hasattr(o, "getMcc3Id") and hasattr(o, "label") and not hasattr(o, "containerKey"):
        return "nuclide:" + str(getattr(o, "name", "?"))
    seen = seen | {id(o)}
    if isinstance(o, dict):
        return ("map", {repr(norm(k, seen, depth + 1)): norm(v, seen, depth + 1) for k, v in o.items()})
    if hasattr(o, "_data") and hasattr(o, "keys") and hasattr(o, "items") and not isinstance(o, dict):  # _Metadata
        return ("map", {repr(k): norm(v, seen, depth + 1) for k, v in o.items()})
    if isinstance(o, (list, tuple)):
        return ("seq", [norm(v, seen, depth + 1) for v in o])
    if hasattr(o, "__dict__"):
        d = {k: norm(v, seen, depth + 1) for k, v in vars(o).items() if k not in SKIP_ATTRS and not k.startswith("_lock") and not k.endswith("Locked")}
        return ("obj:" + cn, d)
    return repr(o)


def _kind(x):
    """Numeric kind of a leaf of a normal form: integer (bool included), real, string, other.  Widths are not part of it: norm() turns
    every numpy scalar/array element into a python int or float, so int16 -> int64 or float32 -> float64 on read-back stay equal."""
    return "real" if isinstance(x, float) else "integer" if isinstance(x, int) else "string" if isinstance(x, str) else "other"


def _num_eq(a, b):
    """Equal values of the same kind: an integer field that comes back as a real (or the reverse) is a difference, 1 != 1.0 here."""
    if _kind(a) != _kind(b):
        return False
    if isinstance(a, float):
        try:
            return a == b or (a != a and b != b)
        except Exception:
            return False
    return a == b


def diff(a, b, path="", out=None, limit=4):
    """First few differences between two normal forms."""
    if out is None:
        out = []
    if len(out) >= limit:
        return out
    if isinstance(a, tuple) and isinstance(b, tuple) and len(a) >= 1 and len(b) >= 1 and isinstance(a[0], str) and isinstance(b[0], str):
        ka, kb = a[0], b[0]
        # a list/tuple and an ndarray holding the same values are the same data
        if {ka, kb} <= {"nd", "seq"} and ka != kb:
            fa = a[2] if ka == "nd" else a[1]
            fb = b[2] if kb == "nd" else b[1]
            return diff(("seq", _flat(fa)), ("seq", _flat(fb)), path, out, limit)
        if ka != kb:
            out.append("%s: kind %s vs %s" % (path, ka, kb))
            return out
        if ka == "nd":
            if a[1] != b[1] and not (_size(a[1]) == 0 and _size(b[1]) == 0):
                out.append("%s: shape %s vs %s" % (path, a[1], b[1]))
                return out
            for i, (x, y) in enumerate(zip(a[2], b[2])):
                if isinstance(x, (tuple, list)) or isinstance(y, (tuple, list)):
                    diff(x, y, "%s[%d]" % (path, i), out, limit)
                elif not _num_eq(x, y):
                    out.append("%s[flat %d]: %r vs %r" % (path, i, x, y))
                if len(out) >= limit:
                    break
            return out
        if ka == "seq":
            if len(a[1]) != len(b[1]):
                out.append("%s: length %d vs %d" % (path, len(a[1]), len(b[1])))
                return out
            for i, (x, y) in enumerate(zip(a[1], b[1])):
                diff(x, y, "%s[%d]" % (path, i), out, limit)
            return out
        da, db = a[1], b[1]
        for k in sorted(set(da) | set(db)):
            if k not in da or k not in db:
                va = da.get(k, "<absent>")
                vb = db.get(k, "<absent>")
                if _empty(va) and _empty(vb):
                    continue
                out.append("%s.%s: %s vs %s" % (path, k, _short(va), _short(vb)))
            else:
                diff(da[k], db[k], "%s.%s" % (path, k), out, limit)
            if len(out) >= limit:
                break
        return out
    if _empty(a) and _empty(b):
        return out
    if isinstance(a, tuple) != isinstance(b, tuple):
        out.append("%s: %s vs %s" % (path, _short(a), _short(b)))
        return out
    if not _num_eq(a, b):
        out.append("%s: %r vs %r" % (path, a, b))
    return out


def _flat(x):
    out = []
    for v in x:
        if isinstance(v, tuple) and v and v[0] in ("seq",):
            out.extend(_flat(v[1]))
        elif isinstance(v, tuple) and v and v[0] == "nd":
            out.extend(_flat(v[2]))
        else:
            out.append(v)
    return out


def _size(shape):
    n = 1
    for s in shape:
        n *= s
    return n


def _empty(v):
    """None, empty list/array/dict are the same 'nothing there' (armi initialises absent data either way)."""
    if v is None or v == "<absent>":
        return True
    if isinstance(v, tuple) and v and v[0] == "nd":
        return _size(v[1]) == 0
    if isinstance(v, tuple) and v and v[0] in ("seq", "map"):
        return len(v[1]) == 0
    return False


def _short(v):
    s = repr(v)
    return s if len(s) < 160 else s[:157] + "..."


def leaves(n, path=""):
    """Yield (path, scalar) of a normal form."""
    if isinstance(n, tuple) and n and isinstance(n[0], str):
        if n[0] == "nd":
            for i, x in enumerate(n[2]):
                yield from leaves(x, "%s[%d]" % (path, i))
        elif n[0] == "seq":
            for i, x in enumerate(n[1]):
                yield from leaves(x, "%s[%d]" % (path, i))
        else:
            for k, x in n[1].items():
                yield from leaves(x, "%s.%s" % (path, k))
    else:
        yield path, n


def wide_values(n):
    """Values the fixed-width ASCII fields cannot hold (see record-level findings)."""
    wi, wd = [], []
    for p, v in leaves(n):
        if isinstance(v, bool):
            continue
        if isinstance(v, int) and abs(v) >= 10**9:
            wi.append((p, v))
        elif isinstance(v, float) and exp_digits(v) > 2:
            wd.append((p, v))
    return wi, wd


# ============================================================================ layer 1: record level
INT_EXTREMES = [0, 1, -1, 7, I32MAX, I32MIN, 10**9 - 1, -(10**9 - 1), 10**9, -(10**9), 123456789, 2**30]
LONG_EXTREMES = [0, 1, -1, I64MAX, I64MIN, 2**31, -(2**31) - 1, 2**40, 10**18]
F32_EXTREMES = [0.0, -0.0, 1.0, 0.1, 1.0 / 3.0, FLT_MAX, -FLT_MAX, 1.1754943508222875e-38, 1.401298464324817e-45, 3.0e38, 1e-30, 16777217.0]
F64_SAFE = [0.0, -0.0, 1.0, 0.1, 1.0 / 3.0, 1e99, -1e-99, 9.999999999999999e99, 123456.789e-20]
F64_WIDE = [1.7976931348623157e308, 5e-324, 2.2250738585072014e-308, 1e100, -1e-100, 1e200, 3e-250]


def gen_int(rng, wide):
    r = rng.random()
    if r < 0.35:
        v = rng.choice(INT_EXTREMES)
    elif r < 0.7:
        v = rng.randint(-999, 999)
    else:
        v = rng.randint(I32MIN, I32MAX)
    if not wide and abs(v) >= 10**9:
        v = v % (10**9) * (1 if v > 0 else -1)
    return v


def gen_f32val(rng):
    r = rng.random()
    if r < 0.3:
        return rng.choice(F32_EXTREMES)
    if r < 0.6:
        return rand_f32(rng)
    return rng.uniform(-1, 1) * 10 ** rng.randint(-30, 30)  # not float32-exact: rounding is part of the case


def gen_f64val(rng, wide):
    r = rng.random()
    if r < 0.25:
        return rng.choice(F64_SAFE + (F64_WIDE if wide else []))
    if wide and r < 0.4:
        return nice_f64(rng, ascii_safe=False)
    return nice_f64(rng, ascii_safe=True)


def gen_field(rng, allow_long, wide):
    """One rw* call: (op, args...) with python values; numpy arrays are built when applied."""
    ops = ["int", "float", "double", "string", "list", "matrix", "map", "int", "double", "string"]
    if allow_long:
        ops += ["long", "long"]
    op = rng.choice(ops)
    if op == "int":
        return ("int", gen_int(rng, wide))
    if op == "long":
        return ("long", rng.choice(LONG_EXTREMES) if rng.random() < 0.5 else rng.randint(I64MIN, I64MAX))
    if op == "float":
        return ("float", gen_f32val(rng))
    if op == "double":
        return ("double", gen_f64val(rng, wide))
    if op == "string":
        L = rng.choice([0, 1, 4, 6, 8, 8, 12, 24, 28, 96])
        return ("string", nice_str(rng, L), L)
    if op == "list":
        t = rng.choice(["int", "float", "double", "string"])
        n = rng.choice([0, 0, 1, 2, 3, 5])
        L = rng.choice([0, 4, 8]) if t == "string" else 0
        vals = [{"int": lambda: gen_int(rng, wide), "float": lambda: gen_f32val(rng), "double": lambda: gen_f64val(rng, wide),
                 "string": lambda: nice_str(rng, L)}[t]() for _ in range(n)]
        return ("list", t, vals, L)
    if op == "matrix":
        kind = rng.choice(["f", "d", "i"])
        shape = tuple(rng.choice([0, 1, 2, 3]) for _ in range(rng.choice([1, 2, 2, 3])))
        n = 1
        for s in shape:
            n *= s
        g = {"f": lambda: gen_f32val(rng), "d": lambda: gen_f64val(rng, wide), "i": lambda: gen_int(rng, wide)}[kind]
        return ("matrix", kind, shape, [g() for _ in range(n)])
    keys, vals = [], {}
    for _ in range(rng.randint(1, 4)):
        k = rng.choice("ABCDEFGHIJKLMNOPQRSTUVWXYZabijkxmn") + rng.choice(["", "X", "1", "DIM"]) + str(len(keys))
        keys.append(k)
        vals[k] = gen_int(rng, wide) if k[0].upper() in "IJKLMN" else gen_f32val(rng)
    return ("map", keys, vals)


def field_leaves(f):
    """Primitive (type, value, width) items a field is made of, in stream order - the harness' own model."""
    op = f[0]
    if op in ("int", "long", "float", "double"):
        return [(op, f[1], 0)]
    if op == "string":
        return [("string", f[1], f[2])]
    if op == "list":
        return [(f[1], v, f[3]) for v in f[2]]
    if op == "matrix":
        t = {"f": "float", "d": "double", "i": "int"}[f[1]]
        return [(t, v, 0) for v in f[3]]
    return [("int" if k[0].upper() in "IJKLMN" else "float", f[2][k], 0) for k in f[1]]


BIN_SIZE = {"int": 4, "long": 8, "float": 4, "double": 8}
ASC_SIZE = {"int": 11, "float": 24, "double": 24}


def payload_len(fields):
    return sum(BIN_SIZE[t] if t != "string" else w for f in fields for t, _v, w in field_leaves(f))


def ascii_len(fields):
    return 22 + sum(ASC_SIZE[t] if t != "string" else 1 + w for f in fields for t, _v, w in field_leaves(f))


def pack_leaf(t, v, w):
    """Bytes of one primitive field by the CCCC binary convention (native 4-byte integer / IEEE single, 8-byte long / IEEE double,
    blank-padded characters) - numpy conversions, no armi code."""
    import numpy as np

    if t == "string":
        return v.encode("ascii") + b" " * (w - len(v))
    with np.errstate(over="ignore"):
        return {"int": np.int32, "long": np.int64, "float": np.float32, "double": np.float64}[t](v).tobytes()


def record_image(fields):
    p = b"".join(pack_leaf(t, v, w) for f in fields for t, v, w in field_leaves(f))
    n = np_int32_bytes(len(p))
    return n + p + n


def np_int32_bytes(n):
    import numpy as np

    return np.int32(n).tobytes()


def apply_field(r, f, reading):
    """Issue the armi call for one field on record r; returns what armi returned."""
    import numpy as np

    op = f[0]
    if op == "int":
        return r.rwInt(None if reading else f[1])
    if op == "long":
        return r.rwLong(None if reading else f[1])
    if op == "float":
        return r.rwFloat(None if reading else f[1])
    if op == "double":
        return r.rwDouble(None if reading else f[1])
    if op == "string":
        return r.rwString(None if reading else f[1], f[2])
    if op == "list":
        return r.rwList(None if reading else list(f[2]), f[1], len(f[2]), f[3])
    if op == "matrix":
        kind, shape, vals = f[1], f[2], f[3]
        arr = None
        if not reading:
            arr = np.zeros(tuple(reversed(shape)), dtype=(np.int64 if kind == "i" else np.float64))
            it = iter(vals)
            import itertools

            for index in itertools.product(*[range(s) for s in shape]):  # stream order: first shape argument outermost
                arr[tuple(reversed(index))] = next(it)
        if reading and kind == "i" and all(shape):
            # the format modules hand rwIntMatrix a pre-allocated integer array (geodst, nhflux); with None armi allocates a float64 one
            arr = np.zeros(tuple(reversed(shape)), dtype=np.int64)
        fn = {"f": r.rwMatrix, "d": r.rwDoubleMatrix, "i": r.rwIntMatrix}[kind]
        return fn(arr, *shape)
    return r.rwImplicitlyTypedMap(f[1], {k: None for k in f[1]} if reading else dict(f[2]))


def got_leaves(f, got):
    """Flatten what armi returned for field f into stream order."""
    import itertools

    op = f[0]
    if op in ("int", "long", "float", "double", "string"):
        return [got]
    if op == "list":
        return list(got.tolist()) if hasattr(got, "tolist") else list(got)
    if op == "matrix":
        shape = f[2]
        if tuple(got.shape) != tuple(reversed(shape)):
            return ["<shape %s>" % (got.shape,)]
        return [got[tuple(reversed(ix))].item() for ix in itertools.product(*[range(s) for s in shape])]
    return [got[k] for k in f[1]]


def value_ok(t, want, got, ascii_mode):
    import numpy as np

    if isinstance(got, str) and t != "string":
        return False
    # the numeric kind is part of the field type: rwInt/rwLong give integers, rwFloat/rwDouble give reals
    if t in ("int", "long"):
        if isinstance(got, (bool, np.bool_)) or not isinstance(got, (int, np.integer)):
            return False
        return int(got) == want
    if t in ("float", "double") and not isinstance(got, (float, np.floating)):
        return False
    if t == "double":
        return got == want
    if t == "float":
        return got == f32(want) or (ascii_mode and got == want)
    return got == want


def vclass(t, v, w):
    if t == "string":
        return "s%d/%d" % (len(v), w)
    if t in ("int", "long"):
        a = abs(v)
        return t[0] + ("0" if a == 0 else "s" if a < 1000 else "m" if a < 10**9 else "w" if a < 2**31 else "L")
    e = exp_digits(v)
    return t[0] + ("0" if v == 0 else "e%d" % e)


def do_records(spec, rec, rng):
    from armi.nuclearDataIO.cccc import cccc

    n = spec["n"]
    for ci in range(n):
        crng = random.Random("%s:%d" % (spec["rng"], ci))
        mode = crng.random()
        allow_long = mode < 0.25            # longs only exist in the binary encoding
        wide = 0.25 <= mode < 0.45          # values wider than the ASCII fields (10-digit ints, 3-digit exponents)
        records = [[gen_field(crng, allow_long, wide) for _ in range(crng.randint(1, 8))] for _ in range(crng.randint(1, 4))]
        sig = [[vclass(*lf) for f in r for lf in field_leaves(f)] + [f[0] for f in r] for r in records]
        w = {"records": records, "case": "%s:%d" % (spec["rng"], ci)}
        rec.case(["rec", sig], nontrivial=True, sample=w if ci < 2 else None)
        record_binary(cccc, records, rec, w)
        record_ascii(cccc, records, rec, w, crng)


def do_big_records(spec, rec, rng):
    """Records with more fields than io.DEFAULT_BUFFER_SIZE: BinaryRecordWriter.close flushes its field list in chunks of that many
    entries, so chunk boundaries (1, 2, 3+ chunks, exact multiples) are part of 'whatever mix of fields a record holds'."""
    from armi.nuclearDataIO.cccc import cccc

    D = io.DEFAULT_BUFFER_SIZE
    sizes = [D - 1, D, D + 1, 2 * D - 1, 2 * D, 2 * D + 1, 3 * D + 7, 4 * D]
    cases = [(n, mix) for n in sizes for mix in ("scalars", "mixed")] + [(2 * D + 5, "list"), (3 * D + 1, "matrix")]
    for ci, (n, mix) in enumerate(cases * spec.get("repeat", 1)):
        crng = random.Random("%s:%d" % (spec["rng"], ci))
        if mix == "scalars":
            big = [("int", gen_int(crng, False)) if i % 2 else ("double", gen_f64val(crng, False)) for i in range(n)]
        elif mix == "mixed":
            big = []
            for i in range(n):
                t = crng.choice(["int", "float", "double", "string"])
                big.append(("string", nice_str(crng, 6), 6) if t == "string" else (t, {"int": lambda: gen_int(crng, False), "float": lambda: gen_f32val(crng),
                                                                                       "double": lambda: gen_f64val(crng, False)}[t]()))
        elif mix == "list":
            big = [("int", 7), ("list", "double", [gen_f64val(crng, False) for _ in range(n)], 0), ("string", "END", 4)]
        else:
            a, b = 3, (n + 2) // 3
            big = [("matrix", "f", (a, b), [gen_f32val(crng) for _ in range(a * b)]), ("int", -1)]
        small = [("int", 1), ("string", "ab", 4)]
        records = [small, big, small]
        nleaves = sum(len(field_leaves(f)) for f in big)
        w = {"records": "3 records: 2 fields / %d fields (%s) / 2 fields" % (nleaves, mix), "case": "%s:%d" % (spec["rng"], ci), "fields_in_big_record": nleaves,
             "io.DEFAULT_BUFFER_SIZE": D}
        rec.case(["bigrec", nleaves, mix, ci], nontrivial=nleaves > D, sample=w if ci < 2 else None)
        rec.hit("record.big.bin")
        record_binary(cccc, records, rec, w)
        if ci % 4 == 1 or mix in ("list", "matrix"):
            rec.hit("record.big.ascii")
            record_ascii(cccc, records, rec, w, crng)


def record_binary(cccc, records, rec, w):
    s = io.BytesIO()
    try:
        for fields in records:
            with cccc.BinaryRecordWriter(s) as r:
                for f in fields:
                    apply_field(r, f, False)
    except Exception as e:  # every generated value is inside the range of its field type: a refusal is a failure
        rec.crash("record-write-binary", e, w)
        return
    b = s.getvalue()
    # (a) framing, judged against the payload length computed here from the call sequence
    rec.hit("record.bin.framing")
    pos, bad = 0, False
    for ri, fields in enumerate(records):
        E = payload_len(fields)
        nlong = sum(1 for f in fields if f[0] == "long")
        head = struct.unpack_from("i", b, pos)[0] if pos + 4 <= len(b) else None
        tail = struct.unpack_from("i", b, pos + 4 + E)[0] if pos + 8 + E <= len(b) else None
        if head != E or tail != E:
            bad = True
            ww = dict(w, record=ri, payload_bytes=E, leading=head, trailing=tail, longs=nlong)
            if head == tail and nlong and head == E - 8 * nlong:
                rec.violation("framing/rwLong-undercounts-8-bytes",
                              "binary record with %d rwLong field(s): payload is %d bytes, both counts say %d (8 short per long)" % (nlong, E, head), ww)
            elif head != tail:
                rec.violation("framing/leading-trailing-differ", "record %d: leading %s trailing %s payload %d" % (ri, head, tail, E), ww)
            else:
                rec.violation("framing/count-differs-from-payload", "record %d: counts say %s, payload written by the call sequence is %d bytes" % (ri, head, E), ww)
        pos += 8 + E
    if pos != len(b) and not bad:
        rec.violation("framing/trailing-bytes", "file is %d bytes, records account for %d" % (len(b), pos), w)
    if not bad:
        try:
            scan_records(b)
        except ScanError as e:
            rec.violation("framing/" + e.kind, e.detail, w)
    # (a') the whole file against the byte image this module builds from the call sequence
    rec.hit("record.bin.image")
    if not bad:
        img = b"".join(record_image(fields) for fields in records)
        if img != b:
            fd = _first_diff(img, b)
            pos, where = 0, None
            for ri, fields in enumerate(records):
                off = pos + 4
                for fi, f in enumerate(fields):
                    for t, v, wd in field_leaves(f):
                        n = BIN_SIZE[t] if t != "string" else wd
                        if where is None and off <= fd["offset"] < off + n:
                            where = (ri, fi, t)
                        off += n
                pos += 8 + payload_len(fields)
            rec.violation("image/binary/%s" % (where[2] if where else "structure"), "binary record bytes differ from the CCCC encoding of the values written "
                          "(first at byte %d: record %s field %s type %s)" % ((fd["offset"],) + (where or (None, None, None))), dict(w, first_diff=fd))
    # (b) mirrored read-back
    rec.hit("record.bin.readback")
    s.seek(0)
    nbad = 0
    try:
        for ri, fields in enumerate(records):
            with cccc.BinaryRecordReader(s) as r:
                for fi, f in enumerate(fields):
                    got = got_leaves(f, apply_field(r, f, True))
                    for (t, want, _w), g in zip(field_leaves(f), got):
                        if not value_ok(t, want, g, False) and nbad < 8:  # a shifted record would otherwise report every later field
                            nbad += 1
                            rec.violation("readback/binary/%s" % t, "binary %s written %r read %r (record %d field %d %s)" % (t, want, g, ri, fi, f[0]),
                                          dict(w, record=ri, field=fi))
                    if len(got) != len(field_leaves(f)):
                        rec.violation("readback/binary/count", "field %s returned %d values, %d written" % (f[0], len(got), len(field_leaves(f))), w)
        if s.read(1) != b"":
            rec.violation("readback/binary/leftover", "bytes left after the mirrored read", w)
    except Exception as e:
        if bad:
            return  # consequence of the framing defect reported above
        rec.crash("record-read-binary", e, w)


def record_ascii(cccc, records, rec, w, crng):
    if any(f[0] == "long" for r in records for f in r):
        if not hasattr(cccc.AsciiRecordWriter, "rwLong"):
            rec.reject("ASCII encoding has no rwLong (refusal)")
            return
    s = io.StringIO()
    try:
        for fields in records:
            with cccc.AsciiRecordWriter(s) as r:
                for f in fields:
                    apply_field(r, f, False)
    except Exception as e:
        rec.crash("record-write-ascii", e, w)
        return
    text = s.getvalue()
    rec.hit("record.ascii.readback")
    problems = []
    lines = text.split("\n")
    if len(lines) != len(records) + 1 or lines[-1] != "":
        problems.append("expected %d newline-terminated lines, got %d" % (len(records), len(lines) - 1))
    else:
        for ri, (ln, fields) in enumerate(zip(lines, records)):
            if len(ln) != ascii_len(fields):
                problems.append("record %d: line is %d characters, field widths add up to %d" % (ri, len(ln), ascii_len(fields)))
            elif ln[:11].strip() != "%+d" % payload_len(fields) or ln[-11:].strip() != "%+d" % payload_len(fields):
                problems.append("record %d: ASCII counts %r/%r, binary-equivalent payload %d" % (ri, ln[:11], ln[-11:], payload_len(fields)))
    s.seek(0)
    try:
        for ri, fields in enumerate(records):
            with cccc.AsciiRecordReader(s) as r:
                for fi, f in enumerate(fields):
                    got = got_leaves(f, apply_field(r, f, True))
                    for (t, want, _w), g in zip(field_leaves(f), got):
                        if not value_ok(t, want, g, True):
                            problems.append("%s written %r read %r (record %d field %d)" % (t, want, g, ri, fi))
        if s.read(1) != "":
            problems.append("characters left after the mirrored read")
    except Exception as e:
        problems.append("read raised %s: %s" % (type(e).__name__, str(e)[:120]))
    if not problems:
        return
    # name the mechanism by the smallest reproduction: which single primitive fails on its own?
    culprits = {}
    for fields in records:
        for f in fields:
            for t, v, wd in field_leaves(f):
                if single_ascii_fails(cccc, t, v, wd):
                    if t == "int" and abs(v) >= 10**9:
                        culprits.setdefault("ascii/rwInt-10-digit-overflows-field", (t, v))
                    elif t in ("double", "float") and exp_digits(v) > 2:
                        culprits.setdefault("ascii/rwDouble-3-digit-exponent-overflows-field", (t, v))
                    else:
                        culprits.setdefault("ascii/single-field-unreadable/%s" % t, (t, v, wd))
    if culprits:
        for key, (t, v, *_r) in culprits.items():
            rec.violation(key, "ASCII record holding %s %r cannot be read back: %s" % (t, v, problems[0]),
                          {"minimal": "AsciiRecordWriter: rw%s(%r); rwInt(7) -> AsciiRecordReader misparses" % (t.capitalize(), v), "problems": problems[:3], "case": w["case"]})
    else:
        rec.violation("ascii/record-roundtrip", problems[0], dict(w, problems=problems[:4]))


def single_ascii_fails(cccc, t, v, wd):
    s = io.StringIO()
    f = (t, v, wd) if t == "string" else (t, v)
    try:
        with cccc.AsciiRecordWriter(s) as r:
            apply_field(r, f, False)
            r.rwInt(7)
        s.seek(0)
        with cccc.AsciiRecordReader(s) as r:
            g = apply_field(r, f, True)
            return not (value_ok(t, v, g, True) and r.rwInt(None) == 7)
    except Exception:
        return True


# ============================================================================ generative reader
class Track:
    """Which metadata key did armi's format code look at last, and how many primitive reads ago."""
    key = None
    n = 0


_KEYED = {}


def _keyed_class(cls):
    if cls not in _KEYED:
        base_get = cls.__getitem__

        def __getitem__(self, key, _g=base_get):
            Track.key, Track.n = key, 0
            return _g(self, key)

        _KEYED[cls] = type("Keyed" + cls.__name__, (cls,), {"__getitem__": __getitem__, "_verif_orig_class": cls})
    return _KEYED[cls]


class KDict(dict):
    def __getitem__(self, key):
        Track.key, Track.n = key, 0
        return dict.__getitem__(self, key)


class Gen:
    """Generation context: value policies + the byte image of the synthetic file being 'read'."""

    def __init__(self, rng, table=None, ilist=(-50, 50), iscalar=(-50, 50), strings=None, label=None):
        self.rng = rng
        self.table = table or {}
        self.ilist, self.iscalar = ilist, iscalar
        self.strings = strings or {}     # key or length -> callable(gen, length)
        self.image = []                  # list of records, each a list of packed fields
        self.cur = None
        self.keyed = []
        self.state = {}
        self.header = {}                 # named integers chosen (case signature; the last value when a key is filled repeatedly)
        self.seen = {}                   # key -> every value handed out for it (per-nuclide keys are filled once per nuclide)
        self.label = label

    def keyify(self, meta):
        if meta is None or hasattr(type(meta), "_verif_orig_class"):
            return meta
        meta.__class__ = _keyed_class(type(meta))
        self.keyed.append(meta)
        return meta

    def restore(self):
        for m in self.keyed:
            m.__class__ = type(m)._verif_orig_class
        self.keyed = []

    def bytes(self):
        out = []
        for r in self.image:
            p = b"".join(r)
            out.append(struct.pack("i", len(p)) + p + struct.pack("i", len(p)))
        return b"".join(out)

    # -- policies
    def int(self, inlist):
        key, n = Track.key, Track.n
        spec = None
        if (key, n) in self.table:
            spec = self.table[(key, n)]
        elif key in self.table and ((n == 0 and not inlist) or getattr(self.table[key], "each", False)):
            spec = self.table[key]
        if spec is None:
            lo, hi = self.ilist if inlist else self.iscalar
            return self.rng.randint(lo, hi)
        v = spec(self, n) if callable(spec) else (self.rng.choice(spec) if isinstance(spec, list) else self.rng.randint(*spec))
        self.seen.setdefault(str(key), set()).add(v)
        if n == 0:
            self.header[str(key)] = v
        elif (key, n) in self.table:
            self.header["%s+%d" % (key, n)] = v
        return v

    def string(self, length):
        key, n = Track.key, Track.n
        f = self.strings.get((key, n)) or (self.strings.get(key) if n == 0 or getattr(self.strings.get(key), "each", False) else None) or self.strings.get(length)
        s = f(self, length) if f else nice_str(self.rng, length)
        assert len(s) <= length and s == s.rstrip(), (s, length)
        return s


def each(f):
    f.each = True
    return f


def make_gen_reader(cccc):
    class GenReader(cccc.BinaryRecordReader):
        G = None

        def __init__(self, stream, hasRecordBoundaries=True):
            self._k = 0
            cccc.BinaryRecordReader.__init__(self, stream, hasRecordBoundaries)
            self._inlist = 0

        # the binary reader exposes numBytes/byteCount to format code (DLAYXS sizes two fields from them)
        @property
        def numBytes(self):
            return self.byteCount + 4 * self._k

        @numBytes.setter
        def numBytes(self, v):
            pass

        def open(self):
            self.byteCount = 0
            self._k = self.G.rng.choice([0, 1, 2, 3, 8])
            self.G.cur = []
            self.G.image.append(self.G.cur)

        def close(self):
            self.G.cur = None

        def _emit(self, packed, nbytes):
            self.G.cur.append(packed)
            self.byteCount += nbytes
            Track.n += 1

        def rwInt(self, val):
            v = self.G.int(self._inlist > 0)
            self._emit(struct.pack("i", v), 4)
            return v

        def rwLong(self, val):
            v = self.G.rng.randint(I64MIN, I64MAX)
            self._emit(struct.pack("q", v), 8)
            return v

        def rwFloat(self, val):
            v = nice_f32(self.G.rng)
            self._emit(struct.pack("f", v), 4)
            return v

        def rwDouble(self, val):
            v = nice_f64(self.G.rng)
            self._emit(struct.pack("d", v), 8)
            return v

        def rwString(self, val, length):
            s = self.G.string(length)
            self._emit(s.ljust(length).encode("ascii"), length)
            return s

        def rwList(self, contents, containedType, length, strLength=0):
            self._inlist += 1
            try:
                return cccc.BinaryRecordReader.rwList(self, contents, containedType, length, strLength)
            finally:
                self._inlist -= 1

        def rwImplicitlyTypedMap(self, keys, contents):
            # FORTRAN-77 implicit typing written down here, not taken from armi: names starting with I..N are integers, all others reals.
            # The synthetic file therefore holds the types the CCCC descriptions prescribe, whatever armi's own rule says.
            for key in keys:
                Track.key, Track.n = key, 0  # the header tables are keyed by the name being filled
                contents[key] = self.rwInt(None) if key[:1].upper() in ("I", "J", "K", "L", "M", "N") else self.rwFloat(None)
            return contents

        def rwIntMatrix(self, contents, *shape):
            self._inlist += 1
            try:
                return cccc.BinaryRecordReader.rwIntMatrix(self, contents, *shape)
            finally:
                self._inlist -= 1

    return GenReader




# ============================================================================ independent record census (from the file specifications)
def blocks(n, nblok):
    """CCCC blocking rule: JL=(M-1)*((N-1)/NBLOK+1)+1, JU=MIN0(N, M*((N-1)/NBLOK+1)); returns the block sizes."""
    x = (n - 1) // nblok + 1
    return [min(n, m * x) - ((m - 1) * x + 1) + 1 for m in range(1, nblok + 1)]


def census_rtflux(c):
    m = c.metadata
    return [28, 36] + [8 * m["NINTI"] * s for _g in range(m["NGROUP"]) for _k in range(m["NINTK"]) for s in blocks(m["NINTJ"], m["NBLOK"])]


def census_pwdint(c):
    m = c.metadata
    return [28, 32] + [4 * m["NINTI"] * s for _k in range(m["NINTK"]) for s in blocks(m["NINTJ"], m["NBLOK"])]


def census_rzflux(c):
    m = c.metadata
    return [28, 80] + [4 * m["NGROUP"] * s for s in blocks(m["NZONE"], m["NBLOK"])]


def census_geodst(c):
    m = c.metadata
    ig = m["IGOM"]
    out = [28, 27 * 4]
    ci, cj, ck = m["NCINTI"], m["NCINTJ"], m["NCINTK"]
    if 0 < ig <= 3:
        out.append((ci + 1) * 8 + ci * 4)
    elif 6 <= ig <= 11:
        out.append((ci + 1 + cj + 1) * 8 + (ci + cj) * 4)
    elif ig >= 12:
        out.append((ci + cj + ck + 3) * 8 + (ci + cj + ck) * 4)
    if ig > 0 or m["NBS"] > 0:
        out.append(4 * (2 * m["NREG"] + m["NBS"] + m["NBCS"] + m["NIBCS"] + m["NZWBB"] + m["NZONE"]))
    if ig > 0 and m["NRASS"] == 0:
        out += [4 * ci * cj] * ck
    if ig > 0 and m["NRASS"] == 1:
        out += [4 * m["NINTI"] * m["NINTJ"]] * m["NINTK"]
    return out


def census_dif3d(c):
    out = [28, 11 * 8 + 12, 47 * 4, 30 * 8]
    if c.twoD["NUMORP"] > 0:
        out.append(8 * c.twoD["NUMORP"])
    if c.twoD["NCMRZS"] > 0:
        out.append(12 * c.twoD["NCMRZS"])
    return out


def census_labels(c):
    m = c.metadata
    out = [28, 24 * 4, 8 * (m["numZones"] + m["numRegions"] + m["numAreas"] + m["numRegionAreaAssignments"])]
    h1, h2 = m["numHalfHeightsDirection1"], m["numHalfHeightsDirection2"]
    if h1 > 0 or h2 > 0:
        out.append(8 * (h1 + h2))
    if m["numNuclideSets"] > 1:
        out.append(8 * m["numNuclideSets"])
    if m["numZoneAliases"] > 0:
        out.append(8 * m["numZoneAliases"])
    return out


def census_nhflux(c):
    m = c.metadata
    var = bool(m["variantFlag"])
    nxy, ns, nsc, nz, ng = m["nintxy"], m["nSurf"], m["nscoef"], m["nintk"], m["ngroup"]
    ext = m["npcxy"] - nxy * ns
    two = 4 * (ns * nxy + (m["npcbdy"] if var else ext) + nxy + (2 * (m["npcsym"] + m["npcsec"]) if var else 0))
    out = [28, 30 * 4, two]
    mom = m["nMom"] + (m["nMoms"] if var else 0)
    for _s in range(m["numDataSetsToRead"]):
        for _g in range(ng):
            out += [8 * nxy * mom] * nz
            if not (var and m["iwnhfl"] == 1):
                out += [8 * m["npcxy"] * nsc] * nz
                out += [8 * 2 * nxy * nsc] * (nz + 1)
    return out


def census_fixsrc(arr):
    ni, nj, nz, ng = arr.shape
    return [28, 13 * 4] + [8 * ni * nj] * (ng * nz)


def census_isotxs(lib, which):
    fm = getattr(lib, which + "Metadata")
    ng, nb = fm["numGroups"], fm["maxScatteringBlocks"]
    nn = len(lib.nuclides)
    out = [28, 32, 96 + 8 * nn + (4 * ng if fm["fileWideChiFlag"] == 1 else 0) + 8 * ng + 4 + 4 * nn]
    for nuc in lib.nuclides:
        md = getattr(nuc, which + "Metadata")
        out.append(24 + 24 + 44 + 8 * nb + 8 * nb * ng)
        nvec = md["ltrn"] + md["ltot"] + 1 + (2 if md["fisFlag"] > 0 else 0) + (1 if md["chiFlag"] == 1 else 0)
        nvec += sum(1 for k in ("nalph", "np", "n2n", "nd", "nt") if md[k] > 0) + max(md["strpd"], 0)
        out.append(4 * ng * nvec)
        nsb = fm["subblockingControl"]
        x = (ng - 1) // nsb + 1
        for n in range(nb):
            lord = int(md["ords"][n])
            if lord > 0:
                for m in range(1, nsb + 1):  # one record per sub-block: groups JL..JU of the CCCC blocking rule
                    out.append(4 * lord * sum(int(md["jband"][j, n]) for j in range((m - 1) * x, min(ng, m * x))))
    return out


# ============================================================================ format descriptors
def R(lo, hi):
    return (lo, hi)


def _negative_block(g, key_n, key_b="NBLOK"):
    h = g.header
    if key_n in h and key_b in h and min(blocks(h[key_n], h[key_b])) < 0:
        return "%s/%s give a negative block length under the CCCC blocking rule (ill-formed header)" % (key_b, key_n)
    return None


def nblok_for(key_n):
    """NBLOK such that the CCCC blocking rule yields no negative block (empty trailing blocks are legal: 0-size record)."""
    def f(g, n):
        J = g.header[key_n]
        ok = [nb for nb in range(1, J + 3) if min(blocks(J, nb)) >= 0]
        if g.state.get("hostile") and g.rng.random() < 0.5:
            bad = [nb for nb in range(1, J + 4) if min(blocks(J, nb)) < 0]
            if bad:
                return g.rng.choice(bad)
        return g.rng.choice(ok)
    return f


class Fmt:
    name = "?"
    ascii = True
    irange = dict(ilist=(-50, 50), iscalar=(-99, 99))
    census = None
    fixtures = ()

    def __init__(self, env):
        self.env = env  # dict with cccc module, GenReader, pools

    # ---- io through the public API
    def read(self, path, enc):
        return self.api.readBinary(path) if enc == "b" else self.api.readAscii(path)

    def write(self, c, path, enc):
        return self.api.writeBinary(c, path) if enc == "b" else self.api.writeAscii(c, path)

    def table(self, hostile):
        return {}

    def strings(self):
        return {}

    last_g = None

    def new_gen(self, rng, hostile):
        Track.key, Track.n = None, 0
        g = Gen(rng, table=self.table(hostile), strings=self.strings(), **self.irange)
        g.state["hostile"] = hostile
        g.pool = self.env["pool"]
        self.last_g = g  # stays reachable when armi raises half way through the synthetic file
        return g

    def refusal(self, g):
        """Why armi may refuse the header drawn so far (a reason taken from the format module: an explicit NotImplementedError/ValueError
        branch, or a header that is ill-formed by the CCCC rules), or None: the header is regular and must be read."""
        return None

    def generate(self, rng, hostile):
        raise NotImplementedError

    def refill(self, c, rng):
        return False

    def header(self, c, g):
        return dict(g.header)

    def nontrivial(self, nrecords):
        return nrecords > 2


class SwdcFmt(Fmt):
    """StreamWithDataContainer formats."""
    cls = None

    @property
    def api(self):
        return self.cls

    def container(self):
        return self.cls._getDataContainer()

    def generate(self, rng, hostile):
        g = self.new_gen(rng, hostile)
        GR = self.env["GenReader"]
        G = type("Gen" + self.cls.__name__, (self.cls,), {"_fileModes": dict(self.cls._fileModes, rb=GR)})
        data = self.container()
        g.keyify(data.metadata)
        self.pre(data, g)
        GR.G = g
        try:
            G._readWrite(data, os.devnull, "rb")
        finally:
            g.restore()
            self.post(data, g)
        return data, g

    def pre(self, data, g):
        pass

    def post(self, data, g):
        pass


def _arr_refill(a, rng, kind):
    import numpy as np

    if a is None or not hasattr(a, "shape") or a.size == 0:
        return a
    flat = [nice_f32(rng) if kind == "f" else nice_f64(rng) if kind == "d" else rng.randint(0, 999) for _ in range(a.size)]
    return np.array(flat, dtype=a.dtype).reshape(a.shape)


class RtfluxFmt(SwdcFmt):
    name = "rtflux"
    census = staticmethod(census_rtflux)

    def __init__(self, env, adjoint=False):
        Fmt.__init__(self, env)
        from armi.nuclearDataIO.cccc import rtflux

        self.cls = rtflux.AtfluxStream if adjoint else rtflux.RtfluxStream
        self.name = "atflux" if adjoint else "rtflux"
        self.fixtures = () if adjoint else (("simple_cartesian.rtflux", "b"),)

    def table(self, hostile):
        return {"NDIM": [2, 3] + ([0, 1] if hostile else []), "NGROUP": R(1, 5), "NINTI": R(1, 5), "NINTJ": R(1, 6), "NINTK": R(1, 4),
                "ITER": R(0, 500), "NBLOK": nblok_for("NINTJ")}

    def refusal(self, g):
        if g.header.get("NDIM", 2) < 2:
            return "NDIM<2: RtfluxStream.readWrite raises on purpose (NDIM=1 NotImplementedError '1-D RTFLUX files are not yet implemented', NDIM<1 ValueError)"
        return _negative_block(g, "NINTJ")

    def refill(self, c, rng):
        c.groupFluxes = _arr_refill(c.groupFluxes, rng, "d")
        return True


class PwdintFmt(SwdcFmt):
    name = "pwdint"
    census = staticmethod(census_pwdint)
    fixtures = (("simple_cartesian.pwdint", "b"),)

    def __init__(self, env):
        Fmt.__init__(self, env)
        from armi.nuclearDataIO.cccc import pwdint

        self.cls = pwdint.PwdintStream

    def table(self, hostile):
        return {"NINTI": R(1, 5), "NINTJ": R(1, 6), "NINTK": R(1, 4), "NCY": R(0, 99), "NBLOK": nblok_for("NINTJ")}

    def refusal(self, g):
        return _negative_block(g, "NINTJ")

    def refill(self, c, rng):
        c.powerDensity = _arr_refill(c.powerDensity, rng, "f")
        return True


class RzfluxFmt(SwdcFmt):
    name = "rzflux"
    census = staticmethod(census_rzflux)
    fixtures = (("simple_cartesian.rzflux", "b"),)

    def __init__(self, env):
        Fmt.__init__(self, env)
        from armi.nuclearDataIO.cccc import rzflux

        self.cls = rzflux.RzfluxStream

    def table(self, hostile):
        def nzone(g, n):
            nb = g.header["NBLOK"]
            ok = [z for z in range(1, 9) if min(blocks(z, nb)) >= 0]
            bad = [z for z in range(1, 9) if min(blocks(z, nb)) < 0]
            return g.rng.choice(bad) if (hostile and bad and g.rng.random() < 0.5) else g.rng.choice(ok)
        return {"NBLOK": R(1, 4), "ITPS": R(0, 3), "NZONE": nzone, "NGROUP": R(1, 6), "NCY": R(0, 99)}

    def refusal(self, g):
        return _negative_block(g, "NZONE")

    def refill(self, c, rng):
        c.groupFluxes = _arr_refill(c.groupFluxes, rng, "f")
        return True


class NhfluxFmt(SwdcFmt):
    census = staticmethod(census_nhflux)

    def __init__(self, env, adjoint, variant):
        Fmt.__init__(self, env)
        from armi.nuclearDataIO.cccc import nhflux

        self.variant = variant
        self.cls = nhflux.getNhfluxReader(adjoint, variant)
        self.name = ("naflux" if adjoint else "nhflux") + ("-variant" if variant else "")
        self.fixtures = () if adjoint else ((("simple_hexz.nhflux.variant", "b"),) if variant else (("simple_hexz.nhflux", "b"),))

    def table(self, hostile):
        t = {"ndim": R(1, 3), "ngroup": R(1, 4), "ninti": R(1, 9), "nintj": R(1, 9), "nintk": R(1, 3), "iter": R(0, 99), "nSurf": [4, 6],
             "nMom": R(1, 5), "nintxy": R(1, 5), "npcxy": lambda g, n: g.header["nintxy"] * g.header["nSurf"] + g.rng.randint(0, 4),
             "nscoef": R(1, 3), "itrord": R(0, 5), "iaprx": R(0, 5), "ileak": R(0, 5), "iaprxz": R(0, 5), "ileakz": R(0, 5), "iorder": R(0, 5)}
        if self.variant:
            t.update({"npcbdy": R(0, 5), "npcsym": R(0, 3), "npcsec": R(0, 3), "iwnhfl": [0, 0, 1] + ([2] if hostile else []), "nMoms": R(0, 4)})
        return t

    def refusal(self, g):
        if self.variant and g.header.get("iwnhfl") == 2:
            return "VARIANT iwnhfl=2: NhfluxStreamVariant.readWrite raises ValueError on purpose ('can only read ... iwnhfl=0 or 1')"
        return None

    def refill(self, c, rng):
        for a in ("fluxMomentsAll", "partialCurrentsHexAll", "partialCurrentsHex_extAll", "partialCurrentsZAll"):
            setattr(c, a, _arr_refill(getattr(c, a), rng, "d"))
        return True

    def nontrivial(self, nrecords):
        return nrecords > 3


class GeodstFmt(SwdcFmt):
    name = "geodst"
    census = staticmethod(census_geodst)
    fixtures = (("simple_hexz.geodst", "b"),)
    irange = dict(ilist=(0, 999), iscalar=(0, 9))

    def __init__(self, env):
        Fmt.__init__(self, env)
        from armi.nuclearDataIO.cccc import geodst

        self.cls = geodst.GeodstStream

    def table(self, hostile):
        def dimJ(g, n):
            return 1 if 1 <= g.header["IGOM"] <= 3 else g.rng.randint(1, 4)

        def dimK(g, n):
            return 1 if g.header["IGOM"] < 12 else g.rng.randint(1, 3)
        return {"IGOM": [0, 1, 2, 3, 6, 7, 8, 9, 10, 11, 12, 13, 14, 15, 16, 17, 18], "NZONE": R(0, 4), "NREG": R(0, 5), "NZCL": R(0, 3),
                "NCINTI": R(1, 4), "NCINTJ": dimJ, "NCINTK": dimK, "NINTI": R(1, 5), "NINTJ": dimJ, "NINTK": dimK,
                "NBS": R(0, 3), "NBCS": R(0, 3), "NIBCS": R(0, 2), "NZWBB": R(0, 2), "NRASS": [0, 0, 1, 1, 2]}

    def refill(self, c, rng):
        c.coarseMeshRegions = _arr_refill(c.coarseMeshRegions, rng, "i")
        c.fineMeshRegions = _arr_refill(c.fineMeshRegions, rng, "i")
        return True


class Dif3dFmt(SwdcFmt):
    name = "dif3d"
    census = staticmethod(census_dif3d)
    fixtures = (("simple_hexz.dif3d", "b"),)
    irange = dict(ilist=(-50, 50), iscalar=(-(10**9) + 1, 10**9 - 1))

    def __init__(self, env):
        Fmt.__init__(self, env)
        from armi.nuclearDataIO.cccc import dif3d

        self.cls = dif3d.Dif3dStream

    def table(self, hostile):
        return {"NUMORP": R(0, 4), "NCMRZS": R(0, 4)}

    def pre(self, data, g):
        data.twoD = KDict(data.twoD)

    def post(self, data, g):
        data.twoD = dict(data.twoD)

    def nontrivial(self, nrecords):
        return nrecords > 4


class LabelsFmt(SwdcFmt):
    name = "labels"
    census = staticmethod(census_labels)
    fixtures = (("labels.binary", "b"), ("labels.ascii", "a"))
    irange = dict(ilist=(0, 99), iscalar=(0, 99))

    def __init__(self, env):
        Fmt.__init__(self, env)
        from armi.nuclearDataIO.cccc import labels

        self.cls = labels.LabelsStream

    def table(self, hostile):
        z = [0] + ([1] if hostile else [])
        return {"numZones": R(0, 5), "numRegions": R(0, 5), "numAreas": R(0, 3), "numRegionAreaAssignments": R(0, 4),
                "numHalfHeightsDirection1": R(0, 3), "numHalfHeightsDirection2": R(0, 3), "numNuclideSets": R(0, 4), "numZoneAliases": R(0, 3),
                "numControlRodBanks": z, "numBurnupDependentIsotopes": z, "maxBurnupDependentGroups": z, "maxBurnupPolynomialOrder": z}

    def refusal(self, g):
        if any(g.header.get(k, 0) > 0 for k in ("numControlRodBanks", "numBurnupDependentIsotopes", "maxBurnupDependentGroups", "maxBurnupPolynomialOrder")):
            return "control-rod / burnup-dependent records: LabelsStream._rw6DRecord.._rw11DRecord raise NotImplementedError on purpose"
        return None


def _pool_label(g, length):
    """Next unused nuclide label (4 chars) + 2-char cross-section id."""
    lab = g.state.setdefault("labels", g.rng.sample(g.pool["labels"], 6)).pop()
    key = lab + g.state.setdefault("xsid", g.rng.choice(["AA", "AB", "ZC", "BA"]))
    g.state.setdefault("order", []).append(key)
    return key


class IsotxsFmt(Fmt):
    """ISOTXS and GAMISO (same stream code, different metadata slots)."""
    irange = dict(ilist=(0, 9), iscalar=(0, 99))

    def __init__(self, env, which):
        Fmt.__init__(self, env)
        from armi.nuclearDataIO.cccc import gamiso, isotxs

        self.which = which
        self.name = which
        self.api = isotxs if which == "isotxs" else gamiso
        self.io = isotxs.IsotxsIO if which == "isotxs" else gamiso._GamisoIO
        self.census = lambda lib: census_isotxs(lib, which)
        self.fixtures = tuple((f, "b") for f in (("mc2v3-AA.isotxs", "mc2v3-AB.isotxs", "combined-AA-AB.isotxs", "combined-and-lumped-AA-AB.isotxs", "ISOAA", "ISOAB", "tests/ISOAA") if which == "isotxs" else
                                                 ("mc2v3-AA.gamiso", "mc2v3-AB.gamiso", "AA.gamiso", "AB.gamiso", "combined-AA-AB.gamiso", "combined-and-lumped-AA-AB.gamiso")))

    def table(self, hostile):
        h = hostile is True  # 'coin' cases are regular in every other respect
        def fis(g, n):
            if g.header["chiFlag"] == 0 and g.header["fileWideChiFlag"] != 1:
                return 0
            return g.rng.choice([0, 1])

        @each
        def scat(g, n):
            if n == 0:
                g.state["perm"] = g.rng.sample([0, 100, 200, 300, 1, 101, 102, 201, 301, 2], 10)
            return g.state["perm"][n]

        @each
        def jband(g, n):
            ng = g.header["numGroups"]
            if n == 0:
                g.state["jb"] = {}
            v = g.rng.choice([g.rng.randint(0, ng), g.rng.randint(1, ng), 1, ng])
            g.state["jb"][n] = v
            return v

        @each
        def jj(g, n):
            ng = g.header["numGroups"]
            grp = n % ng
            jb = g.state["jb"][n]
            return g.rng.randint(max(1, jb - grp), min(max(jb, 1), ng - grp))

        def coin(g):
            # a sub-blocked, two-order layout the reader happens to accept (rows per sub-block x orders == groups); most others are refused
            return g.state.setdefault("coin", hostile == "coin" or bool(hostile and g.rng.random() < 0.4))

        @each
        def ords(g, n):
            return 2 if coin(g) else g.rng.choice([0, 1, 1] + ([2] if h else []))
        f01 = [0, 1]
        return {"numGroups": lambda g, n: 2 if coin(g) else g.rng.randint(1, 6), ("numGroups", 1): R(1, 4), "maxUpScatterGroups": R(0, 5), "maxDownScatterGroups": R(0, 5), "maxScatteringOrder": R(0, 3),
                "fileWideChiFlag": [0, 1] + ([2] if h else []), "maxScatteringBlocks": lambda g, n: g.rng.randint(1 if coin(g) else 0, 4),
                "subblockingControl": lambda g, n: 2 if coin(g) else g.rng.choice([1] + ([2] if h else [])),
                "chiFlag": [0, 1] + ([2] if h else []), "fisFlag": fis, "nalph": f01, "np": f01, "n2n": f01, "nd": f01, "nt": f01,
                "ltot": R(0, 3), "ltrn": R(0, 3), "strpd": R(0, 2), "scatFlag": scat, "ords": ords, "jband": jband, "jj": jj}

    def refusal(self, g):
        if any(v > 1 for k in ("fileWideChiFlag", "chiFlag") for v in g.seen.get(k, ())):
            return "fission-spectrum matrices (ICHIST or ICHI > 1): IsotxsIO._rw3DRecord / _rw6DRecord raise NotImplementedError on purpose"
        if any(v > 1 for k in ("subblockingControl", "ords") for v in g.seen.get(k, ())):
            return ("NSBLOK>1 or LORD>1: that most such layouts are refused is part of the recorded finding "
                    "isotxs/scatter-subblocks-or-orders-accepted-but-garbled")
        return None

    def strings(self):
        rnd = lambda g, L: nice_str(g.rng, L)
        return {"label": lambda g, L: "ISOTXS", "libName": rnd, "isoIdent": rnd,
                "nuclideId": lambda g, L: g.pool["name_of_label"][g.state["current"][:-2]], 8: _pool_label}

    def generate(self, rng, hostile):
        from armi.nuclearDataIO import xsLibraries, xsNuclides

        g = self.new_gen(rng, hostile)
        GR = self.env["GenReader"]
        G = type("Gen" + self.io.__name__, (self.io,), {"_fileModes": dict(self.io._fileModes, rb=GR)})
        lib = xsLibraries.IsotxsLibrary()
        g.keyify(getattr(lib, self.which + "Metadata"))

        def getter(key):
            nuc = xsNuclides.XSNuclide(lib, key)
            g.keyify(getattr(nuc, self.which + "Metadata"))
            g.state["current"] = key
            return nuc
        GR.G = g
        try:
            with G(os.devnull, lib, "rb", getter) as rw:
                rw.readWrite()
        finally:
            g.restore()
        # LOCA (records to skip per nuclide) is recomputed by the writer by design: put the specified values into the image
        nn = len(lib.nuclides)
        per = [2 + sum(1 for o in getattr(n, self.which + "Metadata")["ords"] if o > 0) for n in lib.nuclides]
        for i in range(nn):
            g.image[2][len(g.image[2]) - nn + i] = struct.pack("i", sum(per[:i]))
        getattr(lib, self.which + "Metadata").fileNames[:] = []
        return lib, g

    def nontrivial(self, nrecords):
        return nrecords > 3


class PmatrxFmt(Fmt):
    name = "pmatrx"
    irange = dict(ilist=(1000, 1000), iscalar=(0, 9))
    fixtures = tuple((f, "b") for f in ("mc2v3-AA.pmatrx", "mc2v3-AB.pmatrx", "AA.pmatrx", "AB.pmatrx", "combined-AA-AB.pmatrx", "combined-and-lumped-AA-AB.pmatrx"))

    def __init__(self, env):
        Fmt.__init__(self, env)
        from armi.nuclearDataIO.cccc import pmatrx

        self.api = pmatrx

    def table(self, hostile):
        f01 = [0, 1]
        return {"numGammaGroups": R(1, 4), "numNeutronGroups": R(1, 5), "hasInPlateData": f01, ("hasInPlateData", 1): R(1, 4), "hasDoseConversionFactor": f01,
                # order-3 production matrices and activation cross sections are regular PMATRX content (PmatrxIO has code for both)
                "maxScatteringOrder": [0, 1, 2] * 8 + [3], "hasNeutronHeatingAndDamage": f01, "hasGammaHeating": f01,
                "numberNeutronXS": [0] * 24 + [1]}

    def strings(self):
        return {8: _pool_label}

    def generate(self, rng, hostile):
        from armi.nuclearDataIO import xsLibraries, xsNuclides
        from armi.nuclearDataIO.cccc import pmatrx

        g = self.new_gen(rng, hostile)
        GR = self.env["GenReader"]
        G = type("GenPmatrxIO", (pmatrx.PmatrxIO,), {"_fileModes": dict(pmatrx.PmatrxIO._fileModes, rb=GR)})
        lib = xsLibraries.IsotxsLibrary()
        g.keyify(lib.pmatrxMetadata)

        def getter(key):
            nuc = xsNuclides.XSNuclide(lib, key)
            g.keyify(nuc.pmatrxMetadata)
            return nuc
        GR.G = g
        try:
            with G(os.devnull, lib, "rb", getter) as rw:
                rw.readWrite()
        finally:
            g.restore()
        lib.pmatrxMetadata.fileNames[:] = []
        return lib, g

    def nontrivial(self, nrecords):
        return nrecords > 4


class CompxsFmt(Fmt):
    name = "compxs"
    irange = dict(ilist=(0, 3), iscalar=(0, 9))
    fixtures = (("tests/COMPXS.ascii", "a"),)

    def __init__(self, env):
        Fmt.__init__(self, env)
        from armi.nuclearDataIO.cccc import compxs

        self.api = compxs

    def table(self, hostile):
        @each
        def nup(g, n):
            return g.rng.randint(0, g.header["numGroups"] - 1 - n)

        @each
        def ndn(g, n):
            return g.rng.randint(0, n)
        return {"numComps": R(1, 3), "numGroups": R(1, 5), "fileWideChiFlag": [0] * 7 + [1], "numFissComps": R(0, 3), "maxUpScatterGroups": R(0, 4),
                "maxDownScatterGroups": R(0, 4), "numDelayedFam": [0] * 7 + [2], "maxScatteringOrder": R(0, 2),
                "compFamiliesWithPrecursors": each(lambda g, n: g.rng.randint(0, 2)), "chiFlag": R(0, 2), "numUpScatterGroups": nup, "numDownScatterGroups": ndn}

    def generate(self, rng, hostile):
        from armi.nuclearDataIO import xsLibraries
        from armi.nuclearDataIO.cccc import compxs

        g = self.new_gen(rng, hostile)
        GR = self.env["GenReader"]
        G = type("GenCompxsIO", (compxs._CompxsIO,), {"_fileModes": dict(compxs._CompxsIO._fileModes, rb=GR)})
        lib = xsLibraries.CompxsLibrary()
        g.keyify(lib.compxsMetadata)

        def getter(key):
            reg = compxs.CompxsRegion(lib, key)
            g.keyify(reg.metadata)
            return reg
        GR.G = g
        try:
            with G(os.devnull, lib, "rb", getter) as rw:
                rw.readWrite()
        finally:
            g.restore()
        lib.compxsMetadata.fileNames[:] = []
        return lib, g

    def nontrivial(self, nrecords):
        return nrecords > 3


class DlayxsFmt(Fmt):
    name = "dlayxs"
    irange = dict(ilist=(1, 6), iscalar=(0, 9))
    fixtures = (("mc2v3.dlayxs", "b"),)

    def __init__(self, env):
        Fmt.__init__(self, env)
        from armi.nuclearDataIO.cccc import dlayxs

        self.api = dlayxs

    def table(self, hostile):
        return {"numEnergyGroups": R(1, 5), ("numEnergyGroups", 1): R(1, 4), "numFamilies": R(6, 10), "nkfam": each(lambda g, n: g.rng.randint(0, 6))}

    def strings(self):
        @each
        def ids(g, L):
            return g.state.setdefault("ids", g.rng.sample(g.pool["mcc3"], 6)).pop()
        def label(g, L):  # the field width of this label is inferred from the label itself: keep it at full width
            return "".join(chr(g.rng.randint(0x20, 0x7E)) for _ in range(L - 1)) + chr(g.rng.randint(0x21, 0x7E)) if L else ""
        return {"nuclideIDs": ids, "label": label}

    def generate(self, rng, hostile):
        from armi.nuclearDataIO.cccc import dlayxs

        g = self.new_gen(rng, hostile)
        GR = self.env["GenReader"]
        G = type("GenDlayxsIO", (dlayxs.DlayxsIO,), {"_fileModes": dict(dlayxs.DlayxsIO._fileModes, rb=GR)})
        d = dlayxs.Dlayxs()
        g.keyify(d.metadata)
        GR.G = g
        try:
            with G(os.devnull, "rb", d) as rw:
                rw.readWrite()
        finally:
            g.restore()
        return d, g


class FixsrcFmt(Fmt):
    """FIXSRC: the container is a bare 4-D array, generated directly; read through a pre-sized stream and through readBinary."""
    name = "fixsrc"
    census = staticmethod(census_fixsrc)

    def __init__(self, env):
        Fmt.__init__(self, env)
        from armi.nuclearDataIO.cccc import fixsrc

        self.mod = fixsrc

    def write(self, c, path, enc):
        with self.mod.FIXSRC(path, "wb" if enc == "b" else "w", c) as fs:
            fs.readWrite()

    def read_sized(self, path, enc, shape):
        import numpy as np

        with self.mod.FIXSRC(path, "rb" if enc == "b" else "r", np.zeros(shape)) as fs:
            fs.readWrite()
        return fs.fixSrc


# ============================================================================ layers 2+3: the judged pipeline
def _first_diff(a, b):
    n = min(len(a), len(b))
    i = next((k for k in range(n) if a[k] != b[k]), n)
    return {"offset": i, "len_a": len(a), "len_b": len(b), "a": repr(a[max(0, i - 8):i + 16]), "b": repr(b[max(0, i - 8):i + 16])}


def _locate(payloads, offset):
    pos = 0
    for i, p in enumerate(payloads):
        if offset < pos + 8 + p:
            return {"record": i, "byte_in_payload": offset - pos - 4, "payload_len": p}
        pos += 8 + p
    return {"record": None}


def records_differing(a, b):
    """Indices of the records whose payload differs between two binary files with the same record structure; None if the structure differs."""
    try:
        pa, pb = scan_records(a), scan_records(b)
    except ScanError:
        return None
    if pa != pb:
        return None
    out, pos = [], 0
    for i, n in enumerate(pa):
        if a[pos:pos + 8 + n] != b[pos:pos + 8 + n]:
            out.append(i)
        pos += 8 + n
    return out


def _rd(path, mode="rb"):
    with open(path, mode, **({"newline": ""} if mode == "r" else {})) as f:
        return f.read()


def ascii_failure(fmt, rec, where, what, w, nref):
    """An ASCII step failed although binary passed: name the mechanism from the container's values."""
    from armi.nuclearDataIO.cccc import cccc

    wi, wd = wide_values(nref)
    wi = [x for x in wi if single_ascii_fails(cccc, "int", x[1], 0)][:3]      # attribute only if that very value fails on its own
    wd = [x for x in wd if single_ascii_fails(cccc, "double", x[1], 0)][:3]
    if wi:
        rec.violation("ascii/rwInt-10-digit-overflows-field", "%s %s: container holds the 10-digit integer %s=%d, which the 11-character ASCII integer field cannot hold; %s"
                      % (fmt.name, where, wi[0][0], wi[0][1], what), dict(w, where=where, wide=wi[:3]))
    elif wd:
        rec.violation("ascii/rwDouble-3-digit-exponent-overflows-field", "%s %s: container holds %s=%r (3-digit exponent); %s" % (fmt.name, where, wd[0][0], wd[0][1], what),
                      dict(w, where=where, wide=wd[:3]))
    elif fmt.name == "dlayxs":
        rec.violation("dlayxs/ascii-unreadable", "DLAYXS written with writeAscii cannot be read back with readAscii (%s): the reader sizes the label and the trailing "
                      "string list from BinaryRecordReader byte counters the ASCII reader does not maintain" % what, dict(w, where=where))
    else:
        return False
    return True


def roundtrips(fmt, c, rec, w, sized=None):
    """write binary -> scan -> census -> read -> equal -> write -> same bytes; same in ASCII; cross-encoding.  Returns #records."""
    from vlib import env

    name = fmt.name
    read = (lambda p, e: fmt.read_sized(p, e, sized)) if sized is not None else fmt.read
    lim = getattr(rec, "diff_limit", 4)
    gen = bool(w.get("generated"))
    nref = norm(c)  # taken BEFORE writing: a writer that alters the container it is given is judged against what it was given
    try:
        with env.quiet():
            fmt.write(c, "o.bin", "b")
    except Exception as e:
        rec.crash("%s/writeBinary" % name, e, w)
        return 0
    dw = diff(nref, norm(c), limit=lim)
    if dw:
        rec.add("containers_altered_by_writeBinary", 1)
        rec.note("altered-by-writer:%s" % name, dw[:3])
    bB = _rd("o.bin")
    rec.hit("gen.bin.roundtrip" if w.get("generated") else "fixture.bin.roundtrip")
    try:
        payloads = scan_records(bB)
    except ScanError as e:
        rec.violation("framing/%s/%s" % (name, e.kind), "%s binary output: %s" % (name, e.detail), w)
        return 0
    rec.add("binary_records_scanned", len(payloads))
    if fmt.census is not None:
        rec.hit("census")
        try:
            exp = fmt.census(c)
        except Exception as e:
            raise RuntimeError("census harness error for %s: %r" % (name, e))
        if exp != payloads:
            census_violation(fmt, c, exp, payloads, rec, w)
    try:
        with env.quiet():
            c2 = read("o.bin", "b")
            fmt.write(c2, "o2.bin", "b")
    except Exception as e:
        rec.crash("%s/readBinary-of-own-output" % name, e, w)
        return len(payloads)
    d = diff(nref, norm(c2), limit=lim)
    if d:
        rec.violation("roundtrip/%s/binary-read-differs" % name, "%s: readBinary(writeBinary(c)) != c: %s" % (name, "; ".join(d)), dict(w, diffs=d))
    b2 = _rd("o2.bin")
    if b2 != bB:
        fd = _first_diff(bB, b2)
        rec.violation("rewrite/%s/binary-bytes-differ" % name, "%s: writing what was read changes the file at byte %d" % (name, fd["offset"]),
                      dict(w, first_diff=fd, at=_locate(payloads, fd["offset"]), records_differing=records_differing(bB, b2)))
    if not fmt.ascii:
        return len(payloads)
    # ---- ASCII
    rec.hit("gen.ascii.roundtrip" if w.get("generated") else "fixture.ascii.roundtrip")
    try:
        with env.quiet():
            fmt.write(c, "o.asc", "a")
    except Exception as e:
        rec.crash("%s/writeAscii" % name, e, w)
        return len(payloads)
    tA = _rd("o.asc", "r")
    try:
        counts = scan_ascii(tA)
        if counts != payloads:
            raise ScanError("ascii-records-differ-from-binary", "ASCII record byte counts %s..., binary payload lengths %s..." % (counts[:6], payloads[:6]))
    except ScanError as e:
        if not ascii_failure(fmt, rec, "writeAscii", e.detail, w, nref):
            rec.violation("ascii-structure/%s/%s" % (name, e.kind), "%s ASCII output: %s" % (name, e.detail), w)
        return len(payloads)
    try:
        with env.quiet():
            c3 = read("o.asc", "a")
    except Exception as e:
        if not ascii_failure(fmt, rec, "readAscii", "%s: %s" % (type(e).__name__, str(e).strip().splitlines()[-1][:160] if str(e).strip() else ""), w, nref):
            rec.crash("%s/readAscii-of-own-output" % name, e, w)
        return len(payloads)
    d = diff(nref, norm(c3), limit=lim)
    if d:
        if not ascii_failure(fmt, rec, "readAscii", "; ".join(d), w, nref):
            rec.violation("roundtrip/%s/ascii-read-differs" % name, "%s: readAscii(writeAscii(c)) != c: %s" % (name, "; ".join(d)), dict(w, diffs=d))
        return len(payloads)
    try:
        with env.quiet():
            fmt.write(c3, "o2.asc", "a")
            fmt.write(c3, "o3.bin", "b")
    except Exception as e:
        rec.crash("%s/write-after-readAscii" % name, e, w)
        return len(payloads)
    if _rd("o2.asc", "r") != tA:
        rec.violation("rewrite/%s/ascii-bytes-differ" % name, "%s: ASCII file changes when what was read is written again" % name, dict(w, first_diff=_first_diff(tA, _rd("o2.asc", "r"))))
    b3 = _rd("o3.bin")
    if b3 != bB:
        fd = _first_diff(bB, b3)
        rec.violation("cross/%s/ascii-to-binary-differs" % name, "%s: binary written from the ASCII-read container differs from the original binary at byte %d" % (name, fd["offset"]),
                      dict(w, first_diff=fd, at=_locate(payloads, fd["offset"]), records_differing=records_differing(bB, b3)))
    if gen:
        rec.hit("gen.roundtrips-complete/" + name)  # every oracle above was reached for this container
    return len(payloads)


def census_violation(fmt, c, exp, found, rec, w):
    name = fmt.name
    ww = dict(w, expected_payload_lengths=exp[:40], found_payload_lengths=found[:40])
    if name == "geodst" and 1 <= c.metadata["IGOM"] <= 3:
        e2 = list(exp)
        del e2[2]
        if e2 == found:
            rec.violation("census/geodst/1d-mesh-record-absent", "GEODST with IGOM=%d (1-D geometry): the 2D record (coarse mesh boundaries + fine mesh intervals, %d bytes) "
                          "is neither written nor read (guard `0 > geomType >= 3` is never true)" % (c.metadata["IGOM"], exp[2]), ww)
            return
    if len(exp) != len(found):
        rec.violation("census/%s/record-count" % name, "%s: specification gives %d records for this header, file has %d" % (name, len(exp), len(found)), ww)
    else:
        i = next(k for k in range(len(exp)) if exp[k] != found[k])
        rec.violation("census/%s/record-length" % name, "%s: record %d should hold %d bytes by the specification, file has %d" % (name, i, exp[i], found[i]), dict(ww, record=i))


FIXDIRS = ["armi/nuclearDataIO/cccc/tests/fixtures", "armi/nuclearDataIO/tests/fixtures", "armi"]


def fixture_path(rel):
    for d in FIXDIRS:
        p = os.path.join(REPO, d, rel)
        if os.path.isfile(p):
            return p
    return None


def do_fixtures(spec, rec, rng):
    from vlib import env

    fmts = {f.name: f for f in all_formats(make_env())}
    for fname in spec["formats"]:
        fmt = fmts[fname]
        for rel, enc in fmt.fixtures:
            path = fixture_path(rel)
            w = {"fixture": rel, "format": fname, "encoding": "binary" if enc == "b" else "ascii"}
            if path is None:
                rec.skip("fixture %s not present in this tree" % rel)
                continue
            raw = _rd(path)
            try:
                with env.quiet():
                    c = fmt.read(path, enc)
                    fmt.write(c, "f.out", enc)
            except Exception as e:
                rec.crash("%s/read-write-fixture" % fname, e, w)
                continue
            rec.hit("fixture.rewrite")
            out = _rd("f.out")
            if enc == "a":
                raw = raw.replace(b"\r\n", b"\n")
            else:
                try:
                    pl = scan_records(raw)
                    if fmt.census is not None:
                        rec.hit("census")
                        exp = fmt.census(c)
                        if exp != pl:
                            census_violation(fmt, c, exp, pl, rec, dict(w, note="shipped file vs specification"))
                except ScanError as e:
                    rec.violation("framing/%s/fixture-%s" % (fname, e.kind), "shipped %s: %s" % (rel, e.detail), w)
            if fname in ("isotxs", "gamiso") and raw[4:28] != out[4:28] and len(raw) == len(out):
                # IsotxsIO._updateFileLabel replaces a foreign 24-character file label by "ISOTXS" on purpose (documented there)
                rec.add("fixture_labels_normalised_by_design", 1)
                raw = raw[:4] + out[4:28] + raw[28:]
            if out != raw:
                rec.violation("fixture/%s/rewrite-differs" % fname, "%s: write(read(file)) differs from the shipped file at byte %d" % (rel, _first_diff(raw, out)["offset"]),
                              dict(w, first_diff=_first_diff(raw, out)))
            nrec = roundtrips(fmt, c, rec, w)
            rec.case(["fixture", rel], nontrivial=nrec > 2, sample=dict(w, records=nrec, bytes=len(raw)))


def do_generated(spec, rec, rng):
    from vlib import env

    fmts = {f.name: f for f in all_formats(make_env())}
    names = spec["formats"]
    for ci in range(spec["n"]):
        fmt = fmts[names[ci % len(names)]]
        crng = random.Random("%s:%d" % (spec["rng"], ci))
        hostile = crng.random() < 0.15
        if fmt.name in ("isotxs", "gamiso") and ci < 3 * len(names):
            hostile = "coin"  # the first cases of every run use the accepted sub-blocked layout (see IsotxsFmt.table)
        w = {"format": fmt.name, "case": "%s:%d" % (spec["rng"], ci), "generated": True, "hostile_header": bool(hostile)}
        if fmt.name == "fixsrc":
            gen_fixsrc(fmt, crng, rec, w, ci)
            continue
        fmt.last_g = None
        try:
            with env.quiet():
                c0, g = fmt.generate(crng, hostile)
        except Exception as e:
            # armi raised while its own readWrite() walked the synthetic file.  Allowed only where the format module refuses the header on
            # purpose or the header is ill-formed (Fmt.refusal names the reason from the values drawn); a regular header must be read.
            g = fmt.last_g
            root, func, tb = root_cause(e)
            kind = type(root).__name__
            reason = fmt.refusal(g) if g is not None else None
            if reason:
                rec.reject("%s: reader refused the header (%s) - %s" % (fmt.name, kind, reason))
            else:
                w["header"] = dict(g.header) if g is not None else None
                rec.add("regular_header_refusals", 1)
                rec.violation("read/%s/regular-header-refused/%s@%s" % (fmt.name, kind, func),
                              "%s: a file with a regular, well-formed header (%s) cannot be read: %s in %s: %s"
                              % (fmt.name, ", ".join("%s=%s" % kv for kv in sorted((w["header"] or {}).items())[:14]), kind, func, str(root)[:200]),
                              dict(w, error="%s: %s" % (kind, str(root)[:300]), traceback=tb[-1500:]))
                rec.case(["gen-refused", fmt.name, kind, func], nontrivial=False)
            continue
        rec.hit("gen.container")
        w["header"] = fmt.header(c0, g)
        r = rec  # recorder of this case; never carried over to the next case
        if fmt.name in ("isotxs", "gamiso"):
            md = getattr(c0, fmt.name + "Metadata")
            lords = [int(o) for n in c0.nuclides for o in getattr(n, fmt.name + "Metadata")["ords"]]
            if md["subblockingControl"] > 1 or any(o > 1 for o in lords):
                r = Reroute(rec, "isotxs/scatter-subblocks-or-orders-accepted-but-garbled",
                            "%s with NSBLOK=%d, max LORD=%d was accepted by the reader (most such headers are refused) but is not read faithfully: "
                            "_rw7DRecord builds a new matrix per sub-block (the last one wins) and stacks the rows of all Legendre orders"
                            % (fmt.name.upper(), md["subblockingControl"], max(lords or [0])), isotxs_scatter_records(c0, fmt.name))
        image = g.bytes()
        n0 = norm(c0)
        # (1) the real reader on the synthetic file returns what the generative reader handed out
        open("img.bin", "wb").write(image)
        try:
            with env.quiet():
                c1 = fmt.read("img.bin", "b")
                fmt.write(c1, "img.out", "b")
        except Exception as e:
            r.crash("%s/read-write-synthetic-file" % fmt.name, e, w)
            rec.case(["gen-crashed", fmt.name, sorted(w["header"].items())], nontrivial=False)
            continue
        d = diff(n0, norm(c1), limit=getattr(r, "diff_limit", 4))
        if d:
            r.violation("read/%s/synthetic-file-misread" % fmt.name, "%s: readBinary of a file holding known values returns other values: %s" % (fmt.name, "; ".join(d[:4])), dict(w, diffs=d))
        # (2) write(read(file)) == file
        rec.hit("gen.image-reproduced")
        rec.hit("gen.image-reproduced/" + fmt.name)
        out = _rd("img.out")
        if out != image and fmt.name == "compxs" and out == compxs_d2_over_d1(image, c1):
            r.violation("compxs/d1-multiplier-overwritten-by-d2", "COMPXS: the first-dimension diffusion-coefficient multiplier of every group record is lost on read "
                        "(REGIONXS_POWER_CONVERT_DIRECTIONAL_DIFF lists 'd1Multiplier' twice and never 'd2Multiplier'), so write(read(file)) puts the D2 multiplier "
                        "in both places", dict(w, first_diff=_first_diff(image, out)))
        elif out != image:
            fd = _first_diff(image, out)
            at = _locate(scan_records(image), fd["offset"])
            r.violation("rewrite/%s/synthetic-file-not-reproduced" % fmt.name, "%s: write(read(file)) differs from the file at byte %d (record %s, payload byte %s)"
                        % (fmt.name, fd["offset"], at.get("record"), at.get("byte_in_payload")), dict(w, first_diff=fd, at=at, records_differing=records_differing(image, out)))
        # (3) fill every data cell, then the round trips
        refilled = fmt.refill(c1, crng)
        nrec = roundtrips(fmt, c1, r, dict(w, refilled=refilled))
        rec.case(["gen", fmt.name, sorted(w["header"].items())], nontrivial=fmt.nontrivial(nrec),
                 sample=dict(w, records=nrec, bytes=len(image)) if ci < len(names) * 1 and ci % len(names) == 0 and not hostile else None)


def isotxs_scatter_records(lib, which):
    """Indices of the scatter (7D) records of an ISOTXS/GAMISO file by the CCCC layout: file id, 1D, 2D, then per nuclide 4D, 5D and one 7D record
    per sub-block of every scattering block with LORD>0 (no 3D/6D records: fission-spectrum matrices are refused)."""
    fm = getattr(lib, which + "Metadata")
    nsb, nb = fm["subblockingControl"], fm["maxScatteringBlocks"]
    idx, out = 3, set()
    for nuc in lib.nuclides:
        md = getattr(nuc, which + "Metadata")
        idx += 2
        for n in range(nb):
            if int(md["ords"][n]) > 0:
                out.update(range(idx, idx + nsb))
                idx += nsb
    return out


def root_cause(e):
    """(innermost exception of the __cause__/__context__ chain, name of the innermost format-module function on its traceback, traceback text).
    armi wraps every failure of ISOTXS/PMATRX/COMPXS/DLAYXS into OSError; the mechanism is the exception underneath."""
    import traceback

    seen = set()
    while (e.__cause__ or e.__context__) is not None and id(e) not in seen:
        seen.add(id(e))
        e = e.__cause__ or e.__context__
    frames = traceback.extract_tb(e.__traceback__)
    fm = [f for f in frames if "/nuclearDataIO/" in f.filename.replace(os.sep, "/")]
    pick = [f for f in fm if os.path.basename(f.filename) != "cccc.py"] or fm
    func = pick[-1].name if pick else "harness"
    return e, func, "".join(traceback.format_exception(type(e), e, e.__traceback__))


def compxs_d2_over_d1(image, lib):
    """The synthetic COMPXS image with the D2 multiplier copied over the D1 multiplier in every group record
    (group record layout per the DIF3D COMPXS description: 4 principal xs, [fission, nu-fission, chi(ICHI)], scatter band, PC, A1, B1, A2, B2, A3, B3, ...)."""
    b = bytearray(image)
    pl = scan_records(image)
    starts, pos = [], 0
    for p in pl:
        starts.append(pos + 4)
        pos += 8 + p
    ng = lib.compxsMetadata["numGroups"]
    for ri, reg in enumerate(lib.regions):
        md = reg.metadata
        for grp in range(ng):
            r = 2 + ri * (1 + ng) + 1 + grp
            off = 32 + ((16 + 8 * md["chiFlag"]) if md["chiFlag"] else 0) + 8 * (int(md["numUpScatterGroups"][grp]) + 1 + int(md["numDownScatterGroups"][grp])) + 8
            a = starts[r] + off
            b[a:a + 8] = b[a + 16:a + 24]
    return bytes(b)


def gen_fixsrc(fmt, rng, rec, w, ci):
    import numpy as np
    from vlib import env

    shape = tuple(rng.choice([1, 2, 3, 4]) for _ in range(4))
    arr = np.array([nice_f64(rng) for _ in range(shape[0] * shape[1] * shape[2] * shape[3])]).reshape(shape)
    w["header"] = {"ninti": shape[0], "nintj": shape[1], "nintk": shape[2], "ngroup": shape[3]}
    rec.hit("gen.container")
    rec.hit("gen.image-reproduced", 0)
    nrec = roundtrips(fmt, arr, rec, w, sized=shape)
    # the module-level reader must return what the module-level writer wrote
    try:
        with env.quiet():
            fmt.mod.writeBinary("fx.bin", arr)
            back = fmt.mod.readBinary("fx.bin")
        if diff(norm(arr), norm(back)):
            rec.violation("roundtrip/fixsrc/readBinary-differs", "fixsrc.readBinary(writeBinary(a)) != a", w)
    except IndexError as e:
        rec.violation("fixsrc/readBinary-cannot-size-array", "fixsrc.readBinary raises IndexError on any file fixsrc.writeBinary produced: it reads into a (0,0,0,0) array "
                      "and never allocates it from the 1D record (a pre-sized FIXSRC stream reads the same file correctly)", dict(w, error=str(e)))
    except Exception as e:
        rec.crash("fixsrc/readBinary", e, w)
    rec.case(["gen", "fixsrc", shape], nontrivial=True, sample=dict(w, records=nrec) if ci == 0 else None)


class Reroute:
    """Recorder proxy for ISOTXS/GAMISO cases with NSBLOK>1 or LORD>1 (recorded finding: such scatter blocks are not read faithfully).
    Only what that mechanism explains is filed under its key: differences confined to the scatter (7D) records of a file, to the scatter matrices of the
    container, or failures inside the scatter-record code.  Anything else seen on such a case keeps its own key, so a different defect is not masked."""
    diff_limit = 200  # the attribution needs every difference, not the first four

    def __init__(self, rec, key, what, scatter_records):
        self._rec, self._key, self._what, self._scatter = rec, key, what, set(scatter_records)

    def __getattr__(self, name):
        return getattr(self._rec, name)

    def _explained(self, key, witness):
        witness = witness or {}
        head = key.split("/")[0]
        if head in ("rewrite", "cross"):
            rd = witness.get("records_differing")
            return bool(rd) and set(rd) <= self._scatter
        if head in ("read", "roundtrip"):
            d = witness.get("diffs")
            return bool(d) and all("Scatter" in x.split(":")[0] for x in d)
        return False

    def violation(self, key, what, witness=None):
        if self._explained(key, witness):
            self._rec.add("explained-by-known-mechanism:" + "/".join(key.split("/")[::2]), 1)
            if witness and "diffs" in witness:
                witness = dict(witness, diffs=witness["diffs"][:6])
            self._rec.violation(self._key, "%s [%s: %s]" % (self._what, key, str(what)[:300]), witness)
        else:
            self._rec.add("not-explained-by-known-mechanism:" + key, 1)
            self._rec.violation(key, what, witness)

    def crash(self, where, exc, witness=None):
        import traceback

        tb = "".join(traceback.format_exception(type(exc), exc, exc.__traceback__)) + str(exc)
        if "_rw7DRecord" in tb or "ScatterMatrix" in tb:
            self._rec.add("explained-by-known-mechanism:crash/" + where, 1)
            self._rec.violation(self._key, "%s [crash at %s: %s %s]" % (self._what, where, type(exc).__name__, str(exc)[-200:]), witness)
        else:
            self._rec.add("not-explained-by-known-mechanism:crash/" + where, 1)
            self._rec.crash(where, exc, witness)


# ============================================================================ environment, plan, dispatch
def make_env():
    from armi.nucDirectory import nuclideBases as nb
    from armi.nuclearDataIO.cccc import cccc

    labels, name_of = [], {}
    for n in nb.instances:
        if isinstance(n, nb.NuclideBase) and len(n.label) == 4 and " " not in n.label and nb.byLabel.get(n.label) is n and nb.byName.get(n.name) is n and len(n.name) <= 8:
            labels.append(n.label)
            name_of[n.label] = n.name
    mcc3, seen = [], set()
    for k, v in sorted(nb.byMcc3Id.items()):
        if id(v) not in seen and k != "DUMMY" and len(k) <= 8 and k == k.rstrip():
            seen.add(id(v))
            mcc3.append(k)
    return {"cccc": cccc, "GenReader": make_gen_reader(cccc), "pool": {"labels": sorted(labels), "name_of_label": name_of, "mcc3": mcc3}}


def all_formats(env):
    return [RtfluxFmt(env), RtfluxFmt(env, adjoint=True), PwdintFmt(env), RzfluxFmt(env),
            NhfluxFmt(env, False, False), NhfluxFmt(env, True, False), NhfluxFmt(env, False, True), NhfluxFmt(env, True, True),
            GeodstFmt(env), Dif3dFmt(env), LabelsFmt(env), IsotxsFmt(env, "isotxs"), IsotxsFmt(env, "gamiso"), PmatrxFmt(env),
            CompxsFmt(env), DlayxsFmt(env), FixsrcFmt(env)]


GEN_SHARDS = [("rtflux", ["rtflux", "atflux"]), ("pwdint", ["pwdint"]), ("rzflux", ["rzflux"]),
              ("nhflux", ["nhflux", "naflux", "nhflux-variant", "naflux-variant"]), ("geodst", ["geodst"]), ("dif3d", ["dif3d"]),
              ("labels", ["labels"]), ("isotxs", ["isotxs"]), ("gamiso", ["gamiso"]), ("pmatrx", ["pmatrx"]), ("compxs", ["compxs"]),
              ("dlayxs", ["dlayxs"]), ("fixsrc", ["fixsrc"])]


def plan(tier, seed):
    q = tier == "quick"
    shards = [{"name": "records-%d" % i, "kind": "records", "n": 2000 if q else 17000} for i in range(1 if q else 3)]
    shards.append({"name": "records-big", "kind": "bigrecords", "repeat": 1 if q else 3})
    shards.append({"name": "fixtures-isotxs", "kind": "fixtures", "formats": ["isotxs"]})
    shards.append({"name": "fixtures-xs", "kind": "fixtures", "formats": ["gamiso", "pmatrx", "compxs", "dlayxs"]})
    shards.append({"name": "fixtures-flux", "kind": "fixtures", "formats": ["rtflux", "pwdint", "rzflux", "nhflux", "nhflux-variant", "geodst", "dif3d", "labels"]})
    for name, fl in GEN_SHARDS:
        # compxs/pmatrx draw (at a low rate) regular headers armi cannot read today; a few more cases keep their round-trip coverage level
        per = (56 if name in ("compxs", "pmatrx") else 40) if q else 1500
        shards.append({"name": "gen-" + name, "kind": "generated", "formats": fl, "n": per * len(fl) if q else per * (2 if len(fl) > 1 else 1)})
    return shards


def run_shard(spec, rec):
    rng = random.Random(spec["rng"])
    {"records": do_records, "bigrecords": do_big_records, "fixtures": do_fixtures, "generated": do_generated}[spec["kind"]](spec, rec, rng)
