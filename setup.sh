#!/bin/sh
# Nothing to build: the machinery is pure Python run by /venv/bin/python against /repo's working tree.
# Sanity: the interpreter, armi from /repo, and the third-party packages the checks use are importable offline.
set -e
cd "$(dirname "$0")"
mkdir -p evidence replays
PYTHONPATH=/repo:/verif PYTHONDONTWRITEBYTECODE=1 /venv/bin/python - <<'PY'
import numpy, h5py, ruamel.yaml, voluptuous
import armi, os
assert os.path.realpath(armi.__file__).startswith("/repo/"), armi.__file__
print("setup ok: armi", armi.__version__, "numpy", numpy.__version__, "h5py", h5py.__version__)
PY
