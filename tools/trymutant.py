#!/usr/bin/env python3
"""Apply deliberate property-breaking edits (selftest/mutants.json) to a scratch worktree of /repo and
confirm the named check fires.  Usage: tools/trymutant.py [--prop C03] [--name substr] [--tier quick]
Each mutant: {"prop","name","file","old","new"}.  The worktree is removed afterwards."""
import argparse, json, os, subprocess, sys, tempfile, shutil

ROOT = os.path.dirname(os.path.dirname(os.path.abspath(__file__)))
ap = argparse.ArgumentParser()
ap.add_argument("--prop"); ap.add_argument("--name"); ap.add_argument("--tier", default="quick"); ap.add_argument("--save", action="store_true", help="record results in selftest/results/<prop>.json")
a = ap.parse_args()
muts = json.load(open(os.path.join(ROOT, "selftest", "mutants.json")))
res = []
for m in muts:
    if a.prop and m["prop"] != a.prop.upper():
        continue
    if a.name and a.name not in m["name"]:
        continue
    wt = tempfile.mkdtemp(prefix="wt-mut-")
    os.rmdir(wt)
    subprocess.run(["git", "-C", "/repo", "worktree", "add", "-q", "--detach", wt, "HEAD"], check=True)
    try:
        # carry uncommitted /repo edits too (normally none)
        p = os.path.join(wt, m["file"])
        s = open(p).read()
        if s.count(m["old"]) < 1:
            res.append((m, "STALE (pattern not found)")); continue
        open(p, "w").write(s.replace(m["old"], m["new"], m.get("count", 1)))
        env = dict(os.environ, VERIF_REPO=wt)
        r = subprocess.run([os.path.join(ROOT, "check"), m["prop"], "--tier", a.tier, "--no-evidence"], env=env, stdout=subprocess.PIPE, stderr=subprocess.STDOUT, cwd=ROOT)
        out = r.stdout.decode()
        keys = [l.strip() for l in out.splitlines() if l.strip().startswith("key=")]
        res.append((m, "exit=%d %s" % (r.returncode, "; ".join(k[:110] for k in keys[:3]) if keys else out.strip().splitlines()[-1][:200])))
    finally:
        subprocess.run(["git", "-C", "/repo", "worktree", "remove", "--force", wt])
        shutil.rmtree(wt, ignore_errors=True)
subprocess.run(["git", "-C", "/repo", "worktree", "prune"])
if a.save:
    head = subprocess.run(["git", "-C", "/repo", "rev-parse", "--short", "HEAD"], capture_output=True, text=True).stdout.strip()
    os.makedirs(os.path.join(ROOT, "selftest", "results"), exist_ok=True)
    byprop = {}
    for m, r in res:
        byprop.setdefault(m["prop"], []).append(dict({"name": m["name"], "file": m["file"], "caught": r.startswith("exit=1"), "result": r[:400]},
                                                     **({"note": m["note"], "as_expected": r.startswith("exit=%d" % m.get("expect", 1))} if m.get("note") else {})))
    for prop, lst in byprop.items():
        json.dump({"property": prop, "tier": a.tier, "repo_head": head, "mutants": lst, "caught": sum(x["caught"] for x in lst), "total": len(lst)},
                  open(os.path.join(ROOT, "selftest", "results", prop + ".json"), "w"), indent=1)
bad = 0
for m, r in res:
    caught = r.startswith("exit=1")
    bad += not (caught or (m.get("note") and r.startswith("exit=%d" % m.get("expect", 1))))
    print("%-4s %-45s %s  %s" % (m["prop"], m["name"], "CAUGHT" if caught else "MISSED", r))
sys.exit(1 if bad else 0)
