"""Observation function over a reactor model: what a user can see through the public API.

obs(root) -> list of node records in depth-first order (children visited in the order the node lists them).
diff(a, b) -> list of (key, message) differences; stored values compared exactly (NaN == NaN), recomputed
quantities (volume, mass) with a relative tolerance.
"""
import numpy as np

REL = 1e-9


def _norm(v):
    """JSON-ish normal form for parameter values: arrays -> ('nd', dtype kind, shape, list)."""
    if v is None or isinstance(v, (bool, str)):
        return v
    if isinstance(v, (int, float, np.integer, np.floating)):
        return float(v) if isinstance(v, (float, np.floating)) else int(v)
    if isinstance(v, np.ndarray):
        if v.dtype == object:
            return ("objarr", tuple(v.shape), tuple(_norm(x) for x in v.ravel().tolist()))
        return ("nd", v.dtype.kind, tuple(v.shape), tuple(v.ravel().tolist()))
    if isinstance(v, (list, tuple)):
        return ("seq", tuple(_norm(x) for x in v))
    if isinstance(v, dict):
        return ("dict", tuple(sorted((str(k), _norm(x)) for k, x in v.items())))
    if hasattr(v, "_value") or type(v).__name__ == "Flags":
        return ("flags", str(v))
    return ("repr", repr(v))


def values_equal(a, b, loose_seq=True):
    """Exact equality with NaN==NaN; a list and an ndarray of the same shape and values are the same (documented DB normalisation)."""
    if a is None or b is None:
        return a is None and b is None
    if isinstance(a, float) and isinstance(b, (float, int)) or isinstance(b, float) and isinstance(a, (float, int)):
        return (a != a and b != b) or a == b
    if isinstance(a, tuple) and isinstance(b, tuple) and a and b and a[0] in ("nd", "seq", "objarr") and b[0] in ("nd", "seq", "objarr") and loose_seq:
        fa, fb = _flat(a), _flat(b)
        if fa is None or fb is None:
            return a == b
        return fa[0] == fb[0] and len(fa[1]) == len(fb[1]) and all(values_equal(x, y) for x, y in zip(fa[1], fb[1]))
    if isinstance(a, tuple) and isinstance(b, tuple):
        return len(a) == len(b) and all(values_equal(x, y) for x, y in zip(a, b))
    return a == b


def _flat(t):
    """(shape, flat values) of a normalised array/sequence, or None if ragged"""
    if t[0] == "nd":
        return t[2], list(t[3])
    if t[0] == "objarr":
        return t[1], list(t[2])
    try:
        arr = np.array(_denorm(t), dtype=float)
        return tuple(arr.shape), arr.ravel().tolist()
    except Exception:
        return None


def _denorm(t):
    if isinstance(t, tuple) and t and t[0] == "seq":
        return [_denorm(x) for x in t[1]]
    if isinstance(t, tuple) and t and t[0] == "nd":
        return np.array(t[3]).reshape(t[2]).tolist()
    return t


def locator_obs(loc):
    from armi.reactor import grids

    if loc is None:
        return ("none",)
    if isinstance(loc, grids.MultiIndexLocation):
        return ("multi", tuple(tuple(int(x) for x in l.indices) for l in loc))
    if isinstance(loc, grids.CoordinateLocation):
        return ("coord", tuple(float(x) for x in loc.indices))
    return ("index", tuple(int(x) for x in loc.indices))


def coords_obs(o):
    """where the object is, through the public locator API (independent of how the grid stores its arguments)"""
    from armi.reactor import grids

    loc = o.spatialLocator
    try:
        if loc is None:
            return None
        if isinstance(loc, grids.MultiIndexLocation):
            return tuple(tuple(round(float(x), 9) for x in l.getLocalCoordinates()) for l in loc) if loc.grid is not None else ("detached",)
        if isinstance(loc, grids.CoordinateLocation):
            # a free coordinate is observed in its own frame: the database does not record whether the locator was
            # attached to the parent's grid (blueprint-built components are not, auto pin grids attach theirs)
            return ("local",) + tuple(float(x) for x in loc.getLocalCoordinates())
        if getattr(loc, "grid", None) is None:
            return ("detached",)
        return tuple(float(x) for x in loc.getGlobalCoordinates())
    except Exception as e:
        return ("raises", type(e).__name__)


def grid_obs(g):
    """What a user can see of a grid through its public API - deliberately NOT through reduce() (the thing the database
    stores), so that a stale or wrong reduce() shows up as a difference between the live grid and the loaded one."""
    if g is None:
        return None
    bounds = tuple(None if b is None else tuple(float(x) for x in b) for b in g.getBounds())
    probes = []
    for idx in ((0, 0, 0), (1, 0, 0), (0, 1, 0), (0, 0, 1), (2, 1, 0)):
        ok = all(b is None or 0 <= i_ < len(b) - 1 for i_, b in zip(idx, bounds))
        if not ok:
            probes.append(None)
            continue
        try:
            probes.append(tuple(round(float(x), 12) for x in g.getCoordinates(idx)))
        except Exception as e:
            probes.append(("raises", type(e).__name__))
    try:
        sym = str(g.symmetry) if g._symmetry else ""
    except Exception:
        sym = g._symmetry
    return (type(g).__name__, tuple(probes), bounds, _norm([list(x) for x in g.getIndexBounds()]),
            str(g.geomType) if g._geomType else "",  # the public property canonicalises e.g. hex_corners_up -> hex; orientation is in the probes
            sym, bool(g.isAxialOnly))


def params_obs(o, only_saved=True):
    from armi.reactor import parameters

    out = {}
    for pd in o.p.paramDefs:
        if only_saved and not pd.saveToDB:
            continue  # (never-assigned definitions are included: they hold their default on both sides of any comparison)
        if pd.name in ("serialNum",):
            continue
        if not hasattr(o.p, pd.fieldName):
            out[pd.name] = ("unset",)
            continue
        try:
            v = o.p[pd.name]
        except Exception as e:
            out[pd.name] = ("raises", type(e).__name__)
            continue
        from armi.reactor.components.component import _DimensionLink

        if isinstance(v, _DimensionLink):
            out[pd.name] = ("link", v[0].name, v[1])
        elif pd.name == "numberDensities" and isinstance(v, dict):
            out[pd.name] = ("dict", tuple(sorted((k, float(x)) for k, x in v.items())))
        else:
            out[pd.name] = _norm(v)
    return out


def node_obs(o, derived=True):
    from armi.reactor.components import Component

    rec = {"cls": type(o).__name__, "name": o.name, "serial": int(o.p.serialNum), "nchild": len(o),
           "loc": locator_obs(o.spatialLocator), "grid": grid_obs(getattr(o, "spatialGrid", None)), "params": params_obs(o)}
    rec["xyz"] = coords_obs(o)
    g_ = getattr(o, "spatialGrid", None)
    if g_ is not None:
        rec["gridoffset"] = tuple(float(x) for x in g_.offset)
    if isinstance(o, Component):
        rec["material"] = type(o.material).__name__
        rec["Tin"], rec["T"] = float(o.inputTemperatureInC), float(o.temperatureInC)
        dims = {}
        for k in o.DIMENSION_NAMES:
            v = o.p[k]
            from armi.reactor.components.component import _DimensionLink

            dims[k] = ("link", v[0].name, v[1], o.getDimension(k)) if isinstance(v, _DimensionLink) else ("val", v)
        rec["dims"] = dims
        rec["ndens"] = tuple(sorted((k, float(v)) for k, v in o.p.numberDensities.items()))
    if derived:
        try:
            rec["volume"] = float(o.getVolume())
            rec["mass"] = float(o.getMass())
        except Exception as e:
            rec["volume"] = rec["mass"] = ("raises", type(e).__name__)
    return rec


def obs(root, derived=True, sort=False):
    out = []

    def walk(o, depth):
        r = node_obs(o, derived)
        r["depth"] = depth
        out.append(r)
        kids = list(o)
        for k in kids:
            walk(k, depth + 1)

    walk(root, 0)
    return out


def diff(a, b, rel=REL, limit=20, ignore_params=()):
    """list of (mechanism key, message)"""
    out = []
    if len(a) != len(b):
        out.append(("tree/node-count", "node counts differ: %d vs %d" % (len(a), len(b))))
        na, nb = [(x["cls"], x["name"]) for x in a], [(x["cls"], x["name"]) for x in b]
        for i, (x, y) in enumerate(zip(na, nb)):
            if x != y:
                out.append(("tree/first-different-node", "node #%d: %s vs %s" % (i, x, y)))
                break
        return out
    for x, y in zip(a, b):
        where = "%s %s" % (x["cls"], x["name"])
        for f in ("cls", "name", "serial", "nchild", "depth", "loc", "grid", "material", "Tin", "T", "ndens"):
            if f in x or f in y:
                if not values_equal(_t(x.get(f)), _t(y.get(f)), loose_seq=False) and x.get(f) != y.get(f):
                    out.append(("%s/%s" % (f, x["cls"]), "%s: %s differs: %r vs %r" % (where, f, _s(x.get(f)), _s(y.get(f)))))
        if "dims" in x or "dims" in y:
            dx, dy = x.get("dims", {}), y.get("dims", {})
            for k in sorted(set(dx) | set(dy)):
                if dx.get(k) != dy.get(k):
                    out.append(("dimension/%s/%s" % (x["cls"], k), "%s: dimension %s differs: %r vs %r" % (where, k, dx.get(k), dy.get(k))))
        for f in ("xyz", "gridoffset"):
            if f in x or f in y:
                u, v = x.get(f), y.get(f)
                ok = u == v
                if not ok and isinstance(u, tuple) and isinstance(v, tuple) and len(u) == len(v) and u[:1] == v[:1] == ("local",):
                    u, v = u[1:], v[1:]
                if not ok and isinstance(u, tuple) and isinstance(v, tuple) and len(u) == len(v) and all(isinstance(q, float) for q in u + v):
                    sc = max([abs(q) for q in u + v] + [1.0])
                    ok = all(abs(p_ - q) <= 1e-9 * sc for p_, q in zip(u, v))
                if not ok:
                    out.append(("%s/%s" % (f, x["cls"]), "%s: %s differs: %r vs %r" % (where, f, _s(u), _s(v))))
        for f in ("volume", "mass"):
            if f in x and f in y:
                u, v = x[f], y[f]
                if isinstance(u, float) and isinstance(v, float):
                    if abs(u - v) > rel * max(abs(u), abs(v)) + 1e-300:
                        out.append(("%s/%s" % (f, x["cls"]), "%s: %s differs: %r vs %r" % (where, f, u, v)))
                elif u != v:
                    out.append(("%s/%s" % (f, x["cls"]), "%s: %s differs: %r vs %r" % (where, f, u, v)))
        px, py = x["params"], y["params"]
        for k in sorted(set(px) | set(py)):
            if k in ignore_params:
                continue
            if k not in px or k not in py:
                out.append(("param-presence/%s/%s" % (x["cls"], k), "%s: parameter %s observed on one side only (%r vs %r)" % (where, k, _s(px.get(k, "<absent>")), _s(py.get(k, "<absent>")))))
            elif not values_equal(px[k], py[k]):
                out.append(("param/%s/%s" % (x["cls"], k), "%s: parameter %s differs: %r vs %r" % (where, k, _s(px[k]), _s(py[k]))))
        if len(out) >= limit:
            break
    return out


def _t(v):
    return v


def _s(v):
    s = repr(v)
    return s if len(s) < 700 else s[:697] + "..."
