#!/usr/bin/env python3
"""Validate MANIFEST.json and every evidence file against the harness schemas (run with python3-vt)."""
import glob, json, os, sys
import jsonschema
ROOT = os.path.dirname(os.path.dirname(os.path.abspath(__file__)))
ok = True
jsonschema.validate(json.load(open(ROOT + "/MANIFEST.json")), json.load(open("/root/.vp/MANIFEST.schema.json")))
es = json.load(open("/root/.vp/EVIDENCE.schema.json"))
for f in sorted(glob.glob(ROOT + "/evidence/*.json")):
    try:
        d = json.load(open(f))
        jsonschema.validate(d, es)
        c = d["coverage"]
        print("%s ok tier=%s ev=%d distinct=%d verdict=%s wall=%.0fs" % (os.path.basename(f), d["tier"], c["evaluations"], c["distinct_nontrivial"], c.get("verdict"), d["wall_s"]))
    except Exception as e:
        ok = False
        print(f, "INVALID", str(e)[:300])
sys.exit(0 if ok else 1)
