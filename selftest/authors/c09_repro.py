import io, os, struct, sys, tempfile
sys.path.insert(0, os.environ.get("VERIF_REPO", "/repo")); os.chdir(tempfile.mkdtemp())
import numpy as np
from armi.nuclearDataIO.cccc import cccc, fixsrc, dlayxs, geodst, compxs, dif3d
R = "/repo/armi/"
# 1 rwLong framing
s = io.BytesIO()
with cccc.BinaryRecordWriter(s) as w: w.rwInt(1); w.rwLong(2**40)
print("1 rwLong: counts", struct.unpack("i", s.getvalue()[:4])[0], "payload", len(s.getvalue()) - 8)
# 2 ASCII 10-digit int
s = io.StringIO()
with cccc.AsciiRecordWriter(s) as w: w.rwInt(10**9); w.rwInt(7)
s.seek(0)
try:
    with cccc.AsciiRecordReader(s) as r: print("2", r.rwInt(None), r.rwInt(None))
except Exception as e: print("2 ascii int 1e9:", type(e).__name__)
d = dif3d.Dif3dStream.readBinary(R + "nuclearDataIO/cccc/tests/fixtures/simple_hexz.dif3d"); dif3d.Dif3dStream.writeAscii(d, "d.asc")
try: dif3d.Dif3dStream.readAscii("d.asc"); print("2b ok")
except Exception as e: print("2b shipped DIF3D file (LIMTIM=1000000000) -> writeAscii -> readAscii:", type(e).__name__)
# 3 ASCII double 3-digit exponent
s = io.StringIO()
with cccc.AsciiRecordWriter(s) as w: w.rwDouble(1e100); w.rwInt(7)
s.seek(0)
try:
    with cccc.AsciiRecordReader(s) as r: print("3", r.rwDouble(None), r.rwInt(None))
except Exception as e: print("3 ascii double 1e100:", type(e).__name__)
# 4 FIXSRC
fixsrc.writeBinary("F", np.ones((2, 2, 1, 1)))
try: print("4", fixsrc.readBinary("F").shape)
except Exception as e: print("4 fixsrc.readBinary(own output):", type(e).__name__, e)
# 5 DLAYXS ascii
dl = dlayxs.readBinary(R + "nuclearDataIO/cccc/tests/fixtures/mc2v3.dlayxs"); dlayxs.writeAscii(dl, "dl.asc")
try: dlayxs.readAscii("dl.asc"); print("5 ok")
except Exception as e: print("5 dlayxs.readAscii(writeAscii(shipped file)):", type(e).__name__)
# 6 GEODST 1-D
g = geodst.readBinary(R + "nuclearDataIO/cccc/tests/fixtures/simple_hexz.geodst")
g.metadata["IGOM"] = 1; g.xmesh = g.xmesh; geodst.writeBinary(g, "G1"); n1 = os.path.getsize("G1")
g.metadata["IGOM"] = 18; geodst.writeBinary(g, "G18")
print("6 GEODST IGOM=1 file is", os.path.getsize("G18") - n1, "bytes shorter than IGOM=18: no mesh record at all; xmesh read back:", geodst.readBinary("G1").xmesh)
# 7 COMPXS d1/d2 multiplier
c = compxs.readAscii(R + "tests/COMPXS.ascii"); r0 = c.regions[0]
print("7 COMPXS region metadata keys:", [k for k in r0.metadata.keys() if "ultiplier" in str(k)], "(no d2Multiplier; d1Multiplier holds the D2 value)")
