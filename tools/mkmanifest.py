#!/usr/bin/env python3
"""Generate /verif/MANIFEST.json from the table below (single source of truth) and validate it."""
import json
import os
import sys

ROOT = os.path.dirname(os.path.dirname(os.path.abspath(__file__)))
sys.path.insert(0, ROOT)
from tools.manifest_table import CHECKS, NOT_APPLICABLE  # noqa: E402

m = {
    "version": 1,
    "setup_cmd": "cd /verif && ./setup.sh",
    "hooks": {
        "guard": "ARMI_VERIF",
        "enable": "none needed: monitors are installed from the harness side by wrapping the real armi methods in the check "
                  "process (vlib/hooks.py); no guarded source change exists in /repo, so the guard is reserved and unused",
        "baseline_off_cmd": "cd /repo && env -u ARMI_VERIF /venv/bin/python -m pytest -ra -q -p no:cacheprovider --timeout=900 --continue-on-collection-errors",
        "source_commits": [],
        "add_only": True,
    },
    "engines": [{
        "name": "vlib", "path": "/verif/vlib",
        "serves_properties": [c["property_id"] for c in CHECKS],
        "kind_free_text": "runtime monitoring: seeded hostile workloads drive the real armi code in fresh interpreters (one per shard); "
                          "invariant hooks, reference-model oracles and offline checkers over recorded event logs decide; three-valued verdicts",
    }],
    "checks": [],
    "notes": "All checks: ./check <ID> [--tier quick|thorough]; VERIF_SEED selects the workload seed. Exit 0 held, 1 violation, 2 inconclusive "
             "(a deciding monitor was not reached or a shard died). Known findings: known_findings.json. See DESIGN.md.",
    "not_applicable": NOT_APPLICABLE,
}
for c in CHECKS:
    pid = c["property_id"]
    m["checks"].append({
        "property_id": pid,
        "quick_cmd": "./check %s --tier quick" % pid,
        "thorough_cmd": "./check %s --tier thorough" % pid,
        "evidence_file": "/verif/evidence/%s.json" % pid,
        "replay_cmd_template": "./check %s --replay {path}" % pid,
        "engine": "vlib",
        "level_claimed": {"category": c.get("category", "exploration"), "text": c["text"], "design_ref": "DESIGN.md section 4, " + pid},
        "level_note": c["note"],
        "technique": c["technique"],
    })
json.dump(m, open(os.path.join(ROOT, "MANIFEST.json"), "w"), indent=1)
try:
    import jsonschema
    jsonschema.validate(m, json.load(open("/root/.vp/MANIFEST.schema.json")))
    print("MANIFEST.json valid; %d checks, %d not_applicable" % (len(m["checks"]), len(NOT_APPLICABLE)))
except ImportError:
    print("written (jsonschema not importable here)")
