"""C15 - a run visits every time node once, in order, calling hooks in stack order.

Workload: the real ``armi.operators.operator.Operator`` main loop on the smallest test reactor. The stock
interface stack is replaced by 2-7 *recording interfaces* (subclasses of ``armi.interfaces.Interface``, one
level of further subclasses, functions partly drawn from a shared pool so that the rules for an already-taken
function are reached) with generated order / enabled / bolForce / reverseAtEOL / deferral / halting / return
values / scripted tight-coupling convergence on scalar, 1-D and 2-D coupling values (moves far from and right
at the tolerance).  Cycle histories are generated as an *intended history* (steps, availability,
power fractions per cycle) and then encoded in one of armi's input styles.

Oracle: ``reference()`` below - an independent scheduler written from the property statement - produces
the expected hook trace (interface, hook, arguments, r.p.cycle, r.p.timeNode); the recorded trace must be
equal.  The intended history (the generator's own spec) is the oracle for the history getters, and a naive
enumeration of (cycle, node) pairs is the oracle for the node/step arithmetic (exhaustive per history).
"""
import random

PROP = "C15"
LEVEL = "exploration"
RULE = (
    "a case = one generated configuration: cycle history (simple or detailed input style, 1-6 cycles [arith shards up to 14], "
    "0-4 burn steps per cycle, R-repeat encodings) x restart point x tight-coupling settings (on/off, cap 1-4, exempt cycles) x "
    "deferral (names, cycle) x interface stack (2-7 recording interfaces + optional 'database' stub + optional dependencies: "
    "insertion index, enabled, bolForce, reverseAtEOL, coupler with a scripted convergence bit string, return values, halting BOCs). "
    "Every case is run through Operator.operate() and its hook trace compared with the reference scheduler; every (cycle,node) and "
    "every cumulative step of its history is checked against the naive enumeration. distinct = distinct normal form of the "
    "configuration without float values; trivial = one cycle, no burn steps, all interfaces plain. "
    "Interface functions: in part of the configurations the interfaces draw their 'function' from a pool of 1-3 shared names and their class from "
    "{RecIface, two unrelated subclasses}, so that addInterface's rules for an already-taken function are reached (more derived class replaces the attached one, "
    "less derived one is left out, unrelated classes are refused with RuntimeError = counted as rejected, stack must be unchanged by the refused call; a second "
    "interface of the SAME class and function may be left out or refused); dependency classes carry a function and are satisfied by an attached interface of "
    "that name or of that function. Coupling values: python float, int, list, 1-D numpy array, list of lists (also ragged), 2-D numpy array; each coupled call "
    "moves the value as scripted (unchanged / one entry by tolerance -+ 2**-20 / by exactly the tolerance / by twice the tolerance / two entries of a row / one entry "
    "in each of two rows) and the reference scheduler decides convergence from the script label alone (documented norms: |d| for scalars, L2 for vectors, maximum of the "
    "row-wise L2 norms for lists of lists; converged = below the tolerance); a move by exactly the tolerance is accepted under both readings and counted as unjudged when "
    "only the 'converged' reading fits; 2-D numpy arrays only get single-entry moves (armi measures them with the matrix 2-norm; for one moved entry it equals the "
    "documented norm); 6% of the non-scalar couplers update ONE container in place (the natural numpy idiom) instead of building a new one. "
    "Judged domain: availability factors in (0,1]; list settings of the right length; histories armi refuses are counted as rejected and not "
    "judged (simple input burnSteps=0 with nCycles>1 -> ValueError; detailed input 'burn steps: 0' -> ZeroDivisionError); deferral "
    "(deferredInterfaceNames/deferredInterfacesCycle) acts at BOL and BOC only and is judged everywhere it is documented: not called at BOL while deferral is "
    "pending, not called at BOC before the deferral cycle, called at BOC from it on ('will begin normal operations on this cycle number'), and called at "
    "EveryNode/Coupled/EOC/EOL throughout (armi's own test_getActiveInterfaces requires a deferred interface in the EveryNode set while deferral is pending; "
    "getActiveInterfaces consults its cycle argument for BOC only); deferred interfaces carry couplers and arbitrary return values like any other. Only the BOL "
    "call of a deferred interface when the deferral cycle is already reached at the start of the run stays unjudged (undocumented; counted). "
    "Exclusion lists are judged only through the entry points that accept them (BOL, EveryNode, EOC, EOL)."
)
TOLERANCES = {"history_float_rel": 1e-9}
EXHAUSTIVE = {"quick": False, "thorough": False}
EXHAUSTIVE_PART = "per generated history: every (cycle,node), every cumulative node number and every cumulative step number"
TIMEOUT = {"quick": 600, "thorough": 3600}
FLOORS = {
    "quick": {
        "trace.compare": 9333, "trace.events": 533333, "arith.node": 86666, "arith.step": 60000, "arith.sum-law": 26666,
        "history.getters": 9333, "run.restart": 2000, "run.coupled-iterations": 1666, "run.nonconverged-cap": 1666, "run.exempt-cycle": 800,
        "run.halt": 1333, "run.deferred": 2333, "run.reverseAtEOL": 2666, "run.bolForce": 3333, "run.disabled-interface-with-an-earlier-bolForce-not-forced-now": 1000, "run.zero-step-cycle": 2000,
        "run.dependencies": 2000, "active.direct": 26666, "excluded.direct": 18666, "node.state": 66666, "arith.visit-order": 9333,
        "stack.order": 9333, "stack.duplicate": 1666,
        # couplers by shape of the coupling value (moved = scripted steps that must NOT count as converged), threshold probes, norm laws
        "coupler.scalar.moved": 11500, "coupler.1d.moved": 11000, "coupler.2d.moved": 7400, "coupler.2d-ndarray.moved": 3600,
        "coupler.scalar.below": 3600, "coupler.scalar.above": 2800, "coupler.1d.below": 3600, "coupler.1d.above": 2200,
        "coupler.2d.below": 1900, "coupler.2d.above": 1400, "coupler.1d.multi": 3400, "coupler.2d.multi": 1900, "coupler.2d.rows": 2500,
        # deferred interfaces called (and judged) at EveryNode/Coupled/EOC/EOL before their cycle
        "deferred.called-before-cycle": 18500,
        # addInterface / dependency rules for an already-taken function
        "stack.function-replaced": 380, "stack.function-ignored": 540, "stack.function-clash": 275, "stack.dependency-by-function": 2400,
    },
    "thorough": {
        "trace.compare": 140000, "trace.events": 8000000, "arith.node": 1300000, "arith.step": 900000, "arith.sum-law": 400000,
        "history.getters": 140000, "run.restart": 30000, "run.coupled-iterations": 25000, "run.nonconverged-cap": 25000, "run.exempt-cycle": 12000,
        "run.halt": 20000, "run.deferred": 35000, "run.reverseAtEOL": 40000, "run.bolForce": 50000, "run.disabled-interface-with-an-earlier-bolForce-not-forced-now": 15000, "run.zero-step-cycle": 30000,
        "run.dependencies": 30000, "active.direct": 400000, "excluded.direct": 280000, "node.state": 1000000, "arith.visit-order": 140000,
        "stack.order": 140000, "stack.duplicate": 25000,
        "coupler.scalar.moved": 172500, "coupler.1d.moved": 165000, "coupler.2d.moved": 111000, "coupler.2d-ndarray.moved": 54000,
        "coupler.scalar.below": 54000, "coupler.scalar.above": 42000, "coupler.1d.below": 54000, "coupler.1d.above": 33000,
        "coupler.2d.below": 28500, "coupler.2d.above": 21000, "coupler.1d.multi": 51000, "coupler.2d.multi": 28500, "coupler.2d.rows": 37500,
        "deferred.called-before-cycle": 277500,
        "stack.function-replaced": 5700, "stack.function-ignored": 8100, "stack.function-clash": 4125, "stack.dependency-by-function": 36000,
    },
}
ASSUMPTIONS = [
    "the Operator is a subclass of armi's Operator overriding only createInterfaces() (the documented extension point) so that the "
    "generated stack is built through addInterface()/initializeInterfaces(); all judged methods are armi's own",
    "one Operator and one Settings object are reused across configurations of a shard (settings assigned through cs[key]=value, the "
    "operator's cached cycle attributes reset to None); every 40th configuration uses a freshly constructed Operator as a cross-check",
    "restart is emulated the way armi's MainInterface does it: r.p.cycle/timeNode are set from startCycle/startNode before the run or by "
    "an interface during BOL",
    "coupling values are small dyadic numbers and every scripted move is a dyadic step, so 'tolerance -+ 2**-20' is exact in floating point and the "
    "norms armi computes (|d|, sqrt(d*d)) are exact for a single moved entry",
    "python logging is disabled in the shard process and armi's master code timer is emptied every 500 configurations (observational only)",
]

HOOKS = ("BOL", "BOC", "EveryNode", "Coupled", "EOC", "EOL")
FALSY = [None, False, 0, "", []]
TRUTHY = [True, 1, "halt", [0], 2.5]
POOL = ["fnP", "fnQ", "fnR"]      # shared interface 'function' names
# What a scripted coupling step means for convergence (the generator's own spec; the tolerance is the coupler's):
#   same  - value unchanged                                   -> converged
#   below - one entry moves by tolerance - 2**-20              -> converged
#   at    - one entry moves by exactly the tolerance           -> not fixed by the documentation ("allowable error" vs armi's eps < tolerance): both readings accepted
#   above - one entry moves by tolerance + 2**-20              -> not converged
#   far   - one entry moves by twice the tolerance             -> not converged
#   multi - two entries of one row move by 0.75 tolerance each -> L2 norm 1.06 tolerance: not converged (doc/user/physics_coupling.rst: L2 norm of the difference)
#   rows  - one entry in each of two rows moves by 0.75 tol    -> every row's L2 norm is 0.75 tolerance, their maximum too: converged (same document: infinity norm over rows)
CONVERGED_LABELS = ("same", "below", "rows")
SHAPE_CLASS = {"float": "scalar", "int": "scalar", "list": "1d", "array": "1d", "list2": "2d", "array2": "2d-ndarray"}


def plan(tier, seed):
    q = tier == "quick"
    n = 1600 if q else 30000
    kinds = ["mix"] * 7 + ["coupled"] * 3 + ["restart"] * 2 + ["stack"] * 2 + ["arith"] * 2
    return [{"name": "%s-%02d" % (k, i), "kind": k, "n": n if k != "arith" else n // 2} for i, k in enumerate(kinds)]


# ============================================================================ generators
def close(a, b, rel=1e-9):
    try:
        a, b = float(a), float(b)
    except (TypeError, ValueError):
        return False
    return abs(a - b) <= rel * max(abs(a), abs(b)) + 1e-300


def rand_series(rng, n, draw):
    pool = [draw() for _ in range(rng.randint(1, 3))]
    return [rng.choice(pool) for _ in range(n)]


def tok(rng, v):
    r = rng.random()
    if r < 0.4:
        return v
    if r < 0.5 and float(v) == int(v):
        return int(v)
    return repr(v)


def encode_R(rng, vals):
    """Run-length encode with armi's MCNP-like repeat tokens: 'kR' = k more copies of the previous value."""
    out, i = [], 0
    while i < len(vals):
        j = i
        while j + 1 < len(vals) and vals[j + 1] == vals[i]:
            j += 1
        run = j - i + 1
        out.append(tok(rng, vals[i]))
        if run > 1:
            if rng.random() < 0.75:
                k = rng.randint(1, run - 1)
                out.append("%d%s" % (k, rng.choice("RRr")))
                out += [tok(rng, vals[i]) for _ in range(run - 1 - k)]
            else:
                out += [tok(rng, vals[i]) for _ in range(run - 1)]
        i = j + 1
    return out


def draw_af(rng, zero_ok=False):
    # 0.0: an all-outage (decay only) cycle is a legal boundary of the simple inputs (schema Range(min=0)); the detailed "cycles" input
    # derives the cycle length as sum(steps) / availability, so zero is outside its domain (armi raises ZeroDivisionError)
    return rng.choice([1.0, 1.0, 0.9, 0.75, 0.5, round(rng.uniform(0.05, 1.0), 4)] + ([0.0] if zero_ok else []))


def draw_pf(rng):
    return rng.choice([1.0, 1.0, 0.5, 0.0, round(rng.uniform(0.0, 1.0), 3)])


def draw_days(rng):
    return rng.choice([1.0, 30.0, 365.25, round(10 ** rng.uniform(-1, 3), 3), rng.uniform(0.5, 900)])


def gen_history(rng, kind):
    """Return (intended history, settings dict). Intended history: per cycle steps/af/length/pf/name."""
    big = kind == "arith"
    nC = rng.choice([1, 1, 2, 2, 2, 3, 3, 4, 5, 6]) if not big else rng.randint(1, 14)
    style = rng.choice(["simple", "simple", "detailed", "detailed", "detailed"])
    H = {"style": style, "nCycles": nC, "steps": [], "af": [], "len": [], "pf": [], "names": [], "kinds": []}
    S = {"nCycles": nC, "burnSteps": 4, "cycleLength": 365.242199, "cycleLengths": [], "availabilityFactor": 1.0,
         "availabilityFactors": [], "powerFractions": [], "cycles": []}
    if style == "simple":
        bs = rng.choice([0, 1, 1, 2, 2, 3, 4])
        if bs == 0 and nC > 1 and rng.random() < 0.8:
            nC = H["nCycles"] = S["nCycles"] = 1  # keep most zero-burn-step simple inputs in the accepted domain
        S["burnSteps"] = bs
        if rng.random() < 0.5:
            lens = rand_series(rng, nC, lambda: draw_days(rng))
            S["cycleLengths"] = encode_R(rng, lens)
        else:
            L = draw_days(rng)
            lens = [L] * nC
            S["cycleLength"] = L
        if rng.random() < 0.5:
            afs = rand_series(rng, nC, lambda: draw_af(rng, True))
            S["availabilityFactors"] = encode_R(rng, afs)
        else:
            a = draw_af(rng, True)
            afs = [a] * nC
            S["availabilityFactor"] = a
        r = rng.random()
        if r < 0.5:
            pfs = rand_series(rng, nC, lambda: draw_pf(rng))
            S["powerFractions"] = encode_R(rng, pfs)
        else:
            pfs = [1.0] * nC
            S["powerFractions"] = [] if r < 0.85 else None
        for c in range(nC):
            H["steps"].append([lens[c] * afs[c] / bs] * bs if bs else [])
            H["af"].append(afs[c])
            H["len"].append(lens[c])
            H["pf"].append([pfs[c]] * bs)
            H["names"].append(None)
            H["kinds"].append("simple")
    else:
        cyc = []
        for c in range(nC):
            d = {}
            af = 1.0
            if rng.random() < 0.6:
                af = draw_af(rng)
                d["availability factor"] = af
            k = rng.choice(["step days", "step days", "cumulative days", "uniform", "uniform"])
            if k == "step days":
                steps = rand_series(rng, rng.choice([0, 1, 1, 2, 2, 3, 4]), lambda: draw_days(rng))
                d["step days"] = encode_R(rng, steps)
                length = sum(steps) / af
            elif k == "cumulative days":
                raw = [draw_days(rng) for _ in range(rng.choice([0, 1, 2, 2, 3, 4]))]
                cum, t = [], 0.0
                for x in raw:
                    t = t + x
                    cum.append(t)
                if cum and rng.random() < 0.3:
                    cum = [float(round(x)) + i for i, x in enumerate(cum)]  # integers, still strictly increasing
                    cum = [int(x) if rng.random() < 0.5 else x for x in cum]
                d["cumulative days"] = list(cum)
                steps = [float(x) - (float(cum[i - 1]) if i else 0.0) for i, x in enumerate(cum)]
                length = (float(cum[-1]) if cum else 0.0) / af
            else:
                bs = rng.choice([1, 1, 2, 3, 4]) if rng.random() > 0.04 else 0
                L = draw_days(rng)
                d["burn steps"] = bs
                d["cycle length"] = L
                steps = [L * af / bs] * bs if bs else []
                length = L
            if rng.random() < 0.5:
                pf = rand_series(rng, len(steps), lambda: draw_pf(rng))
                d["power fractions"] = encode_R(rng, pf)
            else:
                pf = [1.0] * len(steps)
            name = None
            if rng.random() < 0.3:
                name = "cyc%d" % c
                d["name"] = name
            cyc.append(d)
            H["steps"].append(steps)
            H["af"].append(af)
            H["len"].append(length)
            H["pf"].append(pf)
            H["names"].append(name)
            H["kinds"].append(k if steps or k != "uniform" else "uniform-zero")
        S["cycles"] = cyc
    H["bs"] = [len(s) for s in H["steps"]]
    return H, S


def step_of(label, tol, shape):
    """Size of the move that a script label stands for. All values are dyadic so that value +- step is exact in floating point."""
    if shape == "int":   # tolerance 2.0
        return {"same": 0, "below": 1, "at": 2, "above": 3, "far": 5}[label]
    d = 2.0 ** -20
    return {"same": 0.0, "below": tol - d, "at": tol, "above": tol + d, "far": 2 * tol, "multi": 0.75 * tol, "rows": 0.75 * tol}[label]


def gen_coupler(rng, s, boundaryRun, tolS):
    """Coupler of one interface: the shape of the coupling value, the tolerance and a script of moves (labels, see CONVERGED_LABELS)."""
    shape = rng.choice(["float", "float", "int", "list", "list", "array", "list2", "list2", "array2"])
    via = "settings" if s["function"] and shape != "int" and rng.random() < 0.5 else "direct"
    tol = tolS if via == "settings" else 2.0 if shape == "int" else rng.choice([0.5, 0.5, 0.25, 1.0])
    dims = {"float": [], "int": [], "list": [rng.randint(1, 4)], "array": [rng.randint(1, 4)],
            "list2": [rng.randint(1, 3), rng.randint(1, 3)], "array2": [rng.randint(1, 3), rng.randint(1, 3)]}[shape]
    # a 2-D numpy array is a supported value type, but armi measures it with the matrix 2-norm instead of the documented row-wise norm; the two
    # agree when a single entry moves by a clear margin, so such couplers only get 'same'/'far' steps (declared restriction)
    fine = boundaryRun and shape != "array2"
    conv = ["same"] + (["below", "below"] if fine else []) + (["rows"] if shape == "list2" and dims[0] >= 2 else [])
    notc = ["far"] + (["above", "above"] if fine else []) + (["multi"] if shape in ("list", "array", "list2") and dims[-1] >= 2 else [])
    p = rng.choice([0.3, 0.6, 0.9])
    script = []
    for _ in range(rng.randint(1, 7)):
        if fine and rng.random() < 0.08:
            script.append("at")
        else:
            script.append(rng.choice(conv) if rng.random() < p else rng.choice(notc))
    # in-place update: the interface keeps ONE container, changes its entries and hands that same object out every time
    inplace = shape in ("list", "array", "list2", "array2") and "at" not in script and rng.random() < 0.06
    return {"script": script, "via": via, "shape": shape, "dims": dims, "tol": tol, "inplace": inplace,
            "ragged": shape == "list2" and dims[0] >= 2 and rng.random() < 0.3}


def gen_config(rng, kind, idx):
    H, S = gen_history(rng, kind)
    nC, bs = H["nCycles"], H["bs"]
    cfg = {"kind": kind, "history": H, "settings": S}
    # ---- restart point
    sc, sn = 0, 0
    if rng.random() < (0.7 if kind == "restart" else 0.2):
        sc = rng.randrange(nC)
        sn = rng.randint(0, bs[sc])
    cfg["start"] = [sc, sn]
    S["startCycle"], S["startNode"] = sc, sn
    # ---- interfaces
    n = rng.randint(2, 7) if kind != "arith" else 2
    tc = rng.random() < (1.0 if kind == "coupled" else 0.3 if kind != "arith" else 0.0)
    truthyRun = rng.random() < 0.15    # configuration with arbitrary truthy return values
    haltRun = rng.random() < 0.2
    names = ["i%d" % k for k in range(n)]
    if tc or rng.random() < 0.3:
        names[rng.randrange(n)] = "database"
    # interfaces of one 'function': drawn from a small shared pool so that addInterface's rules for equal functions are reached
    pooled = kind != "arith" and rng.random() < (0.7 if kind == "stack" else 0.2)
    pool = POOL[:rng.randint(1, len(POOL))]
    boundaryRun = rng.random() < 0.4   # coupling values move by amounts just below / at / just above the tolerance
    tolS = rng.choice([0.5, 0.5, 0.25, 1.0, 2.0])  # tolerance of couplers configured through tightCouplingSettings
    ifs = []
    for k, nm in enumerate(names):
        fn = rng.choice([None, "fn%d" % k])
        klass = "base"
        if pooled and nm != "database":   # the 'database' stub must survive: tight coupling writes through it
            if rng.random() < 0.6:
                fn = rng.choice(pool)
            klass = rng.choice(["base", "base", "base", "subA", "subA", "subB"])
        s = {"name": nm, "function": fn, "klass": klass, "index": None if rng.random() < 0.6 else rng.randint(0, k),
             "enabled": rng.random() < 0.8, "bolForce": rng.random() < 0.3, "rev": rng.random() < 0.3,
             "flagsVia": rng.choice(["kwargs", "kwargs", "setters", "setters", "kwargs-after-an-earlier-life"]), "coupler": None, "ret": {}, "haltAt": [], "deps": [], "setsRestart": False}
        for h in HOOKS:
            if rng.random() < 0.5:
                s["ret"][h] = rng.choice(FALSY[1:])
        if truthyRun and rng.random() < 0.4:
            for h in rng.sample(HOOKS, rng.randint(1, 3)):
                if h != "BOC":
                    s["ret"][h] = rng.choice(TRUTHY)
        if tc and rng.random() < 0.55:
            s["coupler"] = gen_coupler(rng, s, boundaryRun, tolS)
        ifs.append(s)
    if haltRun:
        for _ in range(rng.randint(1, 2)):
            s = rng.choice(ifs)
            c = rng.randrange(nC)
            if c not in s["haltAt"]:
                s["haltAt"].append(c)
            s["haltValue"] = rng.choice(TRUTHY)
    cfg["tc"] = {"on": tc, "cap": rng.randint(1, 4), "skip": sorted(rng.sample(range(nC), rng.randint(0, min(2, nC)))) if tc and rng.random() < 0.4 else []}
    # ---- dependencies (added by armi disabled + forced at BOL)
    if rng.random() < (0.6 if kind == "stack" else 0.22):
        for s in rng.sample(ifs, rng.randint(1, min(2, n))):
            s["deps"] = rng.choice([["depA"], ["depB"], ["depA", "depB"], ["depC"], ["depB", "depA"]])
    # the 'function' of each dependency class: a dependency is satisfied by an attached interface of that name OR of that function
    fnsUsed = sorted({s["function"] for s in ifs if s["function"]})
    cfg["depfn"] = {d: (rng.choice(fnsUsed + pool) if rng.random() < 0.45 and (fnsUsed or pooled) else rng.choice([None, "fnDep" + d[-1]])) for d in sorted(DEPS)}
    # ---- deferral (see RULE for the judged domain)
    dn, dc = [], 0
    if rng.random() < 0.25:
        dc = rng.randint(0, nC)
        dn = [s["name"] for s in rng.sample(ifs, rng.randint(1, min(2, n)))]
        if rng.random() < 0.2:
            dn.append("notInStack")
    cfg["deferred"] = {"cycle": dc, "names": dn}
    # ---- restart emulation
    cfg["restartVia"] = "preset"
    if (sc, sn) != (0, 0) and rng.random() < 0.4:
        cand = [s for s in ifs if (s["enabled"] or s["bolForce"]) and s["name"] not in dn]
        if cand:
            rng.choice(cand)["setsRestart"] = True
            cfg["restartVia"] = "bol-interface"
    cfg["ifaces"] = ifs
    S["tightCoupling"] = tc
    S["tightCouplingMaxNumIters"] = cfg["tc"]["cap"]
    S["cyclesSkipTightCouplingInteraction"] = [x if rng.random() < 0.7 else str(x) for x in cfg["tc"]["skip"]]
    S["tightCouplingSettings"] = {s["function"]: {"parameter": "keff", "convergence": tolS} for s in ifs if s["coupler"] and s["coupler"]["via"] == "settings"}
    S["deferredInterfacesCycle"] = dc
    S["deferredInterfaceNames"] = list(dn)
    cfg["fresh"] = idx % 40 == 7
    return cfg


DEPS = {"depA": [], "depB": ["depC"], "depC": []}   # depB itself depends on depC (second resolution pass)


# ============================================================================ the reference scheduler (oracle)
def more_derived(a, b):
    """class kind a is a proper subclass of class kind b (RecSubA and RecSubB both derive from RecIface, not from each other)"""
    return b == "base" and a in ("subA", "subB")


def build_stack(cfg):
    """Stack as the documentation describes construction (Operator.addInterface / getInterface / _processInterfaceDependencies):
    insert at index or append; an interface whose function is already taken replaces the attached one when it is a more derived class,
    is left out when the attached one is more derived, and is refused (RuntimeError) when the two classes are unrelated; then
    missing dependencies - missing = no attached interface of that name and none of that function - are appended (disabled, forced at BOL),
    pass after pass, until nothing is missing.  Returns (stack, info); info["clash"] is set when construction must be refused (the stack
    is then the one before the refused call)."""
    stack = []
    info = {"clash": None, "sameClass": 0, "replaced": 0, "ignored": 0, "depByFunction": 0, "depAdded": 0}
    for s in cfg["ifaces"]:
        old = [x for x in stack if s["function"] is not None and x["function"] == s["function"]]
        if old:
            o = old[0]
            if o["klass"] == s["klass"]:
                info["sameClass"] += 1     # docstring: refused; implementation note: existing one "already more specific" - either way not attached
                continue
            if more_derived(o["klass"], s["klass"]):
                info["ignored"] += 1
                continue
            if more_derived(s["klass"], o["klass"]):
                info["replaced"] += 1
                stack.remove(o)
            else:
                info["clash"] = [o["name"], s["name"], s["function"]]
                return stack, info
        if s["index"] is None:
            stack.append(s)
        else:
            stack.insert(s["index"], s)
    while True:
        new = []
        for s in list(stack):
            for d in s["deps"]:
                fn = cfg["depfn"][d]
                if any(x["name"] == d for x in stack + new):
                    continue
                if fn is not None and any(x["function"] == fn for x in stack + new):
                    info["depByFunction"] += 1
                    continue
                info["depAdded"] += 1
                new.append({"name": d, "function": fn, "klass": "dep", "enabled": False, "bolForce": True, "rev": False, "coupler": None,
                            "ret": {}, "haltAt": [], "deps": DEPS[d], "setsRestart": False, "isDep": True})
        if not new:
            return stack, info
        stack += new


def is_active(s, event, cycle, cfg, excluded=(), deferAlso=()):
    on = s["enabled"] or (event == "BOL" and s["bolForce"])
    if s["name"] in excluded:
        on = False
    if s["name"] in cfg["deferred"]["names"]:
        if event == "BOL" or (event in ("BOC",) + tuple(deferAlso) and cycle < cfg["deferred"]["cycle"]):
            on = False
    return on


def active_list(stack, event, cycle, cfg, excluded=(), deferAlso=()):
    act = [s for s in stack if is_active(s, event, cycle, cfg, excluded, deferAlso)]
    if event == "EOL":
        act = [s for s in act if not s["rev"]] + [s for s in reversed(act) if s["rev"]]
    return act


def reference(cfg, model_short_circuit=False, eq_converged=False, model_alias=False, model_defer=()):
    """Expected hook trace. model_short_circuit / model_alias are used ONLY to classify an observed deviation as a known mechanism
    ('_interactAll stops calling after a truthy return'; 'a coupling value updated in place always looks converged'; model_defer = events other
    than BOL/BOC at which a deferred interface is left out before its cycle); the verdict always comes from the plain schedule.  eq_converged is the second reading of a move by exactly the tolerance (see CONVERGED_LABELS)."""
    stack, _ = build_stack(cfg)
    H = cfg["history"]
    sc, sn = cfg["start"]
    cur = [sc, sn] if cfg["restartVia"] == "preset" else [0, 0]
    out = []
    ncalls = {}
    stats = {"iters": 0, "capped": 0, "exempt": 0, "halted": False, "nodes": 0, "cycles": 0, "lastCycle": None, "labels": {}, "deferredEarly": 0}
    dn, dc = set(cfg["deferred"]["names"]), cfg["deferred"]["cycle"]

    def fire(event, args, cycle):
        truthy = False
        bits = []
        for s in active_list(stack, event, cycle, cfg, (), model_defer):
            if truthy and model_short_circuit:
                if event == "Coupled" and s["coupler"]:
                    bits.append(True)  # not called: its value cannot have moved
                continue
            out.append((s["name"], event, args, cur[0], cur[1]))
            if s["name"] in dn and event not in ("BOL", "BOC") and cycle < dc:
                stats["deferredEarly"] += 1
            v = s["ret"].get(event)
            if event == "BOC" and cycle in s["haltAt"]:
                v = s["haltValue"]
            if event == "BOL" and s["setsRestart"]:
                cur[0], cur[1] = sc, sn
            if event == "Coupled" and s["coupler"]:
                k = ncalls.get(s["name"], 0)
                ncalls[s["name"]] = k + 1
                sp = s["coupler"]["script"]
                lab = sp[k % len(sp)]
                key = "%s.%s" % (SHAPE_CLASS[s["coupler"]["shape"]], lab)
                stats["labels"][key] = stats["labels"].get(key, 0) + 1
                if model_alias and s["coupler"]["inplace"]:
                    bits.append(True)
                elif lab == "at":
                    bits.append(eq_converged)
                else:
                    bits.append(lab in CONVERGED_LABELS)
            truthy = truthy or bool(v)
        return truthy, all(bits)

    fire("BOL", (), cur[0])
    c0, n0 = cur
    for c in range(c0, H["nCycles"]):
        cur[0], cur[1] = c, (n0 if c == c0 else 0)
        stats["lastCycle"] = c
        halt, _ = fire("BOC", (c,), c)
        if halt:
            stats["halted"] = True
            break
        stats["cycles"] += 1
        for n in range(cur[1], H["bs"][c] + 1):
            cur[1] = n
            stats["nodes"] += 1
            fire("EveryNode", (c, n), c)
            if cfg["tc"]["on"]:
                if c in cfg["tc"]["skip"]:
                    stats["exempt"] += 1
                    continue
                for it in range(cfg["tc"]["cap"]):
                    stats["iters"] += 1
                    _, conv = fire("Coupled", (it,), c)
                    if conv:
                        break
                else:
                    stats["capped"] += 1
        fire("EOC", (c,), c)
    fire("EOL", (), cur[0])
    return out, stats


def unjudged_filter(cfg, stats):
    """(interface, event, cycle) -> True when deferral semantics are not fixed by the documentation: whether a deferred interface runs
    at BOL when the deferral cycle is already reached at the start of the run ("will begin normal operations on this cycle number" says
    nothing about beginning-of-life; armi never calls it).  Everything else is judged: not called at BOL while deferral is pending, not
    called at BOC before the deferral cycle, called at BOC from it on, and called at EveryNode/Coupled/EOC/EOL throughout (deferral acts
    at BOL and BOC only: armi's test_getActiveInterfaces requires a deferred interface in the EveryNode set while deferral is pending, and
    getActiveInterfaces documents its cycle argument for the BOC decision only)."""
    dn, dc = set(cfg["deferred"]["names"]), cfg["deferred"]["cycle"]
    sc = cfg["start"][0]

    def unj(name, event, cycleSeen):
        return name in dn and event == "BOL" and dc <= sc

    return unj


# ============================================================================ armi side
_LOG = []
_STATE = {}
_CTX = {}


def initial_value(c):
    """Start value of a coupling quantity of the given shape (entries are small multiples of 0.25)."""
    import numpy as np

    shape, dims = c["shape"], c["dims"]
    if shape == "float":
        return 1.25
    if shape == "int":
        return 3
    if shape in ("list", "array"):
        v = [0.25 * k for k in range(dims[0])]
        return v if shape == "list" else np.array(v)
    rows = [[0.25 * (k + r) for k in range(dims[1] + (1 if c["ragged"] and r == 1 else 0))] for r in range(dims[0])]
    return rows if shape == "list2" else np.array(rows)


def moved_value(c, val, lab, k, sign):
    """The coupling value after one scripted move.  Unless the coupler is 'inplace', a NEW container is built (the old one is untouched)."""
    import copy

    shape, dims = c["shape"], c["dims"]
    d = sign * step_of(lab, c["tol"], shape)
    if shape in ("float", "int"):
        return val + d
    new = val if c["inplace"] else copy.deepcopy(val)
    if shape in ("list", "array"):
        if lab == "multi":
            new[0] += d
            new[1] += d
        else:
            new[k % dims[0]] += d
        return new
    if lab == "multi":
        new[0][0] += d
        new[0][1] += d
    elif lab == "rows":
        new[0][0] += d
        new[1][0] += d
    else:
        new[k % dims[0]][(k // dims[0]) % dims[1]] += d
    return new


def make_classes():
    from armi import interfaces

    class RecIface(interfaces.Interface):
        """Recording interface: remembers (name, hook, args, r.p.cycle, r.p.timeNode) of every call."""

        name = None

        def __init__(self, r, cs, spec=None):
            spec = spec or {"name": type(self).name, "function": type(self).function, "ret": {}, "haltAt": [], "coupler": None,
                            "deps": DEPS[type(self).name], "setsRestart": False}
            self.name = spec["name"]
            self.function = spec["function"]
            self.spec = spec
            self._val = 0.0
            self._ncoupled = 0
            self._sign = 1
            interfaces.Interface.__init__(self, r, cs)
            c = spec["coupler"]
            if c:
                self._val = initial_value(c)
                if c["via"] == "direct":
                    self.coupler = interfaces.TightCoupler("keff", c["tol"], cs["tightCouplingMaxNumIters"])

        def getDependencies(self, cs):  # called by the operator on instances
            return [_CTX["depClasses"][d] for d in self.spec["deps"]]

        def _rec(self, hook, args):
            p = self.r.p
            _LOG.append((self.name, hook, args, p.cycle, p.timeNode))

        def interactBOL(self):
            self._rec("BOL", ())
            if self.spec["setsRestart"]:
                self.r.p.cycle, self.r.p.timeNode = _CTX["start"]
            return self.spec["ret"].get("BOL")

        def interactBOC(self, cycle=None):
            self._rec("BOC", (cycle,))
            if cycle in self.spec["haltAt"]:
                return self.spec["haltValue"]
            return self.spec["ret"].get("BOC")

        def interactEveryNode(self, cycle, node):
            self._rec("EveryNode", (cycle, node))
            p = self.r.p
            _STATE[(cycle, node)] = (p.stepLength, self.r.core.p.power, p.cycleLength, p.availabilityFactor, p.capacityFactor)
            return self.spec["ret"].get("EveryNode")

        def interactCoupled(self, iteration):
            self._rec("Coupled", (iteration,))
            c = self.spec["coupler"]
            if c:
                lab = c["script"][self._ncoupled % len(c["script"])]
                if lab != "same":
                    self._val = moved_value(c, self._val, lab, self._ncoupled, self._sign)
                    self._sign = -self._sign
                self._ncoupled += 1
            return self.spec["ret"].get("Coupled")

        def getTightCouplingValue(self):
            return self._val

        def interactEOC(self, cycle=None):
            self._rec("EOC", (cycle,))
            return self.spec["ret"].get("EOC")

        def interactEOL(self):
            self._rec("EOL", ())
            return self.spec["ret"].get("EOL")

        def writeDBEveryNode(self):  # only reached on the stub called "database"
            _CTX["dbwrites_total"] = _CTX.get("dbwrites_total", 0) + 1

    class RecSubA(RecIface):
        pass

    class RecSubB(RecIface):
        pass

    _CTX["classes"] = {"base": RecIface, "subA": RecSubA, "subB": RecSubB}
    _CTX["depClassCache"] = {}

    from armi.operators.operator import Operator

    class RecOperator(Operator):
        def createInterfaces(self):
            for s in _CTX["cfg"]["ifaces"]:
                i = _CTX["classes"][s["klass"]](self.r, self.cs, s)
                if s["flagsVia"] == "kwargs-after-an-earlier-life":
                    # the object was attached somewhere before (a dependency attached as disabled-but-forced, a duplicate of such an
                    # interface) and still carries that BOL-forced flag: the bolForce= given now is what counts
                    i.bolForce(True)
                    self.addInterface(i, index=s["index"], reverseAtEOL=s["rev"], enabled=s["enabled"], bolForce=s["bolForce"])
                elif s["flagsVia"] == "kwargs":
                    self.addInterface(i, index=s["index"], reverseAtEOL=s["rev"], enabled=s["enabled"], bolForce=s["bolForce"])
                else:
                    self.addInterface(i, index=s["index"])
                    i.reverseAtEOL = s["rev"]
                    i.enabled(s["enabled"])
                    i.bolForce(s["bolForce"])

    return RecIface, RecOperator


class Harness:
    CYCLE_KEYS = ("_cycleNames", "_stepLengths", "_cycleLengths", "_burnSteps", "_maxBurnSteps", "_powerFractions", "_availabilityFactors")

    def __init__(self):
        import logging

        from armi.testing import loadTestReactor
        from armi.tests import TEST_ROOT

        logging.disable(1000)  # armi prints "header" records at level 100 whatever the verbosity
        o, r = loadTestReactor(TEST_ROOT, inputFileName="smallestTestReactor/armiRunSmallest.yaml")
        o.removeAllInterfaces()
        self.r = r
        self.cs = o.cs.modified(newSettings={"verbosity": "error", "debugDB": False, "debugMem": False})
        self.RecIface, self.RecOperator = make_classes()
        self.o = self.RecOperator(self.cs)
        self.basicPower = self.cs["power"]

    def apply_settings(self, S):
        cs = self.cs
        for k, v in S.items():
            cs[k] = v

    def prepare(self, cfg):
        """Settings + stack for one configuration; returns the operator."""
        del _LOG[:]
        _STATE.clear()
        _CTX["cfg"] = cfg
        _CTX["start"] = tuple(cfg["start"])
        cache = _CTX["depClassCache"]
        _CTX["depClasses"] = {}
        for d, fn in cfg["depfn"].items():   # dependency classes carry their name and function as class attributes (what armi reads)
            if (d, fn) not in cache:
                cache[(d, fn)] = type("Dep_%s_%s" % (d, fn), (self.RecIface,), {"name": d, "function": fn})
            _CTX["depClasses"][d] = cache[(d, fn)]
        self.apply_settings(cfg["settings"])
        if cfg["fresh"]:
            o = self.RecOperator(self.cs)
        else:
            o = self.o
            o.removeAllInterfaces()
            for k in self.CYCLE_KEYS:
                setattr(o, k, None)
        self.last_o = o
        self.r.p.cycle = 0
        self.r.p.timeNode = 0
        o.initializeInterfaces(self.r)
        return o


def norm_rec(t):
    name, hook, args, c, n = t
    return (name, hook, tuple(int(a) if isinstance(a, (int,)) and not isinstance(a, bool) else a for a in args),
            int(c) if _intlike(c) else repr(c), int(n) if _intlike(n) else repr(n))


def _intlike(x):
    import numpy as np

    return isinstance(x, (int, np.integer)) and not isinstance(x, bool)


# ============================================================================ checks
def describe(cfg):
    H = cfg["history"]
    return {
        "settings": cfg["settings"], "start": cfg["start"], "restartVia": cfg["restartVia"], "burnSteps": H["bs"], "dependencyFunctions": cfg["depfn"],
        "interfaces(add order)": [
            {k: v for k, v in s.items() if v not in (None, [], {}, False) or k in ("enabled",)} for s in cfg["ifaces"]
        ],
    }


def signature(cfg):
    H = cfg["history"]
    return [H["style"], H["nCycles"], H["bs"], H["kinds"], cfg["start"], cfg["restartVia"], cfg["tc"], cfg["deferred"],
            [[s["name"], s["function"] if s["function"] in POOL else s["function"] is not None, s["klass"], s["index"], s["enabled"], s["bolForce"], s["rev"], s["flagsVia"],
              s["coupler"] and [s["coupler"][k] for k in ("script", "via", "shape", "dims", "tol", "inplace", "ragged")], sorted((h, bool(v)) for h, v in s["ret"].items()),
              sorted(s["haltAt"]), s["deps"], s["setsRestart"]] for s in cfg["ifaces"]],
            sorted((d, f) for d, f in cfg["depfn"].items() if f and any(d in s["deps"] for s in cfg["ifaces"]))]


def nontrivial(cfg):
    H = cfg["history"]
    return H["nCycles"] > 1 or sum(H["bs"]) > 0 or any(
        (not s["enabled"]) or s["rev"] or s["bolForce"] or s["coupler"] or s["haltAt"] or s["deps"] for s in cfg["ifaces"])


def check_history(rec, cs, cfg, o):
    """History getters vs the generator's own spec; node/step arithmetic vs naive enumeration. Returns False when they could not be read."""
    from armi import utils

    H = cfg["history"]
    nC, bs = H["nCycles"], H["bs"]
    w = {"settings": cfg["settings"], "intended": {k: H[k] for k in ("steps", "af", "len", "pf")}}
    style = H["style"]
    try:
        gotBs = list(utils.getBurnSteps(cs))
        gotSteps = [list(x) for x in utils.getStepLengths(cs)]
        gotLen = list(utils.getCycleLengths(cs))
        gotAf = list(utils.getAvailabilityFactors(cs))
        gotPf = [list(x) for x in utils.getPowerFractions(cs)]
        gotNames = list(utils.getCycleNames(cs))
        gotNodes = list(utils.getNodesPerCycle(cs))
        gotMax = utils.getMaxBurnSteps(cs)
        gotHas = utils.hasBurnup(cs)
    except Exception as e:
        rec.crash("history-getters/%s" % style, e, w)
        return False
    rec.hit("history.getters")

    def nested_close(a, b):
        return len(a) == len(b) and all(len(x) == len(y) and all(close(p, q) for p, q in zip(x, y)) for x, y in zip(a, b))

    def flat_close(a, b):
        return len(a) == len(b) and all(close(p, q) for p, q in zip(a, b))

    if gotBs != bs:
        rec.violation("history/%s/burnSteps" % style, "getBurnSteps=%s, history has %s steps per cycle" % (gotBs, bs), w)
    if not nested_close(gotSteps, H["steps"]):
        rec.violation("history/%s/stepLengths" % style, "getStepLengths=%s, intended %s" % (gotSteps, H["steps"]), w)
    if not flat_close(gotLen, H["len"]):
        rec.violation("history/%s/cycleLengths" % style, "getCycleLengths=%s, intended %s" % (gotLen, H["len"]), w)
    if not flat_close(gotAf, H["af"]):
        rec.violation("history/%s/availabilityFactors" % style, "getAvailabilityFactors=%s, intended %s" % (gotAf, H["af"]), w)
    if not nested_close(gotPf, H["pf"]):
        rec.violation("history/%s/powerFractions" % style, "getPowerFractions=%s, intended %s" % (gotPf, H["pf"]), w)
    if gotNames != H["names"]:
        rec.violation("history/%s/cycleNames" % style, "getCycleNames=%s, intended %s" % (gotNames, H["names"]), w)
    if gotNodes != [b + 1 for b in bs] or gotMax != max(bs) or bool(gotHas) != (sum(bs) > 0):
        rec.violation("history/%s/nodes-per-cycle" % style, "getNodesPerCycle=%s getMaxBurnSteps=%s hasBurnup=%s for steps %s" % (gotNodes, gotMax, gotHas, bs), w)
    for c in range(min(nC, len(gotSteps), len(gotLen), len(gotAf))):
        if gotSteps[c]:
            rec.hit("arith.sum-law")
            # independent side: the INTENDED availability and cycle length of the generated history (not armi's getters) ...
            if not close(sum(gotSteps[c]), H["af"][c] * H["len"][c]):
                rec.violation("history/%s/sum-of-steps-not-availability-x-length" % style,
                              "cycle %d: sum(getStepLengths)=%r, intended availability*length=%r" % (c, sum(gotSteps[c]), H["af"][c] * H["len"][c]), w)
            # ... and armi's three getters among themselves (consistency only, not counted as an independent oracle)
            elif not close(sum(gotSteps[c]), gotAf[c] * gotLen[c]):
                rec.violation("history/%s/sum-of-steps-not-availability-x-length" % style,
                              "cycle %d: sum(steps)=%r, availability*length=%r" % (c, sum(gotSteps[c]), gotAf[c] * gotLen[c]), w)
    # operator's view of the same history
    try:
        ov = (list(o.burnSteps), [list(x) for x in o.stepLengths], list(o.cycleLengths), list(o.availabilityFactors), [list(x) for x in o.powerFractions], list(o.cycleNames), o.maxBurnSteps)
        if ov != (gotBs, gotSteps, gotLen, gotAf, gotPf, gotNames, gotMax):
            rec.violation("history/operator-attributes-differ", "Operator cycle attributes differ from armi.utils getters: %s" % (ov,), w)
    except Exception as e:
        rec.crash("operator-cycle-attributes/%s" % style, e, w)
        return False

    # ---- node arithmetic, exhaustive over the history
    visit = [(c, n) for c in range(nC) for n in range(bs[c] + 1)]            # the order a full run visits nodes
    try:
        for k, (c, n) in enumerate(visit):
            rec.hit("arith.node")
            N = utils.getCumulativeNodeNum(c, n, cs)
            if N != k:
                rec.violation("arith/cumulative-node-number", "getCumulativeNodeNum(%d,%d)=%s, it is node #%d of the run (steps/cycle %s)" % (c, n, N, k, bs), w)
            back = tuple(utils.getCycleNodeFromCumulativeNode(k, cs))
            if back != (c, n):
                rec.violation("arith/cycle-node-from-cumulative-node", "getCycleNodeFromCumulativeNode(%d)=%s, node #%d is %s (steps/cycle %s)" % (k, back, k, (c, n), bs), w)
            if k == 0:
                try:
                    utils.getPreviousTimeNode(c, n, cs)
                    rec.violation("arith/previous-of-first-accepted", "getPreviousTimeNode(0,0) returned instead of raising", w)
                except ValueError:
                    rec.reject("getPreviousTimeNode(0,0)")
            else:
                prev = tuple(utils.getPreviousTimeNode(c, n, cs))
                if prev != visit[k - 1]:
                    rec.violation("arith/previous-time-node", "getPreviousTimeNode(%d,%d)=%s, visited before it: %s (steps/cycle %s)" % (c, n, prev, visit[k - 1], bs), w)
        starts = [(c, n) for c in range(nC) for n in range(bs[c])]           # node at the start of each step, 1-indexed steps
        for s_, (c, n) in enumerate(starts, 1):
            rec.hit("arith.step")
            got = tuple(utils.getCycleNodeFromCumulativeStep(s_, cs))
            if got != (c, n):
                rec.violation("arith/cycle-node-from-cumulative-step", "getCycleNodeFromCumulativeStep(%d)=%s, step #%d starts at %s (steps/cycle %s)" % (s_, got, s_, (c, n), bs), w)
        for f, a in ((utils.getCycleNodeFromCumulativeStep, 0), (utils.getCycleNodeFromCumulativeNode, -1)):
            try:
                f(a, cs)
                rec.violation("arith/out-of-range-accepted", "%s(%d) returned instead of raising ValueError" % (f.__name__, a), w)
            except ValueError:
                rec.reject(f.__name__ + " below range")
    except Exception as e:
        rec.crash("node-arithmetic", e, w)
    return True


def expected_refusal(cfg):
    """History classes armi refuses (refusal is not judged: the statement does not say which histories must be accepted)."""
    H = cfg["history"]
    if H["style"] == "simple" and cfg["settings"]["burnSteps"] == 0 and H["nCycles"] > 1:
        # documented restriction (Operator.burnSteps: "it is possible for there to be ONE cycle with zero burn up")
        return ("simple-history/burnSteps=0 with nCycles>1: Operator raises ValueError (length check)", ValueError)
    if "uniform-zero" in H["kinds"]:
        return ("detailed-history/burn-steps-0 raises ZeroDivisionError", ZeroDivisionError)
    return None


def classify(exp, got):
    """Mechanism key from the first difference between expected and observed traces (never from values)."""
    i = 0
    while i < len(exp) and i < len(got) and exp[i] == got[i]:
        i += 1
    e = exp[i] if i < len(exp) else None
    g = got[i] if i < len(got) else None
    if e is None:
        return i, "trace/extra-call/%s" % g[1]
    if g is None:
        return i, "trace/missing-call/%s" % e[1]
    if e[1] != g[1]:
        # which of the two is the surplus / the hole?
        if g in exp[i:]:
            return i, "trace/missing-call/%s" % e[1]
        if e in got[i:]:
            return i, "trace/extra-call/%s" % g[1]
        return i, "trace/wrong-event/%s-instead-of-%s" % (g[1], e[1])
    if e[0] != g[0]:
        if (e[2], e[3], e[4]) == (g[2], g[3], g[4]):
            names_e = [x[0] for x in exp if x[1:] == e[1:]]
            names_g = [x[0] for x in got if x[1:] == e[1:]]
            if sorted(names_e) == sorted(names_g):
                return i, "trace/wrong-order/%s" % e[1]
            if g[0] not in names_e:
                return i, "trace/inactive-interface-called/%s" % e[1]
            return i, "trace/missing-call/%s" % e[1]
        if g in exp[i:]:
            return i, "trace/missing-call/%s" % e[1]
        return i, "trace/extra-call/%s" % e[1]
    if e[2] != g[2]:
        return i, "trace/wrong-arguments/%s" % e[1]
    return i, "trace/wrong-time-state/%s" % e[1]


def check_run(rec, H_, cfg, idx):
    from armi import utils

    cs = H_.cs
    w = describe(cfg)
    refusal = expected_refusal(cfg)
    stack, sinfo = build_stack(cfg)
    # ---- stack construction (createInterfaces -> addInterface, then dependency resolution)
    try:
        o = H_.prepare(cfg)
    except RuntimeError as e:
        if sinfo["clash"]:
            rec.hit("stack.function-clash")
            rec.reject("addInterface: unrelated interface class for a function that is already taken (RuntimeError)")
            gotStack = [i.name for i in H_.last_o.getInterfaces()]
            if gotStack != [s["name"] for s in stack]:
                rec.violation("stack/changed-by-refused-add", "the refused addInterface left the stack %s, before the call it was %s" % (gotStack, [s["name"] for s in stack]),
                              dict(w, clash=sinfo["clash"]))
        elif sinfo["sameClass"]:
            # addInterface's docstring: RuntimeError "if an interface of the same name or function is already attached"
            rec.reject("addInterface: second interface of the same class and function refused (RuntimeError)")
        else:
            rec.crash("initializeInterfaces", e, w)
        return
    except Exception as e:
        if refusal and isinstance(e, refusal[1]):
            rec.reject(refusal[0])
            return
        rec.crash("initializeInterfaces", e, w)
        return
    if sinfo["clash"]:
        rec.hit("stack.function-clash")
        rec.violation("stack/unrelated-function-clash-accepted",
                      "addInterface accepted %r although %r of an unrelated class already holds function %r (stack now %s)" % (
                          sinfo["clash"][1], sinfo["clash"][0], sinfo["clash"][2], [i.name for i in o.getInterfaces()]), dict(w, clash=sinfo["clash"]))
        return
    # stack order after construction
    gotStack = [i.name for i in o.getInterfaces()]
    rec.hit("stack.order")
    if gotStack != [s["name"] for s in stack]:
        why = "order-after-construction"
        if sorted(gotStack) != sorted(s["name"] for s in stack):
            why = "membership-after-construction"
        rec.violation("stack/" + why, "interface stack %s, expected %s" % (gotStack, [s["name"] for s in stack]), dict(w, expectedStackInfo=sinfo))
        return
    for k in ("replaced", "ignored", "sameClass", "depByFunction"):
        if sinfo[k]:
            rec.hit("stack.function-" + k if k != "depByFunction" else "stack.dependency-by-function", sinfo[k])
    fns = [i.function for i in o.getInterfaces() if i.function is not None]
    if len(fns) != len(set(fns)):
        rec.violation("stack/two-interfaces-of-one-function", "functions of the attached interfaces: %s" % fns, w)
        return
    # ---- histories armi refuses
    try:
        if refusal:
            utils.getStepLengths(cs)
            o.burnSteps
            o.stepLengths
    except Exception as e:
        if isinstance(e, refusal[1]):
            rec.reject(refusal[0])
            return
        rec.crash("history-refusal-probe", e, w)
        return
    if refusal:
        rec.skip("history class '%s' was accepted this time; not judged" % refusal[0])
        return
    if any(s.get("isDep") for s in stack):
        rec.hit("run.dependencies")
    if not check_history(rec, cs, cfg, o):
        rec.case(signature(cfg), nontrivial=False)
        return

    exp, stats = reference(cfg)
    H_.r.p.cycle, H_.r.p.timeNode = (cfg["start"] if cfg["restartVia"] == "preset" else (0, 0))
    del _LOG[:]
    try:
        o.operate()
    except Exception as e:
        rec.crash("operate", e, w)
        rec.case(signature(cfg), nontrivial=nontrivial(cfg))
        return
    got = [norm_rec(t) for t in _LOG]
    unj = unjudged_filter(cfg, stats)
    nUnj = sum(1 for s in stack if unj(s["name"], "BOL", 0) and (s["enabled"] or s["bolForce"]))
    if nUnj:
        rec.unjudged["BOL of a deferred interface when the deferral cycle is already reached at the start of the run: the documentation does not say "
                     "whether it is called (armi does not call it); such calls are removed from both traces - interfaces concerned"] += nUnj
    gotJ = [t for t in got if not unj(t[0], t[1], t[3])]
    expJ = [t for t in exp if not unj(t[0], t[1], t[3])]
    rec.hit("trace.compare")
    rec.hit("trace.events", len(expJ))
    hasAt = any(k.endswith(".at") for k in stats["labels"])
    if gotJ != expJ and hasAt:
        # second reading of "moved by exactly the tolerance": converged
        expB, statsB = reference(cfg, eq_converged=True)
        if gotJ == [t for t in expB if not unj(t[0], t[1], t[3])]:
            rec.unjudged["runs that agree with the schedule only when a coupling value that moved by exactly the tolerance counts as converged (not fixed by the documentation)"] += 1
            exp, stats, expJ = expB, statsB, gotJ
    if gotJ != expJ:
        key = None
        i, ckey = classify(expJ, gotJ)
        e = expJ[i] if i < len(expJ) else None
        if any(s["coupler"] and s["coupler"]["inplace"] for s in stack):
            for eq in (False, True):
                exp3, _ = reference(cfg, eq_converged=eq, model_alias=True)
                if gotJ == [t for t in exp3 if not unj(t[0], t[1], t[3])]:
                    key = "coupler/in-place-updated-value-always-converged"
                    what = ("a coupler whose interface updates its coupling value (list / array) in place and returns the same object reported convergence although "
                            "the value had moved by more than the tolerance, so the coupling iterations stopped early (first missing call: %s; whole trace equals the "
                            "schedule in which such couplers always report converged)" % (e,))
                    break
        if key is None:
            exp2, _ = reference(cfg, model_short_circuit=True)
            exp2J = [t for t in exp2 if not unj(t[0], t[1], t[3])]
            if gotJ == exp2J:
                key = "interactAll/short-circuit-after-truthy-return"
                what = ("after an interface returned a truthy value from a hook, the interfaces behind it in the stack were not called at that event "
                        "(first missing call: %s; whole trace equals the schedule in which _interactAll stops calling once a truthy value was returned)" % (e,))
        if key is None:
            key = ckey
            if stats["deferredEarly"]:
                for also in (("EveryNode", "EOC", "EOL"), ("EveryNode", "Coupled", "EOC", "EOL")):
                    exp4, _ = reference(cfg, model_defer=also)
                    if gotJ == [t for t in exp4 if not unj(t[0], t[1], t[3])]:
                        key = "deferral/applied-at-events-other-than-BOL-and-BOC"
                        break
            what = "hook trace differs from the reference schedule at position %d: expected %s, observed %s" % (
                i, expJ[i] if i < len(expJ) else "<end>", gotJ[i] if i < len(gotJ) else "<end>")
        rec.violation(key, what, dict(w, expected_around=expJ[max(0, i - 3):i + 4], observed_around=gotJ[max(0, i - 3):i + 4], position=i))
    else:
        # feature counters: only runs whose trace was compared and equal say "this feature was exercised and judged"
        if tuple(cfg["start"]) != (0, 0):
            rec.hit("run.restart")
        if stats["iters"] > stats["nodes"] - stats["exempt"] and cfg["tc"]["on"]:
            rec.hit("run.coupled-iterations")
        if stats["capped"]:
            rec.hit("run.nonconverged-cap")
        if stats["exempt"]:
            rec.hit("run.exempt-cycle")
        if stats["halted"]:
            rec.hit("run.halt")
        if cfg["deferred"]["names"]:
            rec.hit("run.deferred")
        if stats["deferredEarly"]:
            rec.hit("deferred.called-before-cycle", stats["deferredEarly"])
        for k, v in stats["labels"].items():
            rec.hit("coupler." + k, v)
            sc_, lab = k.split(".")
            if lab not in CONVERGED_LABELS and lab != "at":
                rec.hit("coupler.%s.moved" % sc_, v)
        if sum(1 for s in stack if s["rev"] and s["enabled"]) >= 2:
            rec.hit("run.reverseAtEOL")
        if any(s["bolForce"] and not s["enabled"] for s in stack):
            rec.hit("run.bolForce")
        if any(s.get("flagsVia") == "kwargs-after-an-earlier-life" and not s["bolForce"] and not s["enabled"] for s in stack):
            rec.hit("run.disabled-interface-with-an-earlier-bolForce-not-forced-now")
        if any(b == 0 for b in cfg["history"]["bs"]):
            rec.hit("run.zero-step-cycle")
        if any(v for s in stack for v in s["ret"].values()):
            rec.hit("run.truthy-returns")
    # final time state
    fin = (H_.r.p.cycle, H_.r.p.timeNode)
    if exp and gotJ == expJ and (int(fin[0]), int(fin[1])) != (exp[-1][3], exp[-1][4]) and exp[-1][1] == "EOL":
        rec.violation("state/final-time-state", "after the run r.p.(cycle,timeNode)=%s, last scheduled state %s" % (fin, exp[-1][3:]), w)

    # ---- reactor state seen at nodes that start a step (history quantities as scheduled)
    Hh = cfg["history"]
    for (c, n), (sl, pw, cl, af, cf) in list(_STATE.items()):
        if not (_intlike(c) and _intlike(n) and 0 <= c < Hh["nCycles"] and 0 <= n <= Hh["bs"][c]):
            continue
        rec.hit("node.state")
        if not close(cl, Hh["len"][c]) or not close(af, Hh["af"][c]):
            rec.violation("state/cycle-length-or-availability", "at (%d,%d) r.p.cycleLength=%r availabilityFactor=%r, history says %r, %r" % (c, n, cl, af, Hh["len"][c], Hh["af"][c]), w)
        if n < Hh["bs"][c]:
            if not close(sl, Hh["steps"][c][n]):
                rec.violation("state/step-length", "at (%d,%d) r.p.stepLength=%r, history says %r" % (c, n, sl, Hh["steps"][c][n]), w)
            if not close(pw, Hh["pf"][c][n] * H_.basicPower) or not close(cf, Hh["pf"][c][n] * Hh["af"][c]):
                rec.violation("state/power", "at (%d,%d) core power=%r capacityFactor=%r, history says %r, %r" % (c, n, pw, cf, Hh["pf"][c][n] * H_.basicPower, Hh["pf"][c][n] * Hh["af"][c]), w)

    # ---- enumeration order = visit order (observed visits, armi's numbering)
    seen = []
    for t in got:
        if t[1] == "EveryNode" and (not seen or seen[-1] != t[2]):
            seen.append(t[2])
    try:
        nums = [utils.getCumulativeNodeNum(c, n, cs) for (c, n) in seen]
        rec.hit("arith.visit-order")
        if any(b - a != 1 for a, b in zip(nums, nums[1:])) or len(set(seen)) != len(seen):
            rec.violation("arith/visit-order-not-consecutive", "nodes visited %s have cumulative numbers %s" % (seen, nums), w)
    except Exception as e:
        rec.crash("visit-order", e, w)

    check_direct(rec, H_, o, cfg, stack, idx, w)
    rec.case(signature(cfg), nontrivial=nontrivial(cfg), sample=w if idx < 1 else None)


def check_direct(rec, H_, o, cfg, stack, idx, w):
    """getActiveInterfaces / interactAll* with exclusion lists, called directly on the same stack."""
    rng = random.Random("%s:direct" % _CTX["caseSeed"])
    nC = cfg["history"]["nCycles"]
    dn, dc = set(cfg["deferred"]["names"]), cfg["deferred"]["cycle"]
    names = [s["name"] for s in stack]
    for _ in range(3):
        state = rng.choice(HOOKS)
        cyc = rng.randrange(nC + 1)
        excl = tuple(rng.sample(names, rng.randint(0, min(2, len(names))))) + (("ghost",) if rng.random() < 0.2 else ())
        if rng.random() < 0.3:
            excl = ()
        exclArg = rng.choice([excl, list(excl)]) if excl else rng.choice([(), None, []])
        if state in ("BOC", "Coupled") and excl:
            rec.skip("getActiveInterfaces('%s', excludedInterfaceNames=non-empty): interactAll%s offers no exclusion; not judged" % (state, state))
            excl, exclArg = (), ()

        def amb(name):  # deferral reading not fixed by the documentation (see unjudged_filter): BOL with the deferral cycle already reached
            return name in dn and state == "BOL" and dc <= cfg["start"][0]

        want = [s["name"] for s in active_list(stack, state, cyc, cfg, excl) if not amb(s["name"])]
        try:
            got = [i.name for i in o.getActiveInterfaces(state, excludedInterfaceNames=exclArg, cycle=cyc) if not amb(i.name)]
        except Exception as e:
            rec.crash("getActiveInterfaces", e, dict(w, state=state, excluded=list(excl), cycle=cyc))
            continue
        rec.hit("active.direct")
        if got != want:
            k = "active/%s/%s" % (state, "order" if sorted(got) == sorted(want) else "membership")
            rec.violation(k, "getActiveInterfaces(%r, %r, cycle=%d) = %s, expected %s" % (state, list(excl), cyc, got, want),
                          dict(w, state=state, excluded=list(excl), cycle=cyc))
        # the interactAll* entry points that accept an exclusion list
        if state in ("BOL", "EveryNode", "EOC", "EOL"):
            del _LOG[:]
            try:
                if state == "BOL":
                    o.interactAllBOL(excludedInterfaceNames=exclArg)
                elif state == "EveryNode":
                    o.interactAllEveryNode(cyc, 1, excludedInterfaceNames=exclArg)
                elif state == "EOC":
                    o.interactAllEOC(cyc, excludedInterfaceNames=exclArg)
                else:
                    o.interactAllEOL(excludedInterfaceNames=exclArg)
            except Exception as e:
                rec.crash("interactAll%s(excluded)" % state, e, dict(w, state=state, excluded=list(excl)))
                continue
            args = {"BOL": (), "EveryNode": (cyc, 1), "EOC": (cyc,), "EOL": ()}[state]
            called = [(t[0], t[2]) for t in _LOG if not amb(t[0])]
            wantCalls = []
            for s in active_list(stack, state, cyc, cfg, excl):
                if amb(s["name"]):
                    continue
                wantCalls.append((s["name"], args))
            rec.hit("excluded.direct")
            if called != wantCalls:
                # the known short-circuit explains it iff the observed calls are exactly the prefix up to the first truthy return
                cut = []
                for s in active_list(stack, state, cyc, cfg, excl):
                    if not amb(s["name"]):
                        cut.append((s["name"], args))
                    if s["ret"].get(state):
                        break
                if called == cut and len(cut) < len(wantCalls):
                    rec.violation("interactAll/short-circuit-after-truthy-return",
                                  "interactAll%s(excluded=%s): interfaces behind one that returned a truthy value were not called: called %s, expected %s" % (state, list(excl), called, wantCalls),
                                  dict(w, state=state, excluded=list(excl)))
                else:
                    rec.violation("excluded/%s" % state, "interactAll%s(excludedInterfaceNames=%s) called %s, expected %s" % (state, list(excl), called, wantCalls),
                                  dict(w, state=state, excluded=list(excl)))
    # unknown state is refused
    try:
        o.getActiveInterfaces("Init")
        rec.violation("active/unknown-state-accepted", "getActiveInterfaces('Init') returned", {})
    except ValueError:
        rec.reject("getActiveInterfaces unknown state")
    # a second interface of the same name is refused and leaves the stack alone
    if idx % 5 == 0 and stack:
        before = [i.name for i in o.getInterfaces()]
        dup = dict(stack[0], function=None, coupler=None)   # an interface that is attached (the first of the stack)
        try:
            o.addInterface(H_.RecIface(H_.r, H_.cs, dup))
            rec.violation("stack/duplicate-name-accepted", "addInterface accepted a second interface named %r" % dup["name"], w)
        except RuntimeError:
            rec.reject("addInterface duplicate name")
        rec.hit("stack.duplicate")
        if [i.name for i in o.getInterfaces()] != before:
            rec.violation("stack/changed-by-refused-add", "refused addInterface changed the stack", w)
        lst = o.getInterfaces()
        lst.append(None)
        if len(o.getInterfaces()) != len(before):
            rec.violation("stack/getInterfaces-not-a-copy", "mutating the list returned by getInterfaces() changed the stack", w)


def run_shard(spec, rec):
    H_ = Harness()
    kind = spec["kind"]
    for idx in range(spec["n"]):
        seed = "%s:%d" % (spec["rng"], idx)
        rng = random.Random(seed)
        _CTX["caseSeed"] = seed
        cfg = gen_config(rng, kind, idx)
        check_run(rec, H_, cfg, idx)
        if idx % 500 == 499:
            H_.o.timer.timers.clear()  # armi's master timer keeps a (start, end) pair per hook call for ever: bound the shard's memory
    rec.add("writeDBEveryNode calls received by the 'database' stub (observed, not judged)", _CTX.get("dbwrites_total", 0))
