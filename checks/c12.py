"""C12 - axial expansion keeps assembly height, mesh contiguity and component mass.

Workload: pin-type assemblies with a top dummy block (3-9 blocks; grid plate / duct / axial shield / fuel / control /
plenum / aclp blocks sharing one pin geometry; liner, wire, bond variants; HT9/Zr/Inconel/UZr/UO2/B4C/Sodium; explicit and
automatic target components), built (i) directly from the real component classes, (ii) through generated blueprints
(``expandColdDimsToHot`` runs during construction) and (iii) from armi/tests/detailedAxialExpansion.  Each assembly is
driven through programs of 2-6 prescribed / thermal expansions including inverse pairs.

Monitor: a hook on the real ``AxialExpansionChanger.axiallyExpandAssembly`` snapshots the assembly before and after every
execution (also the ones armi performs itself while building from blueprints): block z's and heights, grid bounds,
per-component mass / number densities / z's, the factors and target designation recorded in ``expansionData`` and the
component linkage.  An offline checker applies the laws of the statement, each only under its own premise.

Construction (expandColdDimsToHot): the hook fires after armi's applyColdHeightMassIncrease, so the execution's own before/after masses cannot
see that step.  The input-to-hot law therefore compares the mass after construction with the input itself: material.density(Tinput) x cold
area x input block height, for each block's target sitting on the block boundary and every solid of a uniformly grown block (tight for
materials whose density(T) is the cube of their linear expansion, a named loose tolerance otherwise).

Temperature grids are ascending in ~80 % of the thermal operations and listed in another order otherwise (same points, same values).
Fluids: number densities of fluids and of the top block are untouched by every execution and restored (with their masses) by inverse pairs.
"""
import math
import os
import random

PROP = "C12"
LEVEL = "exploration"
RULE = (
    "assemblies of 3-9 hex pin-type blocks sharing one pin geometry (layouts drawn from grid plate/duct/axial shield/fuel/control/plenum/"
    "aclp plenum + top dummy; optional liner, wire, bond; structure HT9/Zr/Inconel600, fuel UZr/UO2, absorber B4C; per block an explicit "
    "(any solid) or automatic target component; a few assemblies without dummy block or with unrelated pin geometries as refusal/out-of-domain "
    "probes) built directly, from generated blueprints (cold->hot expansion at construction, detailedAxialExpansion on/off) and from "
    "armi/tests/detailedAxialExpansion; each driven by a program of 2-6 operations from {prescribed: one factor per assembly / per block / "
    "per component / targets only / named components only, factors in 0.92..1.08 (rarely 0.5..2 to provoke refusal); thermal: isothermal, "
    "ramp or piecewise temperature fields 300..650 C on random grids, ~20 % of them with grid points and values listed in a shuffled order} "
    "with inverse pairs. A case = one execution of axiallyExpandAssembly; "
    "distinct = (route, block layout with target designation, operation mode, position in program); non-trivial = some factor != 1."
)
TOLERANCES = {
    "mass_rel": 1e-10,          # conservation of a component's mass over one expansion
    "height_rel": 1e-12,        # sum of block heights, height == ztop - zbottom, component height == f*h0 (relative to assembly height)
    "factor_rel": 1e-12,        # recorded factor vs prescribed / material law
    "temperature_rel": 1e-12,   # block-average temperature
    "inverse_rel": 1e-9,        # expand-then-inverse restores z, ndens, mass
    "known_ratio_abs": 1e-9,    # |observed mass ratio - closed form of the known mechanism|
    "input_to_hot_mass_rel": 1e-9,  # mass after construction vs density(Tinput)*cold area*input height, material whose density(T) is refDens/(1+dLL(T))^3
    "input_to_hot_mass_rel_inconsistent_material": 2e-3,  # same, material whose density(T) correlation is not the cube of its linear expansion (C03's subject)
}
EXHAUSTIVE = {"quick": False, "thorough": False}
EXHAUSTIVE_PART = "none (sampled)"
FLOORS = {
    "quick": {"workload.components-sharing-one-vector": 30, "refusal.negative-height-of-an-intermediate-block": 4, "law.height": 1100, "law.contiguity": 1100, "law.grid": 1100, "law.boundary": 5500, "law.target-mass": 5500, "law.uniform-solid-mass": 4500,
              "law.stacked": 10000, "law.component-height": 15000, "law.factors": 1100, "law.linkage": 1100, "law.inverse": 120, "law.temperature": 450,
              "hook:AxialExpansionChanger.axiallyExpandAssembly": 1100, "construction.expandColdDimsToHot": 70,
              "law.input-to-hot-mass": 500, "law.input-to-hot-mass.tight": 500, "law.input-to-hot-mass.loose": 6, "law.fluid-density-untouched": 1100,
              "law.inverse-fluid": 1700, "law.target-designation": 5200, "law.unsorted-grid": 85, "thermal.field-at-zero-celsius": 30},
    "thorough": {"workload.components-sharing-one-vector": 350, "refusal.negative-height-of-an-intermediate-block": 60, "law.height": 13000, "law.contiguity": 13000, "law.grid": 13000, "law.boundary": 65000, "law.target-mass": 65000, "law.uniform-solid-mass": 55000,
                 "law.stacked": 130000, "law.component-height": 190000, "law.factors": 13000, "law.linkage": 13000, "law.inverse": 1500, "law.temperature": 5500,
                 "hook:AxialExpansionChanger.axiallyExpandAssembly": 13000, "construction.expandColdDimsToHot": 800,
                 "law.input-to-hot-mass": 6500, "law.input-to-hot-mass.tight": 6500, "law.input-to-hot-mass.loose": 100, "law.fluid-density-untouched": 13000,
                 "law.inverse-fluid": 21000, "law.target-designation": 65000, "law.unsorted-grid": 1100, "thermal.field-at-zero-celsius": 350},
}
TIMEOUT = {"quick": 600, "thorough": 3600}
ASSUMPTIONS = [
    "armi.materials.material.Fluid membership is taken as the definition of 'solid component' (material library, judged in C19, not the converter under test)",
    "Material.linearExpansionPercent is the trusted expansion law for the thermal growth factor (judged in C03)",
    "axial linkage of two components is judged by the documented rule (both solid, same shape class, same multiplicity, max(inner) < min(outer) at cold "
    "dimensions) evaluated by the harness on Circle (id, od), Hexagon (ip, op) and Helix (helixDiameter -/+ od); other shapes are not generated",
    "input state of a component for the cold-height law: Material.density(Tc=Tinput) and Component.getArea(cold=True) are trusted (material library / "
    "geometry, C03); the law is applied only where the hot cross-section is the cold one grown by the material's own law (no dimension linked to another "
    "component) and the component has no custom isotopics; a material is 'self-consistent' when density(T)*(1+dLL(T))^3 agrees at Tinput and Thot",
    "target designation on armi/tests/detailedAxialExpansion is read off the blueprint block names and component names of that input (reference_target)",
]
KNOWN_KEY = "target-mass/linked-below-nontarget-differential-growth"
# one mechanism, two symptoms (a block holding grid points is refused / a block average over a subset of its points): the scan of the
# temperature grid stops at the first point above the block's top, so points listed after it are never seen
UNSORTED_KEY = "thermal/unsorted-grid/points-listed-after-a-higher-point-ignored"


def plan(tier, seed):
    q = tier == "quick"
    out = [{"name": "direct%d" % i, "kind": "direct", "n": 45 if q else 560} for i in range(8)]
    out += [{"name": "bp%d" % i, "kind": "blueprint", "n": 12 if q else 150} for i in range(4)]
    out += [{"name": "ref%d" % i, "kind": "reference", "n": 3 if q else 35, "hot": bool(i % 2)} for i in range(4)]
    return out


# ============================================================================================== generator
STRUCT = ["HT9", "HT9", "HT9", "Zr", "Inconel600"]
KIND_TARGET = {"grid plate": "grid", "duct": "duct", "axial shield": "shield", "fuel": "fuel", "control": "control", "plenum": "clad", "aclp plenum": "clad"}


def pin_geometry(rng):
    """One pin/duct geometry shared by every block of an assembly (taken from the shared generator's consistent fuel block)."""
    from vlib import gen

    base = gen.pin_block_spec(rng, kind="fuel", npins=rng.choice(gen.HEX_PIN_COUNTS[1:6]), bond=True, wire=True)
    by = {c["name"]: c for c in base["components"]}
    return {"npins": base["npins"], "pitch": base["pitch"], "clad_id": by["clad"]["id"], "clad_od": by["clad"]["od"], "wire_od": by["wire"]["od"],
            "helixDiameter": by["wire"]["helixDiameter"], "axialPitch": by["wire"]["axialPitch"], "duct_ip": by["duct"]["ip"], "duct_op": by["duct"]["op"]}


def block_spec(rng, kind, g, opt):
    """Component list of one block of `kind` on pin geometry g.  opt: smat, fmat, same (all solids one material), wire, liner, hot, coolant."""
    hot = opt["hot"]
    T = (lambda lo, hi: rng.uniform(lo, hi)) if hot else (lambda lo, hi: 25.0)
    Tc = T(350, 500)
    Ts = T(350, 520)
    Tf = T(450, 650)
    smat = opt["smat"] if not opt.get("mixstruct") else rng.choice(STRUCT)
    pinmat = {"fuel": opt["fmat"], "control": "B4C", "axial shield": smat}.get(kind)
    if opt["same"]:
        pinmat = smat
    cool = opt["coolant"]
    n = g["npins"]
    comps = []
    pins = kind in ("fuel", "control", "axial shield", "plenum", "aclp plenum")
    if kind == "grid plate":
        comps.append({"name": "grid", "shape": "Hexagon", "material": smat, "Tinput": 25.0, "Thot": Ts, "ip": g["duct_ip"] * rng.uniform(.5, .98), "op": g["duct_op"], "mult": 1})
        comps.append({"name": "coolant", "shape": "DerivedShape", "material": cool, "Tinput": Tc, "Thot": Tc})
        comps.append({"name": "intercoolant", "shape": "Hexagon", "material": cool, "Tinput": Tc, "Thot": Tc, "ip": "grid.op", "op": g["pitch"], "mult": 1})
        return {"components": comps, "kind": kind, "pitch": g["pitch"]}
    if pins:
        first = {"fuel": "fuel", "control": "control", "axial shield": "shield"}.get(kind)
        liner = opt["liner"] and kind in ("fuel", "control")
        inner_limit = g["clad_id"]
        lin_id = None
        if liner:
            lin_id = g["clad_id"] * rng.uniform(.93, .97)
            inner_limit = lin_id
        if first:
            pod = inner_limit * rng.uniform(.75, .95)
            if kind == "fuel" and opt.get("annular") and not opt["same"]:
                comps.append({"name": first, "shape": "Circle", "material": pinmat, "Tinput": 25.0, "Thot": Tf if kind == "fuel" else Ts, "id": pod * rng.uniform(.15, .3), "od": pod, "mult": n})
            else:
                comps.append({"name": first, "shape": "Circle", "material": pinmat, "Tinput": 25.0, "Thot": Tf if kind == "fuel" else Ts, "id": 0.0, "od": pod, "mult": n})
            gapname, gapmat = ("bond", cool) if kind != "control" else ("gap", "Void")
            comps.append({"name": gapname, "shape": "Circle", "material": gapmat, "Tinput": Tc, "Thot": Tc, "id": "%s.od" % first, "od": "liner.id" if liner else "clad.id", "mult": "%s.mult" % first})
            if liner:
                # the liner touches the clad exactly (liner.od == clad.id at cold): touching components are NOT linked (strict inequality)
                comps.append({"name": "liner", "shape": "Circle", "material": rng.choice(["Zr", "HT9"]) if not opt["same"] else smat, "Tinput": 25.0, "Thot": Ts, "id": lin_id, "od": g["clad_id"], "mult": "%s.mult" % first})
            comps.append({"name": "clad", "shape": "Circle", "material": smat, "Tinput": 25.0, "Thot": Ts, "id": g["clad_id"], "od": g["clad_od"], "mult": "%s.mult" % first})
            multref = "%s.mult" % first
        else:
            comps.append({"name": "gap", "shape": "Circle", "material": "Void", "Tinput": Tc, "Thot": Tc, "id": 0.0, "od": "clad.id", "mult": "clad.mult"})
            comps.append({"name": "clad", "shape": "Circle", "material": smat, "Tinput": 25.0, "Thot": Ts, "id": g["clad_id"], "od": g["clad_od"], "mult": n})
            multref = "clad.mult"
        if opt["wire"]:
            comps.append({"name": "wire", "shape": "Helix", "material": smat, "Tinput": 25.0, "Thot": Ts, "axialPitch": g["axialPitch"], "helixDiameter": g["helixDiameter"], "id": 0.0, "od": g["wire_od"], "mult": multref})
    comps.append({"name": "coolant", "shape": "DerivedShape", "material": cool, "Tinput": Tc, "Thot": Tc})
    comps.append({"name": "duct", "shape": "Hexagon", "material": smat, "Tinput": 25.0, "Thot": Ts, "ip": g["duct_ip"], "op": g["duct_op"], "mult": 1})
    comps.append({"name": "intercoolant", "shape": "Hexagon", "material": cool, "Tinput": Tc, "Thot": Tc, "ip": "duct.op", "op": g["pitch"], "mult": 1})
    return {"components": comps, "kind": kind, "pitch": g["pitch"]}


def dummy_spec(g, opt, T=None):
    Tc = T if T is not None else (450.0 if opt["hot"] else 25.0)
    return {"components": [{"name": "coolant", "shape": "Hexagon", "material": opt["coolant"], "Tinput": Tc, "Thot": Tc, "ip": 0.0, "op": g["pitch"], "mult": 1}], "kind": "dummy", "pitch": g["pitch"]}


def layout(rng):
    """Block kinds bottom to top (without the dummy)."""
    fam = rng.choice(["fuel", "fuel", "fuel", "control", "shield", "mixed"])
    if fam == "fuel":
        ks = (["grid plate"] if rng.random() < .6 else []) + (["axial shield"] if rng.random() < .6 else []) + ["fuel"] * rng.randint(1, 4) + \
             (["plenum"] if rng.random() < .8 else []) + (["aclp plenum"] if rng.random() < .3 else []) + (["plenum"] if rng.random() < .15 else []) + (["duct"] if rng.random() < .4 else [])
    elif fam == "control":
        ks = (["grid plate"] if rng.random() < .6 else []) + ["duct"] * rng.randint(0, 2) + ["control"] * rng.randint(1, 2) + (["plenum"] if rng.random() < .5 else []) + ["duct"] * rng.randint(0, 2)
    elif fam == "shield":
        ks = (["grid plate"] if rng.random() < .6 else []) + ["axial shield"] * rng.randint(1, 3) + (["plenum"] if rng.random() < .5 else []) + (["duct"] if rng.random() < .5 else [])
    else:
        ks = [rng.choice(["grid plate", "duct", "axial shield", "fuel", "control", "plenum", "aclp plenum"]) for _ in range(rng.randint(2, 8))]
    ks = ks[:8]
    while len(ks) < 2:
        ks.append("duct")
    return ks


def assembly_spec(rng, hot=None, heights=None, kinds=None, g=None):
    """The generator's own description of one assembly: block specs, heights, explicit targets."""
    g = g or pin_geometry(rng)
    hot = (rng.random() < .6) if hot is None else hot
    opt = {"smat": rng.choice(STRUCT), "fmat": rng.choice(["UZr", "UZr", "UO2"]), "same": rng.random() < .25, "wire": rng.random() < .7, "liner": rng.random() < .25,
           "hot": hot, "coolant": rng.choice(["Sodium", "Sodium", "Lead"]), "mixstruct": rng.random() < .2, "annular": rng.random() < .15}
    kinds = kinds or layout(rng)
    special = None
    r = rng.random()
    if r < .04:
        special = "no-dummy"
    elif r < .09:
        special = "unrelated-geometry"
    blocks = []
    for k in kinds:
        gk = pin_geometry(rng) if special == "unrelated-geometry" else g
        bs = block_spec(rng, k, gk, opt)
        solids = [c["name"] for c in bs["components"] if c["material"] not in ("Sodium", "Lead", "Void")]
        bs["explicit_target"] = rng.choice(solids) if rng.random() < .3 else None
        bs["expected_target"] = bs["explicit_target"] or KIND_TARGET[k]
        blocks.append(bs)
    if special != "no-dummy":
        blocks.append(dummy_spec(g, opt))
    hs = heights or [round(rng.uniform(5, 40), 3) for _ in kinds] + ([round(rng.choice([rng.uniform(25, 80), rng.uniform(25, 80), rng.uniform(2, 12)]), 3)] if special != "no-dummy" else [])
    return {"blocks": blocks, "heights": hs[:len(blocks)], "opt": opt, "special": special, "geom": g}


def describe(aspec):
    return {"blocks": [{"kind": b["kind"], "h": h, "explicit_target": b.get("explicit_target"),
                        "components": [(c["name"], c["shape"], c["material"], c["Thot"]) for c in b["components"]]} for b, h in zip(aspec["blocks"], aspec["heights"])],
            "special": aspec["special"]}


def layout_sig(aspec):
    return [(b["kind"], b.get("explicit_target") or "auto", len(b["components"])) for b in aspec["blocks"]] + [aspec["opt"]["same"], aspec["special"]]


def build_direct(aspec):
    from armi.reactor import assemblies, grids
    from vlib import gen

    a = assemblies.HexAssembly("fuel")
    a.spatialGrid = grids.AxialGrid.fromNCells(len(aspec["blocks"]))
    a.spatialGrid.armiObject = a
    for bs, h in zip(aspec["blocks"], aspec["heights"]):
        b = gen.build_block(bs, float(h), name=bs["kind"])
        b.setType(bs["kind"])
        if bs.get("explicit_target"):
            b.setAxialExpTargetComp(b.getComponentByName(bs["explicit_target"]))
        a.add(b)
    a.calculateZCoords()
    a.reestablishBlockOrder()
    return a


def blueprint_text(designs):
    """Render 1-3 assembly designs (same number of blocks and heights) as a blueprint; block-level keys the shared renderer
    does not know (flags, axial expansion target component) are inserted after the block header line."""
    from vlib import gen

    spec = {"blocks": {}, "assemblies": {}, "grids": {}}
    extra = {}
    specs = []
    for d, asp in enumerate(designs):
        names = []
        for k, bs in enumerate(asp["blocks"]):
            nm = "d%db%d" % (d, k)
            spec["blocks"][nm] = {"components": bs["components"]}
            extra[nm] = ["flags: %s" % bs["kind"]] + (["axial expansion target component: %s" % bs["explicit_target"]] if bs.get("explicit_target") else [])
            names.append(nm)
        sp = "A%d" % d
        specs.append(sp)
        spec["assemblies"]["design%d" % d] = {"specifier": sp, "blocks": names, "height": asp["heights"], "axial mesh points": [1] * len(names), "xs types": ["A"] * len(names)}
    cells = [(0, 0), (1, 0), (0, 1), (-1, 1), (-1, 0), (0, -1), (1, -1)]
    spec["grids"]["core"] = {"geom": "hex", "symmetry": "full", "contents": {c: specs[i % len(specs)] for i, c in enumerate(cells[:max(1, len(specs))])}}
    spec["nuclide flags"] = gen.nuclide_flags_for(spec)
    text = gen.render_blueprint(spec)
    lines = []
    for ln in text.splitlines():
        lines.append(ln)
        s = ln.strip()
        if ln.startswith("    ") and not ln.startswith("     ") and ": &block_" in s:
            nm = s.split(":")[0]
            for e in extra.get(nm, []):
                lines.append("        " + e)
    return "\n".join(lines) + "\n"


# ============================================================================================== monitor (hook + snapshots)
EVENTS = []      # completed events: {"pre":…, "post":…, "meta":…}
ABORTED = []     # events whose axiallyExpandAssembly raised
WORST = {}       # largest relative errors seen by the loose-tolerance laws (reported as notes)


def is_solid(c):
    from armi.materials import material

    return not isinstance(c.material, material.Fluid)


def extent(c):
    """(inner, outer) radial extent at cold dimensions in the shape's own measure (only same shapes are ever compared)."""
    n = type(c).__name__
    d = lambda k: c.getDimension(k, cold=True)  # noqa: E731
    if n == "Circle":
        return (d("id"), d("od"))
    if n == "Hexagon":
        return (d("ip"), d("op"))
    if n == "Helix":
        return (d("helixDiameter") - d("od"), d("helixDiameter") + d("od"))
    return None


def documented_link(c1, c2):
    """The documented linkage rule, evaluated by the harness. None = shape outside what the harness evaluates."""
    if not (is_solid(c1) and is_solid(c2)) or type(c1) is not type(c2) or c1.getDimension("mult") != c2.getDimension("mult"):
        return False
    e1, e2 = extent(c1), extent(c2)
    if e1 is None or e2 is None:
        return None
    return max(e1[0], e2[0]) < min(e1[1], e2[1])


def input_state(c):
    """What the input says about a solid component that is about to be expanded from Tinput to Thot: the material's own 3D density at the
    input temperature, the cross-section at the input (cold) dimensions, and whether the material library is self-consistent at the two
    temperatures involved (density(T)*(1+dLL(T))^3 the same at Tinput and Thot, pseudoDensity(Thot) == density(Thot)*(1+dLL(Thot))).
    Premise of the law: the cross-section grows freely, area(Thot) == area(cold) * ((1+dLL(Thot))/(1+dLL(Tinput)))^2.
    Only trusted material / geometry calls (ASSUMPTIONS); nothing of the converter."""
    try:
        if c.p.customIsotopicsName:
            return {"skip": "custom isotopics (number densities given by the input, not by the material's density)"}
        m = c.material
        Ti, Th = c.inputTemperatureInC, c.temperatureInC
        ei, eh = 1.0 + m.linearExpansionPercent(Tc=Ti) / 100.0, 1.0 + m.linearExpansionPercent(Tc=Th) / 100.0
        ri, rh, ph = m.density(Tc=Ti), m.density(Tc=Th), m.pseudoDensity(Tc=Th)
        consistent = abs(ri * ei ** 3 - rh * eh ** 3) <= 1e-12 * abs(rh * eh ** 3) and abs(ph - rh * eh) <= 1e-12 * abs(ph)
        ac, ah = c.getArea(cold=True), c.getArea()
        if not abs(ah - ac * (eh / ei) ** 2) <= 1e-10 * abs(ah):
            # e.g. a pellet whose od is linked to the id of a Void gap: its hot cross-section is dictated by the other component
            return {"skip": "cross-section does not expand by the component's own material law (a dimension is linked to another component)"}
        return {"rho": ri, "area": ac, "consistent": bool(consistent), "Tin": Ti, "Thot": Th}
    except Exception as e:  # the trusted law refused: nothing to compare with
        return {"skip": "material density / cold area not evaluable (%s)" % type(e).__name__}


def mass_of(c):
    try:
        return c.getMass()
    except ArithmeticError:  # negative volume: a block of negative height was accepted - reported by the contiguity law, not as a crash of the monitor
        return float("nan")


def snapshot(a):
    from armi.reactor.flags import Flags

    blocks = []
    for b in a:
        comps = []
        for c in b:
            comps.append({"id": id(c), "name": c.name, "solid": is_solid(c), "mass": mass_of(c), "nd": dict(c.p.numberDensities), "zb": getattr(c, "zbottom", None),
                          "zt": getattr(c, "ztop", None), "h": getattr(c, "height", None), "T": c.temperatureInC, "Tin": c.inputTemperatureInC, "mat": type(c.material).__name__})
        blocks.append({"type": b.getType(), "sym": b.getSymmetryFactor(), "zb": b.p.zbottom, "zt": b.p.ztop, "ph": b.p.height, "gh": b.getHeight(), "z": b.p.z, "dummy": b.hasFlags(Flags.DUMMY), "comps": comps,
                       "tname": b.p.axialExpTargetComponent, "k": b.spatialLocator.k if b.spatialLocator is not None and hasattr(b.spatialLocator, "k") else None})
    bounds = a.spatialGrid._bounds[2] if a.spatialGrid is not None else None
    return {"blocks": blocks, "grid": [float(x) for x in bounds] if bounds is not None else None}


def install_hook():
    from armi.reactor.converters.axialExpansionChanger import AxialExpansionChanger
    from vlib import hooks

    def pre(args, kw):
        ch = args[0]
        a = ch.linked.a
        s = snapshot(a)
        ed = ch.expansionData
        meta = {"aid": id(a), "fromTinput": bool(ed.expandFromTinputToThot), "factors": {}, "targets": set(), "lower": {}, "doc_lower": {}, "objs": {}, "detailed": bool(ch._detailedAxialExpansion),
                "input": {}}
        prev_solids = []
        for b in a:
            cur = [c for c in b if is_solid(c)]
            for c in cur:
                meta["objs"][id(c)] = c
                if meta["fromTinput"]:
                    meta["input"][id(c)] = input_state(c)
                meta["factors"][id(c)] = ed._expansionFactors.get(c, 1.0)
                if c in ed._componentDeterminesBlockHeight:
                    meta["targets"].add(id(c))
                lk = ch.linked.linkedComponents.get(c)
                meta["lower"][id(c)] = id(lk.lower) if lk is not None and lk.lower is not None else None
                cands = [(k, documented_link(c, k)) for k in prev_solids]
                meta["doc_lower"][id(c)] = [id(k) for k, v in cands if v] if all(v is not None for _, v in cands) else "unknown-shape"
            prev_solids = cur
        return (a, s, meta)

    def post(tok, res, args, kw):
        a, s, meta = tok
        EVENTS.append({"pre": s, "post": snapshot(a), "meta": meta})

    def onerror(tok, exc, args, kw):
        a, s, meta = tok
        ABORTED.append({"pre": s, "meta": meta, "a": a, "exc": type(exc).__name__, "msg": str(exc)[:200]})

    hooks.wrap(AxialExpansionChanger, "axiallyExpandAssembly", pre=pre, post=post, onerror=onerror)


# ============================================================================================== offline checker
def rel(a, b, tol, scale=0.0):
    return abs(a - b) <= tol * max(abs(a), abs(b), scale)


def judge_event(rec, ev, w, expect=None, judge_mass=True):
    """Apply the per-execution laws to one recorded event. expect: {"factors": {component id: f}} from the driver (independent of
    what armi recorded) or None.  Returns a summary used by the inverse law: {"uniform": all blocks below the top grew uniformly}."""
    pre, post, meta = ev["pre"], ev["post"], ev["meta"]
    nb = len(pre["blocks"])
    H = pre["blocks"][-1]["zt"] - pre["blocks"][0]["zb"]
    T = TOLERANCES
    fac = dict(meta["factors"])
    # ---- factors recorded == what the caller prescribed / what the material law gives
    if expect is not None:
        rec.hit("law.factors")
        for cid, f in expect["factors"].items():
            if cid in fac and not rel(fac[cid], f, T["factor_rel"]):
                rec.violation("factors/recorded-differs-from-%s" % expect["kind"], "expansionData holds %r for a component whose %s factor is %r" % (fac[cid], expect["kind"], f), dict(w, expected=f, recorded=fac[cid]))
                break
        for cid in fac:
            if cid in expect["factors"]:
                fac[cid] = expect["factors"][cid]
    # ---- L1 total height
    rec.hit("law.height")
    top0, top1 = pre["blocks"][-1]["zt"], post["blocks"][-1]["zt"]
    bot0, bot1 = pre["blocks"][0]["zb"], post["blocks"][0]["zb"]
    s1 = sum(b["gh"] for b in post["blocks"])
    s0 = sum(b["gh"] for b in pre["blocks"])
    if top1 != top0 or bot1 != bot0:
        rec.violation("height/assembly-top-or-bottom-moved", "assembly spans %r..%r before and %r..%r after" % (bot0, top0, bot1, top1), w)
    if not rel(s1, s0, T["height_rel"]):
        rec.violation("height/sum-of-block-heights-changed", "sum of block heights %r -> %r" % (s0, s1), w)
    # ---- L2 contiguity, positive heights, grid
    rec.hit("law.contiguity")
    for i, b in enumerate(post["blocks"]):
        if i and b["zb"] != post["blocks"][i - 1]["zt"]:
            rec.violation("contiguity/block-bottom-not-top-of-block-below", "block %d (%s) zbottom %r, block below ztop %r" % (i, b["type"], b["zb"], post["blocks"][i - 1]["zt"]), dict(w, block=i))
            break
        if not (b["gh"] > 0):
            rec.violation("contiguity/non-positive-height", "block %d (%s) height %r" % (i, b["type"], b["gh"]), dict(w, block=i))
            break
        if b["gh"] != b["ph"] or not rel(b["gh"], b["zt"] - b["zb"], T["height_rel"], H):
            rec.violation("contiguity/height-not-ztop-minus-zbottom", "block %d height %r, ztop-zbottom %r" % (i, b["gh"], b["zt"] - b["zb"]), dict(w, block=i))
            break
        if not rel(b["z"], (b["zt"] + b["zb"]) / 2, T["height_rel"], H):
            rec.violation("contiguity/block-centre-not-midpoint", "block %d p.z %r, midpoint %r" % (i, b["z"], (b["zt"] + b["zb"]) / 2), dict(w, block=i))
            break
    rec.hit("law.grid")
    want = [post["blocks"][0]["zb"]] + [b["zt"] for b in post["blocks"]]
    if post["grid"] is None or list(post["grid"]) != want:
        rec.violation("grid/axial-bounds-differ-from-block-elevations", "grid z bounds %r, block elevations %r" % (post["grid"], want), w)
    if any(b["k"] is not None and b["k"] != i for i, b in enumerate(post["blocks"])):
        rec.violation("grid/block-locator-index", "block locators %r are not 0..n-1" % [b["k"] for b in post["blocks"]], w)
    # ---- linkage: armi's record vs the documented rule
    rec.hit("law.linkage")
    for cid, doc in meta["doc_lower"].items():
        if doc == "unknown-shape":
            rec.add("linkage not judged: shape outside Circle/Hexagon/Helix")
            continue
        got = meta["lower"][cid]
        if (got is None and doc) or (got is not None and doc != [got]):
            rec.violation("linkage/recorded-link-differs-from-documented-rule", "component linked below to %s by armi, documented rule gives %d candidates" % ("nothing" if got is None else "a component", len(doc)),
                          dict(w, component=name_of(pre, cid), armi_lower=name_of(pre, got), rule_lower=[name_of(pre, x) for x in doc]))
            break
    # ---- number densities of fluids (and of everything in the top block) are not touched by an axial change of the solids
    rec.hit("law.fluid-density-untouched")
    for i, (b0, b1) in enumerate(zip(pre["blocks"], post["blocks"])):
        bad = next((c0 for c0, c1 in zip(b0["comps"], b1["comps"]) if (i == nb - 1 or not c0["solid"]) and (c0["id"] != c1["id"] or c0["nd"] != c1["nd"])), None)
        if bad is not None:
            rec.violation("density/%s-number-densities-changed" % ("top-block" if i == nb - 1 else "fluid"), "block %d (%s) %s: number densities changed by axiallyExpandAssembly although it is %s"
                          % (i, b0["type"], bad["name"], "in the top block" if i == nb - 1 else "a fluid"), dict(w, block=i, component=bad["name"]))
            break
    # ---- per block laws below the top block
    has_dummy = pre["blocks"][-1]["dummy"]
    if not has_dummy and judge_mass:
        rec.skip("assembly without a top dummy block: mass clauses not judged (statement quantifies over assemblies with one; armi warns)")
    all_uniform = True
    target_of_block = {}
    for i in range(nb - 1):
        tg = [c["id"] for c in pre["blocks"][i]["comps"] if c["id"] in meta["targets"]]
        target_of_block[i] = tg[0] if len(tg) == 1 else None
    post_c = {c["id"]: (i, c) for i, b in enumerate(post["blocks"]) for c in b["comps"]}
    pre_c = {c["id"]: (i, c) for i, b in enumerate(pre["blocks"]) for c in b["comps"]}

    def block_uniform(j):
        return len({fac.get(c["id"], 1.0) for c in pre["blocks"][j]["comps"] if c["solid"]}) <= 1

    def differential_growth_below(i):
        """Did some block below block i grow non-uniformly (a solid by another factor than the rest)?  If every block below grew
        uniformly all component tops coincide with block tops and no stack can be offset from the block boundaries."""
        return any(not block_uniform(j) for j in range(i))

    for i in range(nb - 1):
        b0, b1 = pre["blocks"][i], post["blocks"][i]
        h0 = b0["gh"]
        solids = [c for c in b0["comps"] if c["solid"]]
        tid = target_of_block[i]
        ntg = sum(1 for c in solids if c["id"] in meta["targets"])
        if ntg != 1:
            rec.violation("target/block-without-exactly-one-target", "block %d (%s) has %d target components" % (i, b0["type"], ntg), dict(w, block=i))
            all_uniform = False
            continue
        tname = pre_c[tid][1]["name"]
        exp_t = (w.get("expected_targets") or {}).get(i)
        if exp_t is not None:
            rec.hit("law.target-designation")
        if exp_t is not None and exp_t != tname:
            rec.violation("target/designation-differs-from-documented-rule", "block %d (%s): target %r, the blueprint/flag rule designates %r" % (i, b0["type"], tname, exp_t), dict(w, block=i))
        # L3 boundary moves with target
        rec.hit("law.boundary")
        t1 = post_c[tid][1]
        if b1["zt"] != t1["zt"]:
            rec.violation("boundary/block-top-differs-from-target-top", "block %d (%s) ztop %r, target %s ztop %r" % (i, b0["type"], b1["zt"], tname, t1["zt"]), dict(w, block=i))
        fs = {fac.get(c["id"], 1.0) for c in solids}
        uniform = len(fs) == 1
        all_uniform = all_uniform and uniform
        known_ratio = None
        for c0 in solids:
            cid = c0["id"]
            c1 = post_c[cid][1]
            f = fac.get(cid, 1.0)
            # component grows by its factor
            rec.hit("law.component-height")
            if c1["zt"] is None or c1["zb"] is None or not rel(c1["zt"] - c1["zb"], f * h0, T["height_rel"], H):
                rec.violation("component/height-not-factor-times-block-height", "block %d %s: ztop-zbottom %r, factor %r x block height %r = %r" % (i, c0["name"], None if c1["zt"] is None else c1["zt"] - c1["zb"], f, h0, f * h0),
                              dict(w, block=i, component=c0["name"]))
                continue
            # L6 stacked on the component linked below
            doc = meta["doc_lower"].get(cid)
            if i > 0 and isinstance(doc, list) and len(doc) == 1 and doc[0] in post_c:
                rec.hit("law.stacked")
                lo = post_c[doc[0]][1]
                if c1["zb"] != lo["zt"]:
                    rec.violation("stacking/linked-component-not-on-top-of-lower", "block %d %s zbottom %r, linked %s below has ztop %r" % (i, c0["name"], c1["zb"], lo["name"], lo["zt"]), dict(w, block=i, component=c0["name"]))
            if not (judge_mass and has_dummy):
                continue
            m0, m1 = c0["mass"], c1["mass"]
            if cid == tid:
                # L4 target mass always conserved
                rec.hit("law.target-mass")
                if m0 > 0 and not rel(m1, m0, T["mass_rel"]):
                    off = c1["zb"] - b1["zb"]
                    ratio = m1 / m0
                    lo = meta["lower"].get(cid)
                    closed = 1.0 + off / (f * h0)
                    known = (i > 0 and off != 0 and lo is not None and meta["doc_lower"].get(cid) == [lo] and lo not in meta["targets"] and c1["zb"] == post_c[lo][1]["zt"]
                             and differential_growth_below(i) and abs(ratio - closed) <= T["known_ratio_abs"])
                    ww = dict(w, block=i, block_type=b0["type"], target=tname, mass_before=m0, mass_after=m1, ratio=ratio, target_zbottom=c1["zb"], block_zbottom=b1["zb"], factor=f,
                              linked_below=name_of(pre, lo), block_factors={c["name"]: fac.get(c["id"], 1.0) for c in solids},
                              below_factors={c["name"]: fac.get(c["id"], 1.0) for c in pre["blocks"][i - 1]["comps"] if c["solid"]} if i else None)
                    if known:
                        known_ratio = ratio
                        rec.violation(KNOWN_KEY, "target %s of block %d (%s) mass %r -> %r (x%.6f): it is stacked on non-target %s of the block below whose top (%r) is not the block boundary (%r), "
                                      "so the block height given by the target's top is not the target's own grown height" % (tname, i, b0["type"], m0, m1, ratio, name_of(pre, lo), c1["zb"], b1["zb"]), ww)
                    else:
                        rec.violation("target-mass/not-conserved/%s" % ("on-block-boundary" if off == 0 else "offset-not-explained-by-link-below"),
                                      "target %s of block %d (%s) mass %r -> %r (x%.9f), target zbottom %r block zbottom %r" % (tname, i, b0["type"], m0, m1, ratio, c1["zb"], b1["zb"]), ww)
        if judge_mass and has_dummy and uniform:
            # L5 every solid conserved when the whole block grows by one factor
            for c0 in solids:
                if c0["id"] == tid or not c0["mass"] > 0:
                    continue
                rec.hit("law.uniform-solid-mass")
                m0, m1 = c0["mass"], post_c[c0["id"]][1]["mass"]
                if not rel(m1, m0, T["mass_rel"]):
                    if known_ratio is not None and abs(m1 / m0 - known_ratio) <= T["known_ratio_abs"]:
                        rec.add("solids of a uniformly grown block changed by the block-height error already reported under " + KNOWN_KEY)
                    else:
                        rec.violation("solid-mass/uniform-block-not-conserved", "block %d (%s) grew uniformly by %r but %s mass %r -> %r" % (i, b0["type"], next(iter(fs)), c0["name"], m0, m1),
                                      dict(w, block=i, component=c0["name"], ratio=m1 / m0))
    return {"uniform": all_uniform, "has_dummy": has_dummy}


def name_of(snap, cid):
    if cid is None:
        return None
    for i, b in enumerate(snap["blocks"]):
        for c in b["comps"]:
            if c["id"] == cid:
                return "%d:%s/%s" % (i, b["type"], c["name"])
    return "?"


def judge_inverse(rec, s0, s2, w):
    """state before E and after E then E^-1, every block having grown uniformly: heights, densities, masses restored."""
    rec.hit("law.inverse")
    tol = TOLERANCES["inverse_rel"]
    H = s0["blocks"][-1]["zt"]
    for i, (b0, b2) in enumerate(zip(s0["blocks"], s2["blocks"])):
        if not (rel(b0["zb"], b2["zb"], tol, H) and rel(b0["zt"], b2["zt"], tol, H) and rel(b0["gh"], b2["gh"], tol, H)):
            rec.violation("inverse/heights-not-restored", "block %d: z %r..%r -> %r..%r after expansion and its inverse" % (i, b0["zb"], b0["zt"], b2["zb"], b2["zt"]), dict(w, block=i))
            return
        top = i == len(s0["blocks"]) - 1
        for c0, c2 in zip(b0["comps"], b2["comps"]):
            if top and c0["solid"]:
                continue  # solids of the top block are outside the statement (it absorbs the change)
            if not c0["solid"]:
                rec.hit("law.inverse-fluid")
            for nuc, n0 in c0["nd"].items():
                if not rel(n0, c2["nd"].get(nuc, float("nan")), tol):
                    rec.violation("inverse/number-density-not-restored", "block %d %s N(%s) %r -> %r" % (i, c0["name"], nuc, n0, c2["nd"].get(nuc)), dict(w, block=i, component=c0["name"]))
                    return
            if not rel(c0["mass"], c2["mass"], tol):
                rec.violation("inverse/mass-not-restored", "block %d %s mass %r -> %r" % (i, c0["name"], c0["mass"], c2["mass"]), dict(w, block=i, component=c0["name"]))
                return


# ============================================================================================== driver
def solids_below_top(a):
    return [(ib, c) for ib, b in enumerate(list(a)[:-1]) for c in b if is_solid(c)]


def doc_multiple_links(a):
    """Does the documented rule give some solid component two linked components in a neighbouring block? (armi must refuse)"""
    bl = list(a)
    for i, b in enumerate(bl):
        for c in b:
            if not is_solid(c):
                continue
            for nb_ in ([bl[i - 1]] if i else []) + ([bl[i + 1]] if i + 1 < len(bl) else []):
                if sum(1 for k in nb_ if is_solid(k) and documented_link(c, k)) > 1:
                    return True
    return False


def gen_prescribed(rng, a, extreme=False):
    sb = solids_below_top(a)
    mode = rng.choice(["assembly", "block", "block", "component", "component", "component", "targets-only", "by-name", "identity"] if not extreme else ["component", "block"])
    lo, hi = (0.92, 1.08) if rng.random() < .7 else (0.96, 1.04)
    if extreme:
        lo, hi = 0.5, 2.0
    u = lambda: rng.uniform(lo, hi)  # noqa: E731
    comps, fs = [], []
    bl_ = list(a)
    if extreme and len(bl_) >= 3 and rng.random() < .6:
        # squeeze: one component of a block (mostly its target) grows by more than the height of the block above while the rest of the
        # block stays - a block above that is stacked on one of the others then cannot keep a positive height: a refusal is the only right outcome
        mode = "squeeze"
        ib_ = rng.randrange(len(bl_) - 2)
        grow = 1.0 + rng.uniform(1.05, 1.6) * bl_[ib_ + 1].getHeight() / bl_[ib_].getHeight()
        sol = [c for c in bl_[ib_] if is_solid(c)]
        tn = bl_[ib_].p.axialExpTargetComponent
        pick = next((c for c in sol if c.name == tn), None) if rng.random() < .8 else None
        pick = pick or (rng.choice(sol) if sol else None)
        comps, fs = [c for _, c in sb], [grow if c is pick else 1.0 for _, c in sb]
    elif mode == "assembly":
        f = u()
        comps, fs = [c for _, c in sb], [f] * len(sb)
    elif mode == "block":
        fb = {}
        for ib, c in sb:
            comps.append(c)
            fs.append(fb.setdefault(ib, u()))
    elif mode == "component":
        comps, fs = [c for _, c in sb], [u() for _ in sb]
    elif mode == "targets-only":
        for ib, c in sb:
            if c.parent.p.axialExpTargetComponent == c.name or (not c.parent.p.axialExpTargetComponent and c.name in ("fuel", "control", "shield", "grid")):
                comps.append(c)
                fs.append(u())
    elif mode == "by-name":
        nm = rng.choice(sorted({c.name for _, c in sb}))
        f = u()
        for ib, c in sb:
            if c.name == nm:
                comps.append(c)
                fs.append(f)
    else:
        comps, fs = [c for _, c in sb], [1.0] * len(sb)
    extra_fluid = False
    if rng.random() < .1:  # factors given for fluids or for the dummy block's content are never used
        for b in a:
            for c in b:
                if not is_solid(c) and rng.random() < .3:
                    comps.append(c)
                    fs.append(u())
                    extra_fluid = True
    return mode, comps, fs, extra_fluid


def gen_field(rng, a, force_iso=False):
    """(mode, grid, field) - a temperature field on a random grid; block midpoints added so every block holds a point (mostly).  The grid is
    ascending in ~80 % of the calls; otherwise grid and field are shuffled together (the same points listed in another order: the API takes
    'physical locations where temp is stored' and documents no ordering)."""
    H = a[-1].p.ztop
    mode = "isothermal" if force_iso else rng.choice(["isothermal", "ramp", "piecewise", "piecewise", "noisy"])
    n = rng.randint(3, 30)
    grid = sorted([rng.uniform(0, H) for _ in range(n)] + ([0.0, H] if rng.random() < .5 else []))
    cover = rng.random() < .93
    if cover:
        grid = sorted(grid + [(b.p.zbottom + b.p.ztop) / 2 for b in a])
    lo, hi = 300.0, 650.0
    if mode == "isothermal":
        t = rng.uniform(lo, hi)
        if rng.random() < .12:
            t = 0.0  # boundary value: exactly 0 C (falsy in python) as the temperature a later step expands from
        field = [t] * len(grid)
    elif mode == "ramp":
        t0, t1 = rng.uniform(lo, hi), rng.uniform(lo, hi)
        field = [t0 + (t1 - t0) * z / H for z in grid]
    elif mode == "piecewise":
        cuts = sorted(rng.uniform(0, H) for _ in range(rng.randint(1, 4)))
        vals = [rng.uniform(lo, hi) for _ in range(len(cuts) + 1)]
        field = [vals[sum(1 for c in cuts if c <= z)] for z in grid]
    else:
        field = [rng.uniform(lo, hi) for _ in grid]
    if rng.random() < .2:
        order = list(range(len(grid)))
        rng.shuffle(order)
        grid, field = [grid[k] for k in order], [field[k] for k in order]
    return mode, grid, field


def block_mean_temps(a, grid, field):
    """The documented block-average: mean of the field values whose grid point lies within the block (bounds included)."""
    out = []
    for b in a:
        vals = [t for z, t in zip(grid, field) if b.p.zbottom <= z <= b.p.ztop]
        out.append(sum(vals) / len(vals) if vals else None)
    return out


def scan_stopping_at_first_higher_point(a, grid, field):
    """Closed form of the mechanism reported under UNSORTED_KEY: per block the mean over the points met before the first point above the
    block's top (None: no point met).  Only used to attribute an observed deviation to that mechanism, never as the expected value."""
    out = []
    for b in a:
        vals = []
        for z, t in zip(grid, field):
            if b.p.zbottom <= z <= b.p.ztop:
                vals.append(t)
            if z > b.p.ztop:
                break
        out.append(sum(vals) / len(vals) if vals else None)
    return out


def pct(c, T):
    return c.material.linearExpansionPercent(Tc=T)


def judge_negative_height_refusal(rec, a, ab, msg, w):
    """ArithmeticError (negative block height): an allowed refusal when the change cannot be absorbed.  Which block went negative, and
    could the change have been absorbed?  Read off the aborted execution's recorded factors."""
    neg = [i for i, b in enumerate(a) if b.getHeight() < 0.0]
    meta, pre = (ab[-1]["meta"], ab[-1]["pre"]) if ab else (None, None)
    if meta is None or not neg:
        rec.violation("refusal/negative-height-error-without-negative-block", "ArithmeticError raised but no block has a negative height / no execution observed", dict(w, error=msg))
        return
    fsets = [{meta["factors"].get(c["id"], 1.0) for c in b["comps"] if c["solid"]} for b in pre["blocks"][:-1]]
    if all(len(fs) <= 1 for fs in fsets):
        # every block grows by one factor: the stack below the top block becomes sum f_b*h_b; refusal is right only if that exceeds the assembly top
        stack = sum(next(iter(fs or {1.0})) * b["gh"] for fs, b in zip(fsets, pre["blocks"][:-1]))
        if neg != [len(pre["blocks"]) - 1] or stack <= pre["blocks"][-1]["zt"] - pre["blocks"][0]["zb"]:
            rec.violation("refusal/absorbable-uniform-change-refused", "uniform growth to a stack of %r cm in an assembly of %r cm was refused (negative height in block %s)" % (stack, pre["blocks"][-1]["zt"], neg), dict(w, error=msg))
            return
        rec.reject("ArithmeticError: top block cannot absorb the growth (negative height; assembly discarded)")
    elif neg[0] == len(pre["blocks"]) - 1:
        rec.reject("ArithmeticError: top block cannot absorb the growth (negative height; assembly discarded)")
    else:
        rec.hit("refusal.negative-height-of-an-intermediate-block")
        rec.reject("ArithmeticError: negative height of an intermediate block under differential growth (its target is stacked on an offset component; assembly discarded)")


class Driver:
    """Runs operations on one assembly, collects the hook's events, and judges them."""

    def __init__(self, rec, a, w, route, sig, expected_targets=None):
        self.rec, self.a, self.w, self.route, self.sig = rec, a, dict(w), route, sig
        self.w["expected_targets"] = expected_targets
        self.history = []
        self.dead = False
        self.nops = 0

    def changer(self, rng):
        from armi.reactor.converters.axialExpansionChanger import AxialExpansionChanger

        return AxialExpansionChanger(detailedAxialExpansion=(rng.random() < .5) if self.has_dummy() else (rng.random() < .3))

    def _take_event(self, n0, n0a):
        evs = EVENTS[n0:]
        del EVENTS[n0:]
        ab = ABORTED[n0a:]
        del ABORTED[n0a:]
        return evs, ab

    def _refused(self, e, what, ab, expect_multi, w_extra=None):
        """Classify an exception of a perform* call. Returns True when it was an allowed refusal."""
        rec = self.rec
        msg = str(e)
        w_extra = w_extra or self.w
        if isinstance(e, ArithmeticError) and "negative height" in msg:
            self.dead = True
            judge_negative_height_refusal(rec, self.a, ab, msg, w_extra)
            return True
        if isinstance(e, RuntimeError) and "Multiple component axial linkages" in msg and expect_multi:
            rec.reject("RuntimeError: multiple axial linkages (documented rule agrees: blueprint error)")
            self.dead = True
            return True
        if isinstance(e, RuntimeError) and "Cannot run detailedAxialExpansion without a dummy block" in msg and not self.has_dummy():
            rec.reject("RuntimeError: detailedAxialExpansion without top dummy block")
            return True
        if isinstance(e, RuntimeError) and ("No target component found" in msg or "more than one component within a block that has the target flag" in msg) and self.w.get("special") == "mixed-or-unrelated":
            rec.reject("RuntimeError: target component not determinable")
            self.dead = True
            return True
        return False

    def has_dummy(self):
        from armi.reactor.flags import Flags

        return self.a[-1].hasFlags(Flags.DUMMY)

    def prescribed(self, rng, comps, fs, mode, ch=None, setFuel=True, label=None):
        """One performPrescribedAxialExpansion; returns (pre snapshot, post snapshot, summary) or None when refused/crashed."""
        rec, a = self.rec, self.a
        ch = ch or self.changer(rng)
        w = dict(self.w, op={"kind": "prescribed", "mode": mode, "setFuel": setFuel, "factors": [("%s/%s" % (c.parent.getType(), c.name), f) for c, f in zip(comps, fs)][:80]}, history=list(self.history))
        expect = {"kind": "prescribed", "factors": {id(c): 1.0 for _, c in solids_below_top(a)}}
        for c, f in zip(comps, fs):
            expect["factors"][id(c)] = f
        n0, n0a = len(EVENTS), len(ABORTED)
        multi = doc_multiple_links(a)
        try:
            ch.performPrescribedAxialExpansion(a, list(comps), list(fs), setFuel=setFuel)
        except Exception as e:
            evs, ab = self._take_event(n0, n0a)
            if not self._refused(e, "prescribed", ab, multi, w):
                rec.crash("performPrescribedAxialExpansion", e, w)
                self.dead = True
            return None
        evs, ab = self._take_event(n0, n0a)
        return self._judge(evs, w, expect, mode, label or "prescribed", multi)

    def thermal(self, rng, mode, grid, field, ch=None, setFuel=True, label=None):
        rec, a = self.rec, self.a
        ch = ch or self.changer(rng)
        w = dict(self.w, op={"kind": "thermal", "mode": mode, "grid": grid[:60], "field": field[:60], "setFuel": setFuel}, history=list(self.history))
        means = block_mean_temps(a, grid, field)
        if field and all(t == 0.0 for t in field):
            rec.hit("thermal.field-at-zero-celsius")
        unsorted = any(grid[k] > grid[k + 1] for k in range(len(grid) - 1))
        scan = scan_stopping_at_first_higher_point(a, grid, field) if unsorted else means
        w["op"]["grid_ascending"] = not unsorted
        expect = {"kind": "thermal", "factors": {}}
        temps_before = {}
        try:
            for ib, b in enumerate(a):
                for c in b:
                    temps_before[id(c)] = c.temperatureInC
                    if is_solid(c) and means[ib] is not None:
                        expect["factors"][id(c)] = (100.0 + pct(c, means[ib])) / (100.0 + pct(c, c.temperatureInC))
        except Exception as e:  # the trusted material law itself refused a temperature: outside what can be judged
            rec.skip("material law not evaluable at the field's temperature (%s)" % type(e).__name__)
            return None
        n0, n0a = len(EVENTS), len(ABORTED)
        multi = doc_multiple_links(a)
        try:
            ch.performThermalAxialExpansion(a, list(grid), list(field), setFuel=setFuel)
        except Exception as e:
            evs, ab = self._take_event(n0, n0a)
            if isinstance(e, ValueError) and "no temperature points within it" in str(e) and any(m is None for m in means):
                rec.reject("ValueError: a block holds no temperature grid point")
                # components of lower blocks already carry new temperatures; the assembly stays usable (no axial change happened)
                return None
            if isinstance(e, ValueError) and "no temperature points within it" in str(e) and unsorted and any(m is None for m in scan):
                # every block holds a grid point, but the points are not listed bottom-up
                rec.hit("law.unsorted-grid")
                held = [sum(1 for z in grid if b.p.zbottom <= z <= b.p.ztop) for b in a]
                rec.violation(UNSORTED_KEY, "performThermalAxialExpansion refused (%s) although every block holds at least one point of the temperature grid "
                              "(points per block %r); the grid is not in ascending order" % (str(e)[:120], held), dict(w, symptom="refused", points_per_block=held))
                # no axial change happened, but the blocks below the refused one already carry the new temperatures: the harness rolls these
                # back (so that the half-applied call is not reported a second time by the inverse law) and lists the same points bottom-up
                for b in a:
                    for c in b:
                        if c.temperatureInC != temps_before[id(c)]:
                            c.setTemperature(temps_before[id(c)])
                order = sorted(range(len(grid)), key=lambda k: grid[k])
                return self.thermal(rng, mode, [grid[k] for k in order], [field[k] for k in order], ch=ch, setFuel=setFuel, label=label)
            if not self._refused(e, "thermal", ab, multi, w):
                rec.crash("performThermalAxialExpansion", e, w)
                self.dead = True
            return None
        evs, ab = self._take_event(n0, n0a)
        if any(m is None for m in means):
            rec.violation("thermal/block-without-temperature-point-accepted", "a block without any grid point was expanded", w)
            return None
        rec.hit("law.temperature")
        if unsorted:
            rec.hit("law.unsorted-grid")
        wrong = False
        # a deviation is attributed to the unsorted-grid mechanism only if that mechanism's closed form reproduces every temperature
        explained = unsorted and all(m is not None and rel(c.temperatureInC, m, TOLERANCES["temperature_rel"]) for b, m in zip(a, scan) for c in b)
        for ib, b in enumerate(a):
            for c in b:
                if not rel(c.temperatureInC, means[ib], TOLERANCES["temperature_rel"]):
                    wrong = True
                    rec.violation(UNSORTED_KEY if explained else "thermal/component-temperature-not-block-average",
                                  "block %d %s at %r C, mean of the field points within the block %r%s" % (ib, c.name, c.temperatureInC, means[ib], " (grid not in ascending order)" if unsorted else ""),
                                  dict(w, symptom="wrong block average", block=ib))
                    break
        if wrong and unsorted:
            # the temperatures are already reported; judge the axial change itself against the temperatures the components really carry,
            # so that one mechanism is not reported a second time under the factor law
            try:
                for ib, b in enumerate(a):
                    for c in b:
                        if is_solid(c):
                            expect["factors"][id(c)] = (100.0 + pct(c, c.temperatureInC)) / (100.0 + pct(c, temps_before[id(c)]))
            except Exception as e:
                rec.skip("material law not evaluable at the assigned temperature (%s)" % type(e).__name__)
                return None
        return self._judge(evs, w, expect, mode, label or "thermal", multi)

    def _judge(self, evs, w, expect, mode, label, multi):
        rec = self.rec
        if multi:
            rec.violation("linkage/multiple-links-accepted", "a component with two linked components in a neighbouring block (documented rule) was expanded without refusal", w)
        if len(evs) != 1:
            rec.violation("monitor/axiallyExpandAssembly-not-observed-once", "perform* produced %d observed executions" % len(evs), w)
            return None
        ev = evs[0]
        summary = judge_event(rec, ev, w, expect=expect)
        nontrivial = any(f != 1.0 for f in expect["factors"].values())
        self.nops += 1
        rec.case([self.route, self.sig, label, mode, min(self.nops, 6), summary["uniform"]], nontrivial=nontrivial,
                 sample={"assembly": w.get("assembly"), "op": w["op"], "blocks_after": [(b["type"], b["zb"], b["zt"]) for b in ev["post"]["blocks"]]} if rec.evaluations < 2 else None)
        self.history.append({"op": label, "mode": mode, "uniform": summary["uniform"]})
        return ev["pre"], ev["post"], summary


def run_program(rec, rng, drv):
    """2-6 operations with inverse pairs on drv.a."""
    a = drv.a
    nops = rng.randint(2, 6)
    ch_shared = drv.changer(rng) if rng.random() < .5 else None
    k = 0
    while k < nops and not drv.dead:
        r = rng.random()
        setFuel = rng.random() < .7
        if r < .30:
            mode, comps, fs, _ = gen_prescribed(rng, a, extreme=rng.random() < .10)
            drv.prescribed(rng, comps, fs, mode, ch=ch_shared, setFuel=setFuel)
            k += 1
        elif r < .50:
            mode, grid, field = gen_field(rng, a)
            drv.thermal(rng, mode, grid, field, ch=ch_shared, setFuel=setFuel)
            k += 1
        elif r < .80:
            # prescribed inverse pair
            mode, comps, fs, extra = gen_prescribed(rng, a)
            first = drv.prescribed(rng, comps, fs, mode, ch=ch_shared, setFuel=setFuel, label="prescribed-forward")
            k += 1
            if first is None or drv.dead:
                continue
            second = drv.prescribed(rng, comps, [1.0 / f for f in fs], mode, ch=ch_shared, setFuel=setFuel, label="prescribed-inverse")
            k += 1
            if second is None:
                continue
            if first[2]["uniform"] and second[2]["uniform"] and first[2]["has_dummy"]:
                judge_inverse(rec, first[0], second[1], dict(drv.w, pair="prescribed", mode=mode, factors=sorted(set(fs))[:20]))
            else:
                rec.add("inverse pairs not judged for restoration (some block grew non-uniformly or no dummy block)")
        else:
            # thermal A, B, A with isothermal fields: the state after the third equals the state after the first when blocks grow uniformly
            _, g1, f1 = gen_field(rng, a, force_iso=True)
            one = drv.thermal(rng, "isothermal", g1, f1, ch=ch_shared, setFuel=setFuel, label="thermal-A")
            k += 1
            if one is None or drv.dead:
                continue
            _, g2, f2 = gen_field(rng, a, force_iso=True)
            two = drv.thermal(rng, "isothermal", g2, f2, ch=ch_shared, setFuel=setFuel, label="thermal-B")
            k += 1
            if two is None or drv.dead:
                continue
            _, g3, _f = gen_field(rng, a, force_iso=True)
            three = drv.thermal(rng, "isothermal", g3, [f1[0]] * len(g3), ch=ch_shared, setFuel=setFuel, label="thermal-A-again")
            k += 1
            if three is None:
                continue
            if two[2]["uniform"] and three[2]["uniform"] and two[2]["has_dummy"]:
                # compare the states *after* A and after A-again (the hook's "before" of B already carries B's temperatures)
                judge_inverse(rec, one[1], three[1], dict(drv.w, pair="thermal", temps=[f1[0], f2[0], f1[0]]))
            else:
                rec.add("inverse pairs not judged for restoration (some block grew non-uniformly or no dummy block)")


# ============================================================================================== shards
def run_shard(spec, rec):
    install_hook()
    {"direct": do_direct, "blueprint": do_blueprint, "reference": do_reference}[spec["kind"]](spec, rec)
    if EVENTS:
        rec.note("unconsumed_events", len(EVENTS))
    for k, v in WORST.items():
        rec.note(k, [v])


def do_direct(spec, rec):
    for i in range(spec["n"]):
        rng = random.Random("%s:%d" % (spec["rng"], i))
        asp = assembly_spec(rng)
        w = {"case": i, "assembly": describe(asp), "special": "mixed-or-unrelated" if asp["special"] == "unrelated-geometry" else asp["special"]}
        try:
            a = build_direct(asp)
        except Exception as e:
            rec.crash("build-direct", e, w)
            continue
        exp_t = {k: b["expected_target"] for k, b in enumerate(asp["blocks"]) if b["kind"] != "dummy"} if asp["special"] != "unrelated-geometry" else None
        if i % 5 == 2:
            # one composition vector (one dict object) held by the same-named solids of two blocks, as a user script that assigns
            # p.numberDensities directly leaves it: each component's density is divided by its own growth exactly once
            by_name = {}
            for b_ in list(a)[:-1]:
                for c_ in b_:
                    if is_solid(c_) and c_.p.numberDensities:
                        by_name.setdefault((c_.name, c_.material.name), []).append(c_)
            twins = [v for v in by_name.values() if len(v) >= 2]
            if twins:
                grp = rng.choice(twins)
                for c_ in grp[1:]:
                    c_.p.numberDensities = grp[0].p.numberDensities
                rec.hit("workload.components-sharing-one-vector")
                w["shared_vector"] = [grp[0].name, len(grp)]
        drv = Driver(rec, a, w, "direct", layout_sig(asp), expected_targets=exp_t)
        run_program(rec, rng, drv)


def judge_construction_events(rec, w, exp_targets_by_layout=None):
    """Events produced by armi itself (expandColdDimsToHot while assemblies are constructed from blueprints)."""
    evs = list(EVENTS)
    del EVENTS[:]
    del ABORTED[:]
    for ev in evs:
        rec.hit("construction.expandColdDimsToHot")
        pre = ev["pre"]
        expect = None
        if ev["meta"]["fromTinput"]:
            # growth from the input temperature to the hot temperature by the material's own law
            expect = {"kind": "thermal", "factors": {}}
        w2 = dict(w, op={"kind": "expandColdDimsToHot"}, blocks=[(b["type"], b["gh"], b["tname"]) for b in pre["blocks"]])
        layout = tuple(b["type"] for b in pre["blocks"])
        if exp_targets_by_layout and layout in exp_targets_by_layout:
            w2["expected_targets"] = exp_targets_by_layout[layout]
        if expect is not None:
            for b in pre["blocks"]:
                for c in b["comps"]:
                    if c["solid"] and c["id"] in ev["meta"]["factors"]:
                        obj = ev["meta"]["objs"].get(c["id"])
                        if obj is not None:
                            expect["factors"][c["id"]] = (100.0 + pct(obj, c["T"])) / (100.0 + pct(obj, c["Tin"]))
        summary = judge_event(rec, ev, w2, expect=expect if expect and expect["factors"] else None)
        if expect is not None and expect["factors"]:
            judge_input_to_hot(rec, ev, w2, expect["factors"])
        nontrivial = any(f != 1.0 for f in ev["meta"]["factors"].values())
        rec.case(["construction", [(b["type"], b["tname"], len(b["comps"])) for b in pre["blocks"]], summary["uniform"]], nontrivial=nontrivial)
    return len(evs)


def judge_input_to_hot(rec, ev, w, fac):
    """The cold-height law of construction (expandColdDimsToHot = applyColdHeightMassIncrease + expansion from Tinput to Thot): the input gives
    every component at its input temperature - cold dimensions, the block's input height - so a component that ends with its bottom on the
    block boundary and grew by the block's own height factor holds material.density(Tinput) * area(cold) * input height (per symmetry
    factor).  Judged for each block's target (when it sits on the boundary) and for every solid of a block that grew uniformly.
    fac: the material-law growth factors computed by the harness (component id -> f)."""
    pre, post, meta = ev["pre"], ev["post"], ev["meta"]
    if not pre["blocks"][-1]["dummy"]:
        return
    post_c = {c["id"]: c for b in post["blocks"] for c in b["comps"]}
    for i in range(len(pre["blocks"]) - 1):
        b0, b1 = pre["blocks"][i], post["blocks"][i]
        solids = [c for c in b0["comps"] if c["solid"]]
        tg = [c for c in solids if c["id"] in meta["targets"]]
        if len(tg) != 1:
            continue  # reported by judge_event
        t1 = post_c[tg[0]["id"]]
        if t1["zb"] != b1["zb"]:
            rec.add("input-to-hot mass not judged: target does not sit on the block boundary (block height is not the target's grown height; see " + KNOWN_KEY + ")")
            continue
        ft = fac.get(tg[0]["id"])
        for c0 in solids:
            cid = c0["id"]
            if cid != tg[0]["id"] and (ft is None or fac.get(cid) != ft):
                continue  # a non-target solid growing by another fraction than the block: its mass is not claimed
            inp = meta["input"].get(cid) or {"skip": "no input state recorded"}
            if "skip" in inp:
                rec.add("input-to-hot mass not judged: " + inp["skip"])
                continue
            want = inp["rho"] * inp["area"] * b0["gh"] / b0["sym"]
            if not want > 0:
                continue
            got = post_c[cid]["mass"]
            strict = inp["consistent"]
            rec.hit("law.input-to-hot-mass")
            rec.hit("law.input-to-hot-mass.tight" if strict else "law.input-to-hot-mass.loose")  # self-consistent material / density(T) not the cube of dLL(T)
            err = abs(got - want) / want
            k = "input_to_hot_worst_rel_err_%s" % ("tight" if strict else "loose")
            WORST[k] = max(WORST.get(k, 0.0), err)
            if err > TOLERANCES["input_to_hot_mass_rel" if strict else "input_to_hot_mass_rel_inconsistent_material"]:
                role = "target" if cid == tg[0]["id"] else "solid-of-uniform-block"
                rec.violation("input-to-hot-mass/%s-differs-from-input-density-times-cold-volume" % role,
                              "block %d (%s) %s %s (%s, Tinput %r -> Thot %r) holds %r g after construction; density(Tinput) %r x cold area %r x input height %r / symmetry %r = %r g (rel. error %.3e)"
                              % (i, b0["type"], role, c0["name"], c0["mat"], inp["Tin"], inp["Thot"], got, inp["rho"], inp["area"], b0["gh"], b0["sym"], want, err),
                              dict(w, block=i, component=c0["name"], material=c0["mat"], mass_after_construction=got, expected=want, rel_err=err, self_consistent_material=strict))


def do_blueprint(spec, rec):
    from vlib import gen

    for i in range(spec["n"]):
        rng = random.Random("%s:%d" % (spec["rng"], i))
        nd = rng.randint(1, 3)
        first = assembly_spec(rng, hot=True)
        while first["special"]:
            first = assembly_spec(rng, hot=True)
        designs = [first]
        for _ in range(nd - 1):
            # further designs share the pin geometry, the number of blocks and the cold heights (one axial mesh)
            nxt = assembly_spec(rng, hot=True, heights=first["heights"], kinds=(layout(rng) + ["duct"] * 8)[:len(first["blocks"]) - 1], g=first["geom"])
            if nxt["special"]:
                continue
            designs.append(nxt)
        detailed = rng.random() < .5
        w = {"case": i, "designs": [describe(d) for d in designs], "detailedAxialExpansion": detailed}
        text = blueprint_text(designs)
        del EVENTS[:]
        try:
            r, cs, bp, _ = gen.build_reactor(text, {"inputHeightsConsideredHot": False, "detailedAxialExpansion": detailed})
        except Exception as e:
            multi = False
            if isinstance(e, RuntimeError) and "Multiple component axial linkages" in str(e):
                # legitimate only if the documented rule, evaluated on the same designs built directly, also finds a double link
                try:
                    multi = any(doc_multiple_links(build_direct(d)) for d in designs)
                except Exception:
                    multi = False
            if multi:
                rec.reject("RuntimeError: multiple axial linkages (documented rule agrees: blueprint error)")
            elif isinstance(e, ArithmeticError) and "negative height" in str(e) and ABORTED:
                judge_negative_height_refusal(rec, ABORTED[-1]["a"], ABORTED[-1:], str(e), dict(w, during="construction from blueprint"))
            else:
                rec.crash("build-from-blueprint", e, dict(w, blueprint=text[:6000]))
            del EVENTS[:]
            del ABORTED[:]
            continue
        exp_t = {}
        for di, d in enumerate(designs):  # block types of blueprint-built assemblies are the blueprint block names d<i>b<k>
            exp_t[tuple("d%db%d" % (di, k) for k in range(len(d["blocks"])))] = {k: b["expected_target"] for k, b in enumerate(d["blocks"]) if b["kind"] != "dummy"}
        judge_construction_events(rec, w, exp_t)
        # then drive the core's assemblies
        assems = list(r.core)
        rng.shuffle(assems)
        for a in assems[:2]:
            layout_ = tuple(b.getType() for b in a)
            d = next((d for di, d in enumerate(designs) if tuple("d%db%d" % (di, k) for k in range(len(d["blocks"]))) == layout_), None)
            drv = Driver(rec, a, dict(w, assembly=describe(d) if d else None), "blueprint", layout_sig(d) if d else list(layout_), expected_targets=exp_t.get(layout_))
            run_program(rec, rng, drv)


def reference_target(block_type):
    """Target designation of a block of armi/tests/detailedAxialExpansion by the documented rule, read off the block's blueprint name (block
    type) and the input's component names: plenum / aclp blocks follow their clad (also the one block with an explicit designation, 'radial
    shield aclp': clad); otherwise the fuel, control, shield component; grid plate and duct blocks their only solid."""
    t = block_type.lower()
    if "plenum" in t or "aclp" in t:
        return "clad"
    for key, comp in (("fuel", "fuel"), ("control", "control"), ("shield", "shield"), ("grid plate", "grid"), ("duct", "duct")):
        if key in t:
            return comp
    return None


def do_reference(spec, rec):
    """armi/tests/detailedAxialExpansion as shipped (cold->hot at construction or heights considered hot)."""
    from armi.reactor.flags import Flags
    from armi.testing import loadTestReactor
    from armi.tests import TEST_ROOT
    from vlib.env import quiet

    for i in range(spec["n"]):
        rng = random.Random("%s:%d" % (spec["rng"], i))
        hot = spec["hot"]
        w = {"case": i, "input": "armi/tests/detailedAxialExpansion", "inputHeightsConsideredHot": hot}
        del EVENTS[:]
        try:
            with quiet():
                o, r = loadTestReactor(os.path.join(TEST_ROOT, "detailedAxialExpansion"), customSettings={"inputHeightsConsideredHot": hot})
        except Exception as e:
            rec.crash("load-detailedAxialExpansion", e, w)
            continue
        exp_by_layout = {}
        for a in r.core:
            lay = tuple(b.getType() for b in a)
            exp_by_layout[lay] = {k: reference_target(t) for k, t in enumerate(lay[:-1]) if reference_target(t)}
        n = judge_construction_events(rec, w, exp_by_layout)
        if not hot and n == 0 and i == 0:
            rec.violation("monitor/construction-expansion-not-observed", "loading with inputHeightsConsideredHot False produced no axiallyExpandAssembly execution", w)
        assems = list(r.core)
        rng.shuffle(assems)
        for a in assems[:3]:
            aw = dict(w, assembly={"type": a.getType(), "blocks": [(b.getType(), b.getHeight(), [c.name for c in b]) for b in a]})
            drv = Driver(rec, a, aw, "reference", [a.getType(), [b.getType() for b in a]], expected_targets=exp_by_layout.get(tuple(b.getType() for b in a)))
            run_program(rec, rng, drv)
