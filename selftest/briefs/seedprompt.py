#!/usr/bin/env python3
"""Print the prompt given to a fresh sub-agent that must seed a property-breaking change (it sees nothing of /verif)."""
import json, sys
pid = sys.argv[1]
wt = sys.argv[2]
avoid = sys.argv[3] if len(sys.argv) > 3 else ""
tag = sys.argv[4] if len(sys.argv) > 4 else pid
p = next(json.loads(l) for l in open('/verif/properties.jsonl') if json.loads(l)['id'] == pid)
print(f"""You are a software engineer asked to play the role of a realistic regression: introduce ONE subtle defect into the Python framework terrapower/armi.

Your private scratch git worktree of the repository is at {wt} (a `git worktree` of the project at its current HEAD). Work ONLY inside {wt} and /tmp/seedwork-{tag} (create it). Do NOT read, list or use anything under /verif, and do NOT modify /repo (the main checkout) in any way.

THE PROPERTY you must break (a semantic property users rely on):

  id: {p['id']} - {p['title']}
  statement: {p['statement']}
  quantified over: {p['quantifier']['text']}
  code it is anchored in: {json.dumps(p['anchors'].get('files'))}
  mechanisms: {json.dumps(p['anchors'].get('mechanism'))}

{("ANOTHER ENGINEER ALREADY SEEDED THIS, SO DO SOMETHING DIFFERENT (different code site, different mechanism, different clause of the property): " + avoid) if avoid else ""}

YOUR TASK
1. Read the anchored code in {wt}. Devise a change to the armi source (a few lines; NOT to tests) that breaks the property above, while
   (a) the package still imports and (b) the existing pinned test suite still passes. The change must look like a plausible mistake or
   well-meant refactoring/optimisation a developer could commit.
2. The change must need something SPECIFIC to manifest - a particular interleaving or order of operations, a multi-step sequence, an unusual
   but legal input (a corner of the input space), a fault at a particular point, or two cooperating sites that each look fine alone. It must
   NOT be exposed at once by ordinary use (e.g. not "every call now returns garbage").
3. Write a demonstration: a small standalone program {'/tmp/seedwork-'+tag}/demo.py that takes the repo path as argv[1] (it must put that path first
   on sys.path so `import armi` comes from it), exercises the public API, and exits 0 when the property holds and 1 (printing what went wrong)
   when it is broken. It must FAIL (exit 1) on your modified worktree {wt} and PASS (exit 0) on the unmodified /repo. Run both and show the output.
4. Confirm the existing tests still pass with your change: run, from inside {wt},
      /venv/bin/python -m pytest -q -p no:cacheprovider --timeout=900 --continue-on-collection-errors -x -q <the test files of the modules you touched and their neighbours>
   and then the full pinned selection if time allows:  cd {wt} && /venv/bin/python -m pytest -ra -q -p no:cacheprovider --timeout=900 --continue-on-collection-errors 2>&1 | tail -5
   (In this sandbox ~480 tests fail or error at baseline for environmental reasons - yamlize/ruamel incompatibility - with or without your
   change; what matters is that no test that passes on the unmodified /repo fails with your change. Compare the sets of failing test ids if in doubt:
   add `-q -rf` and diff against the same command run in /repo.)
5. Save your change as a patch:  cd {wt} && git diff > /tmp/seedwork-{tag}/patch.diff   (do not commit).

ENVIRONMENT NOTES
- Interpreter: /venv/bin/python (armi's dependencies are installed there). Use PYTHONPATH={wt} (or sys.path.insert(0, repo) in scripts) so your tree is imported; check `armi.__file__`.
- Blueprint/YAML loading (anything using armi.reactor.blueprints or loadTestReactor) needs this process-local shim BEFORE importing armi, because
  of an incompatibility between the installed yamlize and ruamel.yaml (not an armi bug):
      import ruamel.yaml
      for n in ("RoundTripLoader","Loader","SafeLoader","BaseLoader"):
          c = getattr(ruamel.yaml, n, None)
          if c is not None and not hasattr(c, "max_depth"): c.max_depth = 0
  and armi must be configured once per process:  from armi import apps, configure; configure(apps.App());  from armi.conftest import bootstrapArmiTestEnv; bootstrapArmiTestEnv()
  Use a fresh process per experiment and work in a temporary directory (armi writes scratch files to the cwd and /tmp/.armi).
- A small ready-made reactor: from armi.testing import loadTestReactor; from armi.tests import TEST_ROOT; o, r = loadTestReactor(TEST_ROOT, inputFileName="smallestTestReactor/armiRunSmallest.yaml")

FINAL ANSWER (your last message): the patch (inline), what the change is and why it looks innocent, exactly what is needed for it to manifest,
the demo output on both trees, which tests you ran and their result, and the paths /tmp/seedwork-{tag}/patch.diff and /tmp/seedwork-{tag}/demo.py.
If after a serious attempt you cannot find a change that passes the existing tests, say so and give your best candidate anyway.""")
