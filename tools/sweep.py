#!/usr/bin/env python3
"""Run checks over tiers/seeds on the unchanged tree and append one line per run to selftest/sweeps.jsonl.
usage: tools/sweep.py --tier thorough --seeds 0,1 [--checks C01,C02]   (always --no-evidence; sequential)"""
import argparse, json, os, re, subprocess, time
ROOT = os.path.dirname(os.path.dirname(os.path.abspath(__file__)))
ap = argparse.ArgumentParser()
ap.add_argument("--tier", default="quick"); ap.add_argument("--seeds", default="0"); ap.add_argument("--checks", default="")
a = ap.parse_args()
checks = a.checks.split(",") if a.checks else ["C%02d" % i for i in range(1, 21)]
head = subprocess.run(["git", "-C", "/repo", "rev-parse", "--short", "HEAD"], capture_output=True, text=True).stdout.strip()
vhead = subprocess.run(["git", "-C", ROOT, "rev-parse", "--short", "HEAD"], capture_output=True, text=True).stdout.strip()
out = os.path.join(ROOT, "selftest", "sweeps.jsonl")
for seed in a.seeds.split(","):
    for c in checks:
        t0 = time.time()
        r = subprocess.run([os.path.join(ROOT, "check"), c, "--tier", a.tier, "--no-evidence"], env=dict(os.environ, VERIF_SEED=seed), cwd=ROOT,
                           stdout=subprocess.PIPE, stderr=subprocess.STDOUT, text=True)
        last = [l for l in r.stdout.splitlines() if l.startswith("CHECK ")]
        m = re.search(r"(\d+) executions judged, (\d+) distinct", last[-1]) if last else None
        rec = {"check": c, "tier": a.tier, "seed": int(seed), "exit": r.returncode, "verdict": last[-1].split(": ", 1)[1].split(";")[0] if last else "?",
               "executions": int(m.group(1)) if m else None, "distinct": int(m.group(2)) if m else None, "wall_s": round(time.time() - t0),
               "known_findings": sum(1 for l in r.stdout.splitlines() if l.startswith("KNOWN-FINDING")),
               "floor_margin": next((l.strip()[8:] for l in r.stdout.splitlines() if l.startswith("  floors:")), None), "violation_keys": [l.strip()[:200] for l in r.stdout.splitlines() if l.strip().startswith("key=")][:5], "repo_head": head, "verif_head": vhead}
        open(out, "a").write(json.dumps(rec) + "\n")
        print(json.dumps(rec), flush=True)
