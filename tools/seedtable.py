#!/usr/bin/env python3
"""Markdown table of seeded changes and which checks catch them (from seeded/*/meta.json)."""
import glob, json, os
ROOT = os.path.dirname(os.path.dirname(os.path.abspath(__file__)))
print("| seeded id | property | what the change does | needs, to manifest | demo ok/fail | pinned tests | caught by (tier) | first keys |")
print("|---|---|---|---|---|---|---|---|")
for mp in sorted(glob.glob(os.path.join(ROOT, "seeded", "*", "meta.json"))):
    m = json.load(open(mp))
    v = m.get("verified", {})
    res = m.get("checks_run", {}).get("results", {})
    caught = ", ".join("%s:%s" % (c, "CAUGHT" if r.get("caught") else "missed(exit %s)" % r.get("exit")) for c, r in res.items())
    keys = "; ".join(k.split(" count=")[0].replace("key=", "") for r in res.values() for k in r.get("keys", [])[:2])
    for extra in m.get("later_runs", []):
        caught += "; later: %s" % extra
    print("| %s | %s | %s | %s | %s/%s | %s | %s (%s) | %s |" % (
        m["id"], m["property"], m.get("what", "")[:300], m.get("needs_to_manifest", "")[:300],
        v.get("demo_on_unmodified_repo", {}).get("exit"), v.get("demo_on_patched_tree", {}).get("exit"),
        "pass" if v.get("pinned_tests_on_patched_tree", {}).get("exit") == 0 else v.get("pinned_tests_on_patched_tree", {}).get("summary", "not run")[:60],
        caught, m.get("checks_run", {}).get("tier"), keys[:300]))
