"""C06 - database snapshots are isolated, complete, queryable and survive aborted runs.

Workload A (histories): random interleavings of {mutate, set (cycle,node), write [label], load, list, history queries, merge, split,
re-write} against a real Database; the harness keeps an event log and a model {(c,n,label): observation at write time}; every read is
judged against the model (offline checker over the recorded log).
Workload B (fault enumeration): a real Operator on the smallest reactor with the real DatabaseInterface between two mutating/recording
interfaces; for each run layout EVERY (hook, stack position, cycle, node) is used once as the point where an interface raises; the
.h5 left in the working directory is then opened with plain h5py and with Database('r') and compared with what an independent
scheduler says was completed before the failure, plus the state recorded at the failure.

Added after the independent review (each closes a demonstrated gap):
* histories of None-default block parameters assigned on a random half of the blocks, and of a never-assigned parameter ("or the default
  if unset"): an unset value must come back as None / the default, and is judged (A.history.unset-value-expected);
* by-location histories of blocks (two levels below the core: Layout.computeAncestors with depth > 1), with distinct values per assembly;
* restart runs through MainInterface + DatabaseInterface.prepRestartRun from the .h5 of a completed run: the new file holds the source's
  earlier groups byte-for-byte (independent h5py walk) and equal to the states recorded in the source run, then the new nodes, equal to
  the states recorded at their writes; also with a failure right after the merge or around the first node;
* `with Database(f, "w")` left by an exception / normally (Database.__exit__): file in the working directory, snapshot loadable,
  successfulCompletion False / True;
* a split keeps the time node (only the cycle is renumbered); parameters the loader recomputes are no longer dropped at any size: they
  are compared at the recomputed tolerance, and the ones C04 records as stale-at-write against a load made right after the write.
"""
import json
import os
import random

PROP = "C06"
LEVEL = "fault_enumeration"
RULE = (
    "A: generated small hex reactors x event sequences of 15-40 events (mutations: block/assembly/core parameter assignments, composition "
    "edits, assembly swaps; writes at random (cycle<100,node<100[,label]); loads of random written keys; listing; history queries by identity "
    "and by location (assemblies and blocks) over random step subsets, including None-default block parameters assigned on a random half "
    "of the blocks and a never-assigned parameter; mergeHistory at random restart points; splitDatabase with random keep sets; re-writes; "
    "one write-mode `with Database(f, 'w')` block left by an exception and one left normally per history). "
    "B: run layouts (cycles 1-3 x burn steps 0-3, tight coupling on/off) x every (hook in BOL/BOC/EveryNode/Coupled/EOC/EOL, position before/after "
    "the database interface, cycle, node) enumerated exhaustively, one injected failure per run, + one failure-free run per layout; "
    "+ restart runs (MainInterface + DatabaseInterface.prepRestartRun, settings reloadDBName/startCycle/startNode/loadStyle fromDB) from the "
    ".h5 of a completed run of the same layout at restart points (quick: 2, thorough: every node but the first of every layout), each once "
    "failure-free and once with a failure right after the merge (BOL) or around the first node. "
    "A case = one judged read (A) or one run (B); distinct by (event kind, key) / (layout, restart point, failure point)."
)
EXHAUSTIVE = {"quick": True, "thorough": True}
EXHAUSTIVE_PART = "workload B: all failure points of each listed layout (quick 2 layouts, thorough 12); thorough: all restart points of each layout"
TOLERANCES = {"recomputed_rel": 1e-9}
FLOORS = {"quick": {"A.load-vs-model": 100, "A.listing": 15, "A.history": 30, "A.history-by-location": 15, "A.merge": 15, "A.split": 12, "A.split.first-listed-not-earliest-cycle": 2, "B.run.tight-coupling-with-skipped-cycles": 12, "A.history.selection-none": 3, "A.history.selection-all-by-default": 5, "A.rewrite-refused": 15, "A.identity.fresh-object": 8, "A.history.step-before-object-existed": 2,
                    "A.history-by-location.below-assembly-level": 8, "A.history.unset-value-expected": 100, "A.history.never-assigned-parameter": 50, "A.twin-load-at-write": 50,
                    "A.write-context-exit.exception": 12, "A.write-context-exit.clean": 12,
                    "B.run-with-failure": 40, "B.run-complete": 1, "B.snapshot-compared": 100, "hook:Database.writeToDB": 200,
                    "B.restart-complete": 1, "B.restart-with-failure": 1, "B.restart.merged-group-compared": 6, "hook:DatabaseInterface.prepRestartRun": 2},
          "thorough": {"A.load-vs-model": 1500, "A.listing": 200, "A.history": 400, "A.history-by-location": 200, "A.merge": 200, "A.split": 150, "A.split.first-listed-not-earliest-cycle": 15, "B.run.tight-coupling-with-skipped-cycles": 40, "A.history.selection-none": 30, "A.history.selection-all-by-default": 50, "A.rewrite-refused": 200, "A.identity.fresh-object": 120, "A.history.step-before-object-existed": 30,
                       "A.history-by-location.below-assembly-level": 100, "A.history.unset-value-expected": 1000, "A.history.never-assigned-parameter": 500, "A.twin-load-at-write": 600,
                       "A.write-context-exit.exception": 160, "A.write-context-exit.clean": 160,
                       "B.run-with-failure": 250, "B.run-complete": 6, "B.snapshot-compared": 1200, "hook:Database.writeToDB": 3000,
                       "B.restart-complete": 25, "B.restart-with-failure": 25, "B.restart.merged-group-compared": 100, "hook:DatabaseInterface.prepRestartRun": 50}}
TIMEOUT = {"quick": 900, "thorough": 7200}

# third entry: False = loose coupling, True = tight coupling, a tuple = tight coupling with these cycles listed in
# cyclesSkipTightCouplingInteraction (no Coupled hooks there, but every node is still written)
LAYOUTS_QUICK = [(2, 2, False), (2, 1, True), (2, 1, (0,))]
LAYOUTS_THOROUGH = [(1, 0, False), (1, 1, False), (1, 3, False), (2, 2, False), (2, 1, True), (3, 1, False), (3, 2, True), (2, 3, False), (1, 2, True), (1, 0, True), (3, 3, False), (2, 2, True), (2, 1, (0,)), (3, 1, (1,)), (2, 2, (0, 1))]  # burnSteps 0 is only accepted for a single cycle


def failure_points(ncyc, bsteps, coupled):
    pts = [("BOL", pos) for pos in ("pre", "post")]
    for c in range(ncyc):
        pts += [("BOC", pos, c) for pos in ("pre", "post")]
        for n in range(bsteps + 1):
            pts += [("EveryNode", pos, c, n) for pos in ("pre", "post")]
            if coupled and not (isinstance(coupled, (tuple, list)) and c in coupled):
                pts += [("Coupled", pos, c, n) for pos in ("pre", "post")]
        pts += [("EOC", pos, c) for pos in ("pre", "post")]
    pts += [("EOL", pos) for pos in ("pre", "post")]
    return pts


RESTARTS_QUICK = [((2, 2, False), (1, 1)), ((2, 1, True), (1, 0))]
RESTART_FAILURES = [("EveryNode", "post"), ("BOL", "pre"), ("EveryNode", "pre")]


def restart_points(ncyc, bsteps):
    """every node of the layout but the very first (there is nothing before (0,0) to restart from)"""
    return [(c, n) for c in range(ncyc) for n in range(bsteps + 1)][1:]


def plan(tier, seed):
    q = tier == "quick"
    out = [{"name": "hist%d" % i, "kind": "A", "n": 3 if q else 40, "events": 30} for i in range(8)]
    layouts = LAYOUTS_QUICK if q else LAYOUTS_THOROUGH
    runs = []
    for lay in layouts:
        runs.append([lay, None])
        for p in failure_points(*lay):
            runs.append([lay, p])
    restarts = RESTARTS_QUICK if q else [(lay, st) for lay in LAYOUTS_THOROUGH for st in restart_points(lay[0], lay[1])]
    rruns = []
    for i, (lay, st) in enumerate(restarts):
        rruns.append([lay, None, st])
        f = RESTART_FAILURES[i % len(RESTART_FAILURES)]
        rruns.append([lay, list(f) + (list(st) if f[0] == "EveryNode" else []), st])
    nsh = 8
    for i in range(nsh):
        # restart cases cost two runs each unless the source run of the layout is already cached in the shard: deal them from the other end
        out.append({"name": "crash%d" % i, "kind": "B", "runs": runs[i::nsh] + rruns[(nsh - 1 - i)::nsh]})
    return out


def run_shard(spec, rec):
    import logging

    logging.disable(1000)
    install_write_hook()
    if spec["kind"] == "A":
        for i in range(spec["n"]):
            rng = random.Random("%s:%d" % (spec["rng"], i))
            try:
                history_case(rec, rng, spec["events"], i)
            except Exception as e:
                rec.crash("history-case(harness?)", e, {"case": i})
    else:
        H = CrashHarness()
        for run in spec["runs"]:
            lay, point = run[0], run[1]
            try:
                if len(run) > 2:
                    restart_case(rec, H, tuple(lay), tuple(run[2]), tuple(point) if point else None)
                else:
                    crash_case(rec, H, tuple(lay), tuple(point) if point else None)
            except Exception as e:
                rec.crash("crash-case(harness?)", e, {"layout": lay, "failure": point, "restart": run[2] if len(run) > 2 else None})
        H.cleanup()


# ----------------------------------------------------------------------------- write log (boundary instrumentation)
WRITES = []


def install_write_hook():
    from armi.bookkeeping.db.database import Database
    from vlib import hooks, obs

    def post(tok, res, a, kw):
        db, r = a[0], a[1]
        label = a[2] if len(a) > 2 else kw.get("statePointName")
        WRITES.append((id(db), int(r.p.cycle), int(r.p.timeNode), label or "", obs.obs(r, derived=False)))

    hooks.wrap(Database, "writeToDB", post=post)
    from armi.bookkeeping.db.databaseInterface import DatabaseInterface

    hooks.wrap(DatabaseInterface, "prepRestartRun")  # reachability counter only


def gname(c, n, label=""):
    return "c%02dn%02d%s" % (c, n, label or "")


# Parameters that the loader recomputes from the loaded composition / assemblies (Core.processLoading; component volume/area caches).
# They are compared at TOLERANCES["recomputed_rel"], like every recomputed value.  For STALE_AT_WRITE, C04 has the known finding
# "param-recomputed-on-load" (a value that was stale when written does not come back); C06 does not re-report that, but it does not drop
# those columns either: a later load must give what a load made right after the write gave (`twin`), i.e. the snapshot is still a
# function of the state at the time of its write only.  Without a twin (workload B, where nothing makes them stale) they are compared
# with the recorded state like everything else.  (Self-contained on purpose: no import from checks.c04.)
RECOMPUTED_ON_LOAD = ("kgHM", "kgFis", "puFrac", "maxAssemNum", "volume", "area")
STALE_AT_WRITE = ("kgHM", "kgFis", "puFrac", "maxAssemNum")


def _close(a, b):
    if isinstance(a, bool) or isinstance(b, bool) or not isinstance(a, (int, float)) or not isinstance(b, (int, float)):
        return False
    return a == b or (a != a and b != b) or abs(a - b) <= TOLERANCES["recomputed_rel"] * max(abs(a), abs(b))


def cmp_obs(rec, keyprefix, a, b, w, ignore=("cycle", "timeNode"), twin=None):
    from vlib import obs

    seen = set()

    def report(k, m):
        if k not in seen:
            seen.add(k)
            rec.violation("%s/%s" % (keyprefix, k), m, w)

    for k, m in obs.diff(a, b, limit=400, ignore_params=tuple(ignore) + RECOMPUTED_ON_LOAD):
        k = classify(k, m)
        if k is not None:
            report(k, m)
    if len(a) == len(b):
        for i, (x, y) in enumerate(zip(a, b)):
            for name in RECOMPUTED_ON_LOAD:
                if name in ignore or (name not in x["params"] and name not in y["params"]):
                    continue
                u, v = x["params"].get(name, "<absent>"), y["params"].get(name, "<absent>")
                if obs.values_equal(u, v) or _close(u, v):
                    continue
                where = "%s %s: parameter %s differs: %r vs %r" % (x["cls"], x["name"], name, u, v)
                if twin is not None and len(twin) == len(b) and name in STALE_AT_WRITE:
                    rec.hit("A.recomputed-param-vs-load-made-at-write-time")
                    t = twin[i]["params"].get(name, "<absent>")
                    if not (obs.values_equal(t, v) or _close(t, v)):
                        report("recomputed-param-differs-from-load-made-right-after-the-write/%s" % name, where + "; the load made right after the write gave %r" % (t,))
                else:
                    report("param/%s/%s" % (x["cls"], name), where)
    return not seen


def classify(key, msg):
    """C04's two recorded round-trip findings on stored values are not re-reported here (C06 judges isolation/completeness):
    'unset-dimension-reads-zero/modArea' and 'nodefault-param-partially-assigned-column-dropped'."""
    parts = key.split("/")
    if parts[0] in ("param", "dimension") and parts[-1] == "modArea" and ("None" in msg and (" 0" in msg or "'0'" in msg)):
        return None
    if parts[0] == "param" and ("('raises', 'ParameterError')" in msg or "('unset',)" in msg):
        return None
    return key


# ============================================================================= workload A
def history_case(rec, rng, nevents, case):
    import numpy as np

    from armi.bookkeeping.db.database import Database
    from armi.reactor import parameters
    from vlib import gen, obs

    cspec = gen.core_spec(rng, rings=2, symmetry=rng.choice(["third periodic", "full"]), ndesigns=rng.randint(1, 2), nblocks=rng.randint(1, 3))
    r, cs, bp, text = gen.build_reactor(cspec)
    r.sort()
    fname = "hist-%d-%d.h5" % (case, rng.randrange(10 ** 6))
    db = Database(fname, "w")
    db.open()
    model = {}      # (c,n,label) -> obs at write
    twins = {}      # (c,n,label) -> obs of a load made right after the write (see STALE_AT_WRITE)
    values = {}     # (c,n) -> {(type, serial): {param: value}} for history queries
    places = {}     # (c,n) -> {(type, complete indices (i,j,k)): serial}
    log = []
    w = {"case": case, "log": log}
    PARAMS_B = ["power", "flux", "pdens", "percentBu"]
    counter = [0]
    # "or the default if unset": scalar block parameters whose default is None, assigned on a random half of the blocks only, and one
    # persistent float parameter that nothing in this process has assigned (so the database holds no column for it)
    bdefs = {pd.name: pd for pd in r.core.getBlocks()[0].p.paramDefs}
    PARAMS_N = [p for p in ("THhotChannelCladODT", "THhotChannelFuelODT", "TH2SigmaCladIDT") if p in bdefs and bdefs[p].default is None and bdefs[p].saveToDB]
    unset = sorted(n_ for n_, pd in bdefs.items() if pd.saveToDB and type(pd.default) is float and pd.assigned == parameters.NEVER and n_ not in PARAMS_B)
    PARAM_U = unset[0] if unset else None
    if len(PARAMS_N) < 3:
        rec.skip("harness: fewer than 3 None-default scalar block parameters found (%s)" % PARAMS_N)
    BLOCK_PARAMS = PARAMS_B + PARAMS_N + ([PARAM_U] if PARAM_U else [])

    # identity: a serial number recorded in this database belongs to one logical object for ever
    owners = {int(o.p.serialNum): id(o) for a_ in r.core for o in [a_] + list(a_)}

    def mutate():
        k = rng.choice(["block-param", "block-param", "block-none-param", "assembly-param", "core-param", "ndens", "swap", "new-assembly"])
        counter[0] += 1
        if k == "new-assembly":
            # refuelling: a fresh assembly of the same design replaces one in the core (the old one is purged)
            old = rng.choice(list(r.core))
            new = r.blueprints.constructAssem(cs, name=old.getType())
            loc = old.spatialLocator
            r.core.removeAssembly(old, discharge=False)
            r.core.add(new, loc)
            rec.hit("A.identity.fresh-object")
            for o in [new] + list(new):
                ser = int(o.p.serialNum)
                if ser in owners and owners[ser] != id(o):
                    rec.violation("A/identity/fresh-object-reuses-recorded-serial-number",
                                  "a freshly built %s got serial number %d, which another object of this run (already written to the database) holds: histories are matched on it" % (type(o).__name__, ser), w)
                    break
                owners[ser] = id(o)
        elif k == "block-param":
            for b in rng.sample(r.core.getBlocks(), max(1, len(r.core.getBlocks()) // 2)):
                b.p[rng.choice(PARAMS_B)] = float(counter[0]) + rng.random()
        elif k == "block-none-param" and PARAMS_N:
            # a random half of the blocks gets a value; the others keep what they have (None until their first turn)
            p = rng.choice(PARAMS_N)
            for b in rng.sample(r.core.getBlocks(), max(1, len(r.core.getBlocks()) // 2)):
                b.p[p] = float(counter[0]) + rng.random()
        elif k == "assembly-param":
            for a in r.core:
                a.p.chargeTime = float(counter[0]) + rng.random()  # distinct per assembly: histories must tell assemblies apart
        elif k == "core-param":
            r.core.p.keff = 1.0 + counter[0] * 1e-3
        elif k == "ndens":
            c = rng.choice([c for c in r.core.iterComponents() if c.p.numberDensities])
            nuc = rng.choice(sorted(c.p.numberDensities))
            c.setNumberDensity(nuc, c.getNumberDensity(nuc) * rng.uniform(.5, 1.5))
        else:
            assems = list(r.core)
            if len(assems) >= 2:
                a, b = rng.sample(assems, 2)
                la, lb = a.spatialLocator, b.spatialLocator
                a.moveTo(lb)
                b.moveTo(la)
        log.append("mutate:" + k)

    def snapshot_values():
        vals = {}
        loc = {}
        for a in r.core:
            vals[("HexAssembly", int(a.p.serialNum))] = {"chargeTime": a.p.chargeTime}
            loc[("HexAssembly", where(a))] = int(a.p.serialNum)
            for o in a:
                vals[("HexBlock", int(o.p.serialNum))] = {p: o.p[p] for p in BLOCK_PARAMS}
                loc[("HexBlock", where(o))] = int(o.p.serialNum)
        return vals, loc

    def where(o):
        return tuple(int(x) for x in o.spatialLocator.getCompleteIndices())

    for ev in range(nevents):
        kind = rng.choice(["mutate", "mutate", "write", "write", "write-label", "load", "load", "list", "history", "history", "history-loc", "merge", "split", "rewrite"])
        try:
            if kind == "mutate" or (not model and kind not in ("write", "write-label")):
                mutate()
                continue
            if kind in ("write", "write-label"):
                c, n = rng.randint(0, 99) if rng.random() < .2 else rng.randint(0, 4), rng.randint(0, 99) if rng.random() < .2 else rng.randint(0, 5)
                label = rng.choice(["EOL", "error", "special"]) if kind == "write-label" else ""
                if (c, n, label) in model:
                    continue
                r.p.cycle, r.p.timeNode = c, n
                r.sort()
                nw = len(WRITES)
                db.writeToDB(r, label or None)
                if len(WRITES) != nw + 1:
                    rec.violation("monitor/write-not-observed", "writeToDB hook did not fire", w)
                model[(c, n, label)] = obs.obs(r)
                twins[(c, n, label)] = obs.obs(db.load(c, n, cs=cs, bp=bp, statePointName=label or None), derived=False)  # (only its parameters are used)
                rec.hit("A.twin-load-at-write")
                if not label:
                    values[(c, n)], places[(c, n)] = snapshot_values()
                log.append("write:%s" % gname(c, n, label))
            elif kind == "load":
                key = rng.choice(sorted(model))
                rec.hit("A.load-vs-model")
                r2 = db.load(key[0], key[1], cs=cs, bp=bp, statePointName=key[2] or None)
                ok = cmp_obs(rec, "A/load-differs-from-state-at-write", model[key], obs.obs(r2), dict(w, key=gname(*key)), ignore=(), twin=twins.get(key))
                log.append("load:%s" % gname(*key))
                rec.case(["A", "load", len(model), len(log) % 7], sample={"log": list(log)} if case == 0 and ok and len(log) > 12 and rng.random() < .2 else None)
            elif kind == "list":
                rec.hit("A.listing")
                names = [g.name.strip("/") for g in db.genTimeStepGroups()]
                exp = [gname(*k) for k in sorted(model, key=lambda k: gname(*k))]
                if names != exp:
                    rec.violation("A/listing-differs-from-written", "database lists %s, written (in chronological = name order) %s" % (names, exp), w)
                steps = list(db.genTimeSteps())
                if steps != [(k[0], k[1]) for k in sorted(model, key=lambda k: gname(*k))]:
                    rec.violation("A/genTimeSteps-differs", "genTimeSteps %s" % (steps,), w)
                for k in list(model)[:4]:
                    if not db.hasTimeStep(k[0], k[1], k[2]):
                        rec.violation("A/hasTimeStep-false-for-written", "hasTimeStep%s False" % (k,), w)
                ghost = (rng.randint(0, 99), rng.randint(0, 99), rng.choice(["", "EOL"]))
                if ghost not in model and db.hasTimeStep(*ghost):
                    rec.violation("A/hasTimeStep-true-for-unwritten", "hasTimeStep%s True" % (ghost,), w)
                rec.case(["A", "list", len(model)])
            elif kind in ("history", "history-loc"):
                steps_all = sorted(values)
                if not steps_all:
                    continue
                steps = rng.sample(steps_all, rng.randint(1, len(steps_all)))
                sel = "some"
                u_ = rng.random()
                if u_ < .10:
                    steps, sel = [], "none"  # an explicitly empty selection (what is left when a caller strips the current step): no stored step
                elif u_ < .20:
                    steps, sel = list(steps_all), "all-by-default"  # no selection given: every stored step
                byloc = kind == "history-loc"
                if byloc and rng.random() < .4:
                    comps = rng.sample(list(r.core), min(len(r.core), 2))
                else:
                    comps = rng.sample(r.core.getBlocks(), min(len(r.core.getBlocks()), 3)) if byloc or rng.random() < .7 else rng.sample(list(r.core), min(len(r.core), 2))
                if type(comps[0]).__name__ == "HexBlock":
                    params = rng.sample(PARAMS_B, 2) + ([rng.choice(PARAMS_N)] if PARAMS_N else []) + ([PARAM_U] if PARAM_U and rng.random() < .5 else [])
                else:
                    params = ["chargeTime"]
                now = (int(r.p.cycle), int(r.p.timeNode))
                rec.hit("A.history-by-location" if byloc else "A.history")
                if byloc and type(comps[0]).__name__ == "HexBlock":
                    rec.hit("A.history-by-location.below-assembly-level")
                lab_steps = {(k[0], k[1]) for k in model if k[2]}
                rec.hit("A.history.selection-" + sel)
                hist = (db.getHistoriesByLocation if byloc else db.getHistories)(comps, params, None if sel == "all-by-default" else list(steps))
                for comp in comps:
                    tname = type(comp).__name__
                    for p in params:
                        got = hist[comp][p]
                        for st in steps:
                            if sel == "all-by-default" and st in lab_steps:
                                continue  # a labelled state point of that cycle and node is listed under the same key: which one wins is not stated
                            if byloc:
                                ser = places[st].get((tname, where(comp)))
                                if ser is None:
                                    continue
                            else:
                                ser = int(comp.p.serialNum)
                            if (tname, ser) not in values[st]:
                                # the object did not exist when that step was written (fresh assembly): its history has no such step
                                rec.hit("A.history.step-before-object-existed")
                                if st in got and st != now:
                                    rec.violation("A/history-includes-step-before-object-existed", "history of %s(serial %d).%s has a value %r for step %s, written before the object was created" % (tname, ser, p, got[st], st), dict(w, steps=steps))
                                    break
                                continue
                            exp = values[st].get((tname, ser), {}).get(p)
                            if st not in got:
                                rec.violation("A/history-missing-step/%s" % ("by-location" if byloc else "by-identity"), "history of %s.%s lacks step %s (has %s)" % (tname, p, st, list(got)), dict(w, steps=steps))
                                break
                            g = got[st]
                            if exp is None:
                                rec.hit("A.history.unset-value-expected")
                            elif p == PARAM_U:
                                rec.hit("A.history.never-assigned-parameter")
                            if not (g is None if exp is None else (g == exp or (isinstance(g, float) and isinstance(exp, float) and abs(g - exp) <= 1e-12 * abs(exp)))):
                                rec.violation("A/history-value-differs/%s%s" % ("by-location" if byloc else "by-identity", "/unset-on-this-object" if exp is None else ""),
                                              "history of %s(serial %d).%s at step %s = %r, state at that write had %r" % (tname, ser, p, st, g, exp), dict(w, steps=steps))
                                break
                        extra = [s for s in got if s not in steps and s != now and not (sel == "all-by-default" and s in lab_steps)]
                        if extra:
                            rec.violation("A/history-extra-steps", "history returned steps %s that were not requested" % extra, dict(w, steps=steps))
                log.append("%s:%d steps" % (kind, len(steps)))
                rec.case(["A", kind, len(steps), params])
            elif kind == "merge":
                keys = sorted(model, key=lambda k: gname(*k))
                cut = rng.choice(keys + [(98, 98, "")])
                rec.hit("A.merge")
                out = Database("merged-%d-%d.h5" % (case, ev), "w")
                out.open()
                try:
                    out.mergeHistory(db, cut[0], cut[1])
                    exp = []
                    for k in keys:
                        if (k[0], k[1]) == (cut[0], cut[1]):
                            break
                        exp.append(k)
                    names = [g.name.strip("/") for g in out.genTimeStepGroups()]
                    if names != [gname(*k) for k in exp]:
                        rec.violation("A/merge-copied-wrong-steps", "merge up to %s copied %s, expected %s" % (gname(cut[0], cut[1]), names, [gname(*k) for k in exp]), w)
                    for k in rng.sample(exp, min(2, len(exp))):
                        r3 = out.load(k[0], k[1], cs=cs, bp=bp, statePointName=k[2] or None)
                        cmp_obs(rec, "A/merged-snapshot-differs", model[k], obs.obs(r3), dict(w, key=gname(*k)), ignore=(), twin=twins.get(k))
                finally:
                    out.close()
                    _rm(out.fileName)
                log.append("merge@%s" % gname(cut[0], cut[1]))
                rec.case(["A", "merge", len(exp), len(keys)])
            elif kind == "split":
                plain = sorted(k for k in model if not k[2])
                if not plain:
                    continue
                keep = sorted(rng.sample(plain, rng.randint(1, len(plain))))
                # the steps to keep are a set of time steps: the caller may list them in any order (latest first, shuffled)
                how = rng.choice(["ascending", "descending", "shuffled", "shuffled"])
                if how == "descending":
                    keep.reverse()
                elif how == "shuffled":
                    rng.shuffle(keep)
                if len(keep) > 1 and keep[0][0] != min(k[0] for k in keep):
                    rec.hit("A.split.first-listed-not-earliest-cycle")
                rec.hit("A.split")
                # split works on a finished file: copy the live db content into a scratch file first
                db.h5db.flush()
                import shutil

                src = "split-%d-%d.h5" % (case, ev)
                shutil.copy(db._fullPath, src)
                sdb = Database(src, "a")
                sdb.open()
                try:
                    arg = [(k[0], k[1]) for k in keep]
                    backup = sdb.splitDatabase(tuple(arg) if rng.random() < .3 else arg, "-all")
                    minc = min(k[0] for k in keep)  # documented: cycles are renumbered from the earliest kept cycle
                    names = sorted(g.name.strip("/") for g in sdb.genTimeStepGroups())
                    exp = sorted(gname(k[0] - minc, k[1]) for k in keep)
                    if names != exp:
                        rec.violation("A/split-kept-wrong-steps", "split keeping %s holds %s, expected %s" % ([gname(*k) for k in keep], names, exp), w)
                    for k in rng.sample(keep, min(2, len(keep))):
                        r3 = sdb.load(k[0] - minc, k[1], cs=cs, bp=bp)
                        cmp_obs(rec, "A/split-snapshot-differs", model[k], obs.obs(r3), dict(w, key=gname(*k)), ignore=("cycle",), twin=twins.get(k))  # the time node is kept
                        if int(r3.p.cycle) != k[0] - minc:
                            rec.violation("A/split-cycle-not-renumbered", "kept step %s loads with r.p.cycle=%s, documented renumbering gives %d" % (gname(*k), r3.p.cycle, k[0] - minc), w)
                    import h5py

                    with h5py.File(backup, "r") as f:
                        allnames = sorted(k_ for k_ in f.keys() if k_.startswith("c") and k_[1:3].isdigit())
                    if allnames != sorted(gname(*k) for k in model):
                        rec.violation("A/split-backup-incomplete", "backup holds %s, source had %s" % (allnames, sorted(gname(*k) for k in model)), w)
                finally:
                    sdb.close()
                    _rm(src)
                    _rm(backup if "backup" in dir() else "")
                log.append("split keep %d" % len(keep))
                rec.case(["A", "split", len(keep), len(plain)])
            elif kind == "rewrite":
                key = rng.choice(sorted(model))
                r.p.cycle, r.p.timeNode = key[0], key[1]
                mutate()
                rec.hit("A.rewrite-refused")
                try:
                    db.writeToDB(r, key[2] or None)
                    # accepted silently: the stored snapshot must still be the first one or the new one in full, never a mixture
                    r2 = db.load(key[0], key[1], cs=cs, bp=bp, statePointName=key[2] or None)
                    o2 = obs.obs(r2)
                    if obs.diff(model[key], o2, ignore_params=()) and obs.diff(obs.obs(r), o2, ignore_params=()):
                        rec.violation("A/rewrite-accepted-and-mixed", "second write to %s was accepted and the snapshot is neither the first nor the second state" % gname(*key), w)
                    else:
                        rec.add("rewrite_accepted_without_mixing")
                except Exception:
                    rec.reject("rewrite of an existing snapshot refused")
                    r2 = db.load(key[0], key[1], cs=cs, bp=bp, statePointName=key[2] or None)
                    cmp_obs(rec, "A/refused-rewrite-changed-snapshot", model[key], obs.obs(r2), dict(w, key=gname(*key)), ignore=(), twin=twins.get(key))
                log.append("rewrite:%s" % gname(*key))
                rec.case(["A", "rewrite"])
        except Exception as e:
            rec.crash("A/" + kind, e, w)
    # isolation: after everything, every snapshot still equals its state at write
    for key in sorted(model)[:6]:
        try:
            rec.hit("A.load-vs-model")
            r2 = db.load(key[0], key[1], cs=cs, bp=bp, statePointName=key[2] or None)
            cmp_obs(rec, "A/load-differs-from-state-at-write(final)", model[key], obs.obs(r2), dict(w, key=gname(*key)), ignore=(), twin=twins.get(key))
        except Exception as e:
            rec.crash("A/final-load", e, w)
    db.close()
    _rm(fname)
    for raising in (True, False):
        try:
            write_context_case(rec, rng, r, cs, bp, case, raising)
        except Exception as e:
            rec.crash("A/write-context(harness?)", e, {"case": case, "raising": raising})


def write_context_case(rec, rng, r, cs, bp, case, raising):
    """`with Database(f, "w") as db: db.writeToDB(r)`, left by an exception or normally: the file is in the working directory, holds the
    snapshot, and is marked successfully completed exactly when no exception went through the `with` (database.py __exit__)."""
    import h5py

    from armi.bookkeeping.db.database import Database
    from vlib import obs

    c, n = rng.randint(0, 4), rng.randint(0, 5)
    r.p.cycle, r.p.timeNode = c, n
    r.sort()
    state = obs.obs(r)
    fn = "ctx-%d-%d-%d.h5" % (case, int(raising), rng.randrange(10 ** 6))
    how = "exception" if raising else "clean"
    w = {"case": case, "with-block-left-by": how, "snapshot": gname(c, n)}
    raised = False
    try:
        with Database(fn, "w") as d2:
            d2.writeToDB(r)
            if raising:
                raise Injected("inside `with Database(f, 'w')`")
    except Injected:
        raised = True
    except Exception as e:
        rec.crash("A/write-context/" + how, e, w)
        _rm(fn)
        return
    rec.hit("A.write-context-exit." + how)
    try:
        if raised != raising:
            rec.violation("A/write-context/exception-swallowed", "the exception raised inside the with block did not come out of it", w)
        if not os.path.exists(fn):
            rec.violation("A/write-context/no-file-in-working-directory/%s" % how, "after a with block left by %s there is no %s in the working directory" % (how, fn), w)
            return
        with h5py.File(fn, "r") as f:
            names = sorted(k for k in f.keys() if k != "inputs")
            flag = bool(f.attrs["successfulCompletion"])
        if names != [gname(c, n)]:
            rec.violation("A/write-context/snapshots/%s" % how, "file holds %s, written: [%s]" % (names, gname(c, n)), w)
        if flag != (not raising):
            rec.violation("A/write-context/successfulCompletion-flag/%s" % ("aborted-block-marked-successful" if raising else "clean-block-not-marked-successful"),
                          "successfulCompletion=%s after a with block left by %s" % (flag, how), w)
        if gname(c, n) in names:
            with Database(fn, "r") as d3:
                o2 = obs.obs(d3.load(c, n, cs=cs, bp=bp))
            # (kgHM & co., see STALE_AT_WRITE, may be stale in `state`; they are judged against a twin load in the history itself)
            cmp_obs(rec, "A/write-context/snapshot-differs-from-state-at-write", state, o2, w, ignore=STALE_AT_WRITE)
    finally:
        _rm(fn)
    rec.case(["A", "write-context", how])


def _rm(p):
    try:
        if p:
            os.remove(p)
    except OSError:
        pass


# ============================================================================= workload B
class Injected(Exception):
    pass


STATE = {"fail": None, "log": [], "at_failure": None, "coupled": False}


def make_ifaces():
    from armi import interfaces
    from vlib import obs

    class Rec(interfaces.Interface):
        name = "rec"

        def __init__(self, r, cs, nm):
            self.name = nm
            interfaces.Interface.__init__(self, r, cs)

        def _do(self, hook, *a):
            p = self.r.p
            STATE["log"].append((self.name, hook, a, int(p.cycle), int(p.timeNode)))
            n = len(STATE["log"])
            for b in self.r.core.getBlocks():
                b.p.power = float(n)
                b.p.flux = float(n) * 2
            self.r.core.p.keff = 1.0 + n * 1e-4
            f = STATE["fail"]
            if f is not None and f[1] == self.name and f[0] == hook and tuple(f[2:]) == tuple(a[:len(f) - 2]):
                self.r.sort()
                STATE["at_failure"] = obs.obs(self.r, derived=False)
                raise Injected(repr(f))

        def interactBOL(self):
            self._do("BOL")

        def interactBOC(self, cycle=None):
            self._do("BOC", cycle)

        def interactEveryNode(self, c, n):
            self._do("EveryNode", c, n)

        def interactCoupled(self, it):
            self._do("Coupled", int(self.r.p.cycle), int(self.r.p.timeNode))

        def interactEOC(self, cycle=None):
            self._do("EOC", cycle)

        def interactEOL(self):
            self._do("EOL")

    from armi.bookkeeping.db.databaseInterface import DatabaseInterface
    from armi.operators.operator import Operator

    class Op(Operator):
        def createInterfaces(self):
            self.addInterface(Rec(self.r, self.cs, "pre"))
            self.addInterface(DatabaseInterface(self.r, self.cs))
            self.addInterface(Rec(self.r, self.cs, "post"))

    from armi.bookkeeping.mainInterface import MainInterface

    class RestartOp(Operator):
        """the stock arrangement of a restart: the main interface first (it opens the database and calls prepRestartRun at BOL)"""

        def createInterfaces(self):
            self.addInterface(MainInterface(self.r, self.cs))
            self.addInterface(Rec(self.r, self.cs, "pre"))
            self.addInterface(DatabaseInterface(self.r, self.cs))
            self.addInterface(Rec(self.r, self.cs, "post"))

    return Op, RestartOp


class CrashHarness:
    def __init__(self):
        from armi import settings
        from armi.tests import TEST_ROOT

        self.base = settings.Settings(os.path.join(TEST_ROOT, "smallestTestReactor/armiRunSmallest.yaml"))
        self.Op, self.RestartOp = make_ifaces()
        self.n = 0
        self.sources = {}  # layout -> (file of a completed run, {group name: state recorded at its write}, {group name: digest})

    def cleanup(self):
        for fn, _bw, _dg in self.sources.values():
            _rm(fn)


def expected_groups(ncyc, bsteps, coupled, point):
    """Independent scheduler: which snapshots were completed before the failure point (None = no failure)."""
    done = []
    events = [("BOL",)]
    for c in range(ncyc):
        events.append(("BOC", c))
        for n in range(bsteps + 1):
            events.append(("EveryNode", c, n))
            if coupled and not (isinstance(coupled, (tuple, list)) and c in coupled):
                events.append(("Coupled", c, n))
            events.append(("WRITE-AFTER-NODE", c, n))
        events.append(("EOC", c))
    events.append(("EOL",))
    cur = (0, 0)
    for ev in events:
        if ev[0] in ("BOC",):
            cur = (ev[1], 0)
        if ev[0] in ("EveryNode", "Coupled"):
            cur = (ev[1], ev[2])
        if ev[0] == "WRITE-AFTER-NODE":
            if coupled:
                done.append((ev[1], ev[2], ""))
            continue
        for pos in ("pre", "db", "post"):
            if pos == "db":
                if ev[0] == "EveryNode" and not coupled:
                    done.append((ev[1], ev[2], ""))
                if ev[0] == "EOL":
                    done.append((cur[0], cur[1], "EOL"))
                continue
            if point is not None and point[0] == ev[0] and point[1] == pos and tuple(point[2:]) == tuple(ev[1:]):
                return done, cur
    return done, cur


def run_once(H, lay, point, title, restart=None):
    """One run of the real Operator (`with o: o.operate()`), failing at `point` if given. restart = (source .h5, startCycle, startNode).
    Returns (aborted by the injected failure, the writeToDB calls observed); any other exception propagates."""
    from armi.reactor import blueprints, reactors
    from vlib.env import quiet

    ncyc, bsteps, coupled = lay
    new = {"startCycle": 0, "startNode": 0, "nCycles": ncyc, "burnSteps": bsteps, "verbosity": "error", "db": True,
           "tightCoupling": coupled, "cycleLength": 100.0}
    if restart:
        new.update({"reloadDBName": os.path.abspath(restart[0]), "startCycle": restart[1], "startNode": restart[2], "loadStyle": "fromDB"})
    if isinstance(coupled, (tuple, list)):
        new["tightCoupling"] = True
        new["cyclesSkipTightCouplingInteraction"] = list(coupled)
    cs = H.base.modified(newSettings=new)
    cs.caseTitle = title
    with quiet():
        bp = blueprints.loadFromCs(cs)
        r = reactors.factory(cs, bp)
    o = (H.RestartOp if restart else H.Op)(cs)
    STATE.update(fail=point, log=[], at_failure=None, coupled=coupled)
    nw0 = len(WRITES)
    aborted = False
    try:
        with quiet():
            o.initializeInterfaces(r)
            with o:
                o.operate()
    except Injected:
        aborted = True
    return aborted, WRITES[nw0:]


def crash_case(rec, H, lay, point):
    import h5py

    from armi.bookkeeping.db.database import Database
    from vlib import obs

    ncyc, bsteps, coupled = lay
    H.n += 1
    title = "crash%d" % H.n
    w = {"layout": {"cycles": ncyc, "burnSteps": bsteps, "tightCoupling": coupled}, "failure": point}
    if isinstance(coupled, (tuple, list)):
        rec.hit("B.run.tight-coupling-with-skipped-cycles")
    try:
        aborted, writes = run_once(H, lay, point, title)
    except Exception as e:
        rec.crash("B/run", e, w)
        return
    fname = title + ".h5"
    if point is None:
        rec.hit("B.run-complete")
        if aborted:
            rec.violation("B/harness-unexpected-abort", "failure-free run aborted", w)
    else:
        rec.hit("B.run-with-failure")
        if not aborted:
            rec.violation("B/harness-failure-not-reached", "the failure point %s was never reached (log %s)" % (point, STATE["log"][-4:]), w)
            _rm(fname)
            return
    done, cur = expected_groups(ncyc, bsteps, coupled, point)
    in_scope = True
    if point is not None and point[0] == "BOL" and point[1] == "pre":
        in_scope = False  # the database is not open yet
    if point is not None and point[0] == "EOL" and point[1] == "post":
        in_scope = False  # the database was already finalised
    if not in_scope:
        rec.skip("failure %s/%s lies outside [database opened, database finalised]" % (point[0], point[1]))
        rec.note("out_of_scope_file_present:%s/%s" % (point[0], point[1]), os.path.exists(fname))
        _rm(fname)
        rec.case(["B", lay, point], nontrivial=False)
        return
    exp = [gname(*k) for k in done]
    if point is not None:
        exp.append(gname(cur[0], cur[1], "error"))
    try:
        if not os.path.exists(fname):
            rec.violation("B/no-file-in-working-directory", "after %s no %s in the working directory (fast path left behind?)" % ("the failure" if point else "the run", fname), w)
            return
        with h5py.File(fname, "r") as f:
            names = sorted(k for k in f.keys() if k != "inputs")
            flag = bool(f.attrs["successfulCompletion"])
        if sorted(exp) != names:
            missing = sorted(set(exp) - set(names))
            extra = sorted(set(names) - set(exp))
            kind = "missing-error-snapshot" if any(m.endswith("error") for m in missing) else "missing-completed-snapshot" if missing else "unexpected-snapshot"
            rec.violation("B/snapshots/%s" % kind, "file holds %s; completed before the failure %s: %s (missing %s, extra %s)" % (names, point, sorted(exp), missing, extra), w)
        if flag != (point is None):
            rec.violation("B/successfulCompletion-flag/%s" % ("aborted-run-marked-successful" if point else "completed-run-not-marked-successful"),
                          "successfulCompletion=%s after %s" % (flag, "failure at %s" % (point,) if point else "a complete run"), w)
        # contents: every snapshot equals the state recorded when it was written; the error snapshot equals the state at the failure
        bywrite = {gname(c, n, lab): ob for (_i, c, n, lab, ob) in writes}
        with Database(fname, "r") as db:
            for (c, n, lab) in done + ([(cur[0], cur[1], "error")] if point else []):
                nm = gname(c, n, lab)
                if nm not in names:
                    continue
                rec.hit("B.snapshot-compared")
                r2 = db.load(c, n, statePointName=lab or None)
                r2.sort()
                o2 = obs.obs(r2, derived=False)
                ref = STATE["at_failure"] if lab == "error" else bywrite.get(nm)
                if ref is None:
                    rec.violation("monitor/no-recorded-state-for-snapshot", "no recorded state for %s" % nm, w)
                    continue
                cmp_obs(rec, "B/%s-differs-from-recorded-state" % ("error-snapshot" if lab == "error" else "snapshot"), ref, o2, dict(w, snapshot=nm),
                        ignore=("minutesSinceStart",))
    except Exception as e:
        rec.crash("B/inspect-file", e, w)
    finally:
        _rm(fname)
    rec.case(["B", lay, point], sample=dict(w, expected=exp) if point and point[0] == "EveryNode" and point[1] == "post" and point[2:] == (0, 1) else None)


# ----------------------------------------------------------------------------- restart runs (DatabaseInterface.prepRestartRun)
def _h5norm(v):
    import numpy as np

    if isinstance(v, np.ndarray):
        if v.dtype.kind == "O":
            return ("O", v.shape, [_h5norm(x) for x in v.ravel().tolist()])
        return (str(v.dtype), v.shape, v.tobytes())
    if isinstance(v, np.generic):
        return (str(v.dtype), (), v.tobytes())
    return v


def h5_digest(group):
    """Independent h5py walk: everything stored under a time-step group (datasets with dtype, shape and bytes; attributes of every node)."""
    import h5py

    out = {"": {k: _h5norm(v) for k, v in group.attrs.items()}}

    def visit(name, node):
        d = {"@" + k: _h5norm(v) for k, v in node.attrs.items()}
        if isinstance(node, h5py.Dataset):
            d["data"] = _h5norm(node[()])
        out[name] = d

    group.visititems(visit)
    return out


def restart_source(rec, H, lay):
    """A completed run of the layout, made once per shard: its file, the states recorded at its writes, the digest of every group."""
    import h5py

    key = json.dumps(lay)  # layouts arrive through JSON: the skipped-cycle entry is a list
    if key in H.sources:
        return H.sources[key]
    H.n += 1
    title = "source%d" % H.n
    aborted, writes = run_once(H, lay, None, title)
    rec.add("restart_source_runs")
    fname = title + ".h5"
    done, _cur = expected_groups(lay[0], lay[1], lay[2], None)
    with h5py.File(fname, "r") as f:
        names = sorted(k for k in f.keys() if k != "inputs")
        digests = {k: h5_digest(f[k]) for k in names}
    if aborted or names != sorted(gname(*k) for k in done):
        # (this is what the failure-free run of crash_case judges; a restart from such a file would say nothing)
        raise RuntimeError("source run for restarts did not complete as scheduled: %s" % names)
    H.sources[key] = (fname, {gname(c, n, lab): ob for (_i, c, n, lab, ob) in writes}, digests)
    return H.sources[key]


def restart_case(rec, H, lay, start, point):
    """Restart from the .h5 of a completed run at `start`: the new file holds the source's earlier steps unchanged, then the new nodes."""
    import h5py

    from armi.bookkeeping.db.database import Database
    from vlib import hooks, obs

    ncyc, bsteps, coupled = lay
    w = {"layout": {"cycles": ncyc, "burnSteps": bsteps, "tightCoupling": coupled}, "restart-at": gname(*start), "failure": point}
    try:
        src, srcstates, srcdigests = restart_source(rec, H, lay)
    except Exception as e:
        rec.crash("B/restart/source-run", e, w)
        return
    H.n += 1
    title = "restart%d" % H.n
    fname = title + ".h5"
    nprep = hooks.HITS["DatabaseInterface.prepRestartRun"]
    try:
        aborted, writes = run_once(H, lay, point, title, restart=(src, start[0], start[1]))
    except Exception as e:
        rec.crash("B/restart/run", e, w)
        _rm(fname)
        return
    if hooks.HITS["DatabaseInterface.prepRestartRun"] != nprep + 1:
        rec.violation("monitor/restart-did-not-go-through-prepRestartRun", "prepRestartRun ran %d times in a restart run" % (hooks.HITS["DatabaseInterface.prepRestartRun"] - nprep), w)
    if point is None:
        rec.hit("B.restart-complete")
        if aborted:
            rec.violation("B/harness-unexpected-abort", "failure-free restart run aborted", w)
    else:
        rec.hit("B.restart-with-failure")
        if not aborted:
            rec.violation("B/harness-failure-not-reached", "the failure point %s was never reached in the restart run (log %s)" % (point, STATE["log"][-4:]), w)
            _rm(fname)
            return
    # independent schedule: the source's steps before the restart point, then every node from the restart point on
    srcdone, _c = expected_groups(ncyc, bsteps, coupled, None)
    merged = [k for k in srcdone if (k[0], k[1]) < tuple(start)]
    newnodes = [(c, n, "") for c in range(ncyc) for n in range(bsteps + 1) if (c, n) >= tuple(start)]
    if point is None:
        done, err = merged + newnodes + [(ncyc - 1, bsteps, "EOL")], None
    else:
        # the three failure points used: right after the merge (BOL, before the database interface) and before/after the database
        # interface at the first node (with tight coupling the node is only written after the coupled iterations, i.e. not yet)
        first_written = point[0] == "EveryNode" and point[1] == "post" and not coupled
        done, err = merged + (newnodes[:1] if first_written else []), (start[0], start[1], "error")
    exp = sorted(gname(*k) for k in done + ([err] if err else []))
    try:
        if not os.path.exists(fname):
            rec.violation("B/restart/no-file-in-working-directory", "after the restart run no %s in the working directory" % fname, w)
            return
        with h5py.File(fname, "r") as f:
            names = sorted(k for k in f.keys() if k != "inputs")
            flag = bool(f.attrs["successfulCompletion"])
            for k in merged:
                nm = gname(*k)
                if nm in names:
                    rec.hit("B.restart.merged-group-compared")
                    d = h5_digest(f[nm])
                    if d != srcdigests[nm]:
                        bad = sorted(p_ for p_ in set(d) | set(srcdigests[nm]) if d.get(p_) != srcdigests[nm].get(p_))
                        rec.violation("B/restart/merged-snapshot-changed", "group %s of the restart file differs from the source's at %s" % (nm, bad[:6]), w)
        if exp != names:
            missing = sorted(set(exp) - set(names))
            extra = sorted(set(names) - set(exp))
            mnames = set(gname(*k) for k in merged)
            kind = ("missing-merged-step" if any(m in mnames for m in missing) else "missing-error-snapshot" if any(m.endswith("error") for m in missing)
                    else "missing-completed-snapshot" if missing else "unexpected-snapshot")
            rec.violation("B/restart/snapshots/%s" % kind, "restart at %s: file holds %s; expected the source's steps before the restart point + the new ones: %s (missing %s, extra %s)"
                          % (gname(*start), names, exp, missing, extra), w)
        if flag != (point is None):
            rec.violation("B/restart/successfulCompletion-flag/%s" % ("aborted-run-marked-successful" if point else "completed-run-not-marked-successful"),
                          "successfulCompletion=%s after %s" % (flag, "failure at %s" % (point,) if point else "a complete restart run"), w)
        bywrite = {gname(c, n, lab): ob for (_i, c, n, lab, ob) in writes}
        with Database(fname, "r") as db:
            for k in done + ([err] if err else []):
                nm = gname(*k)
                if nm not in names:
                    continue
                rec.hit("B.snapshot-compared")
                r2 = db.load(k[0], k[1], statePointName=k[2] or None)
                r2.sort()
                o2 = obs.obs(r2, derived=False)
                if k in merged:
                    ref, what = srcstates.get(nm), "merged-snapshot-differs-from-state-recorded-in-the-source-run"
                    if ref is not None:
                        # by design a loaded Reactor is named after the case title of the settings it is loaded with ("R-<title>"; the
                        # name is not stored), and the restart case must have another title than its source
                        ref = [dict(ref[0], name=o2[0]["name"])] + ref[1:]
                elif k[2] == "error":
                    ref, what = STATE["at_failure"], "error-snapshot-differs-from-recorded-state"
                else:
                    ref, what = bywrite.get(nm), "snapshot-differs-from-recorded-state"
                if ref is None:
                    rec.violation("monitor/no-recorded-state-for-snapshot", "no recorded state for %s" % nm, w)
                    continue
                cmp_obs(rec, "B/restart/%s" % what, ref, o2, dict(w, snapshot=nm), ignore=("minutesSinceStart",))
    except Exception as e:
        rec.crash("B/restart/inspect-file", e, w)
    finally:
        _rm(fname)
    rec.case(["B-restart", lay, start, point], sample=dict(w, expected=exp) if point is None and start == (1, 1) else None)
