"""C05 - every parameter value shape survives database encoding and decoding.

A *column* is a list with one value per object.  Two paths drive the real armi code:

* unit path: the real ``Database._writeParams`` / ``Database._readParams`` are called on a list of tiny stand-in
  composites (one attribute dict each, one parameter definition) with a real HDF5 group of a real ``Database`` file
  underneath, so strategy selection (plain / None sentinel / jagged / dict / serializer), the HDF5 dtype conversion
  and the large-attribute side channel (``_writeAttrs`` / ``_resolveAttrs``) all run unmodified and no control flow
  of armi is copied into the harness;
* full path: the column is assigned to a real parameter of the blocks (or pin components) of the smallest test
  reactor (its single assembly is grown to the wanted number of blocks), ``Database.writeToDB`` then ``Database.load``.

Oracle (independent of armi): the generator's own column compared with what came back under the equivalence ``~``
of DESIGN.md C05 (None~None, NaN~None for reals, sequence~array of the same shape, empty entry~None, numbers equal
by value and of the same kind for homogeneous columns, dict keys minus NaN-valued, flags = same set of names).
"""
import os
import random

PROP = "C05"
LEVEL = "exploration"
RULE = (
    "seeded column generator: object count 1-12 (plus a few very long columns for the large-attribute side channel) x element "
    "family {python int, np.int8..64, np.uint8..64, float, np.float32/64, bool, str (ascii/unicode/empty/'<!None!>'/trailing NUL), "
    "n-d arrays ndim 1-3 as ndarray/list/tuple (equal shapes, ragged, differing ndim, empty, zero-size axes), nested lists (regular, "
    "inner-ragged, inner None), dict[str,float] (identical/overlapping/disjoint keys, NaN values, empty), synthetic Flag classes "
    "written with one field order and read with a permuted/extended/reduced one, mixed-kind columns, scalars among arrays} x None "
    "pattern {none, first, last, all-but-one, all, random} x values at the None sentinels (iinfo.min+2, iinfo.max-2, NaN). "
    "families and None patterns are cycled so the cross product is covered, everything else is drawn from the shard rng. "
    "A case = one column through one path; distinct = distinct structural normal form (path, family, dtype, container, None "
    "positions, per-entry shapes, sentinel placement); non-trivial = at least one entry that is not None."
)
TOLERANCES = {"stored values": "exact (==), NaN equivalent to None for reals"}
EXHAUSTIVE = {"quick": False, "thorough": False}
EXHAUSTIVE_PART = "family x None-pattern cross product is cycled completely in every unit shard; values, shapes and orders are sampled"
TIMEOUT = {"quick": 600, "thorough": 3600}
ASSUMPTIONS = [
    "h5py 3.16 stores large attributes of track_order datasets densely, so the Database._writeAttrs fallback (attribute moved to a "
    "dataset + '@path' link) is unreachable here; the 'large' shard runs every long column twice, once as is and once with "
    "h5py.AttributeManager.__setitem__ raising the RuntimeError older h5py raised above 64 KiB, so the real fallback and the real "
    "_resolveAttrs run",
    "unit path: stand-in composites expose only what Database._writeParams/_readParams use (class name, p.paramDefs.toWriteToDB(), "
    "p.get, p[...] assignment, pDefs); the parameter is treated as unset (None) when the database holds no dataset for it",
    "full path: blocks are added to the single assembly of smallestTestReactor by Assembly.add(deepcopy(block)); loaded objects are "
    "matched to written ones by serialNum",
    "a refusal at write time is always an allowed outcome (DESIGN section 3); only accepted columns are judged for fidelity",
]
FLOORS = {
    "quick": {
        "compare.unit": 1500, "compare.full": 60, "compare.flags": 100, "attr.side-channel": 2, "write.rejected": 200,
        "hook:armi.bookkeeping.db.database.packSpecialData": 800, "hook:armi.bookkeeping.db.database.unpackSpecialData": 400,
        "hook:armi.bookkeeping.db.database.replaceNonesWithNonsense": 100, "hook:armi.bookkeeping.db.database.replaceNonsenseWithNones": 60,
        "hook:JaggedArray.unpack": 200, "hook:FlagSerializer._remapBits": 100, "hook:Database._writeAttrs": 500, "hook:Database._resolveAttrs": 1500,
        "hook:Database.writeToDB": 60, "hook:Database.load": 40,
        # faithful non-trivial round trips per family: a tree that refuses (nearly) everything must not be reported as held
        "large.long-entry": 8, "large.long-entry>=65536": 3, "faithful/scalar": 120, "faithful/array-equal": 100, "faithful/array-ragged": 100, "faithful/array-empty": 40, "faithful/dict": 15,
        "faithful/flags": 150, "faithful/nested": 8, "faithful/str": 12,
        "faithful/array-ragged as list": 30, "faithful/array-ragged as ndarray": 60, "faithful/array-equal as list": 25,
        "faithful/layout-fortran": 8, "faithful/layout-transposed-view": 8, "faithful/layout-strided-view": 15, "faithful/layout-reversed-view": 15,
    },
    "thorough": {
        "compare.unit": 20000, "compare.full": 600, "compare.flags": 2000, "attr.side-channel": 10, "write.rejected": 3000,
        "hook:armi.bookkeeping.db.database.packSpecialData": 10000, "hook:armi.bookkeeping.db.database.unpackSpecialData": 5000,
        "hook:armi.bookkeeping.db.database.replaceNonesWithNonsense": 1500, "hook:armi.bookkeeping.db.database.replaceNonsenseWithNones": 800,
        "hook:JaggedArray.unpack": 3000, "hook:FlagSerializer._remapBits": 2000, "hook:Database._writeAttrs": 8000, "hook:Database._resolveAttrs": 20000,
        "hook:Database.writeToDB": 600, "hook:Database.load": 400,
        "large.long-entry": 30, "large.long-entry>=65536": 12, "faithful/scalar": 1800, "faithful/array-equal": 1500, "faithful/array-ragged": 1500, "faithful/array-empty": 600, "faithful/dict": 200,
        "faithful/flags": 2000, "faithful/nested": 200, "faithful/str": 400,
        "faithful/array-ragged as list": 400, "faithful/array-ragged as ndarray": 800, "faithful/array-equal as list": 300,
        "faithful/layout-fortran": 100, "faithful/layout-transposed-view": 100, "faithful/layout-strided-view": 200, "faithful/layout-reversed-view": 200,
    },
}

NONE_PATTERNS = ["none", "first", "last", "all-but-one", "all", "random"]
INT_DT = ["pyint", "int8", "int16", "int32", "int64", "uint8", "uint16", "uint32", "uint64"]
FLOAT_DT = ["pyfloat", "float32", "float64"]
BOOL_DT = ["bool", "npbool"]
STR_FLAVORS = ["ascii", "unicode", "empty", "all-empty", "sentinel", "nul", "long", "space"]
# (family, sub) pairs cycled by the unit shards
UNIT_FAMILIES = (
    [("scalar", dt) for dt in INT_DT + FLOAT_DT + BOOL_DT]
    + [("bigint", "pyint")]
    + [("str", fl) for fl in STR_FLAVORS]
    + [("array-equal", dt) for dt in ("pyint", "int8", "int32", "uint16", "uint64", "pyfloat", "float32", "float64", "bool", "str")]
    + [("array-ragged", dt) for dt in ("pyint", "int16", "int64", "uint8", "uint32", "pyfloat", "float32", "float64", "bool", "str")]
    + [("array-ragged-ndim", dt) for dt in ("pyint", "float64")]
    + [("array-empty", dt) for dt in ("pyint", "float64", "float32", "uint8")]
    + [("nested", m) for m in ("regular", "inner-ragged", "inner-none-float", "inner-none-int")]
    + [("dict", m) for m in ("identical", "overlapping", "disjoint", "nan", "empty", "npfloat", "unicode-key")]
    + [("mixed", m) for m in ("int-float", "int-str", "bool-int", "float-str", "int8-int64", "uint8-int8", "float32-float64", "bigint-float")]
    + [("ragged+scalar", m) for m in ("pyint", "pyfloat", "bool", "npfloat64", "npint64", "npint8", "npfloat32", "npbool", "str")]
)


def plan(tier, seed):
    q = tier == "quick"
    shards = []
    for i in range(8 if q else 12):
        shards.append({"name": "unit%d" % i, "kind": "unit", "n": 520 if q else 5200, "phase": i})
    for i in range(2 if q else 3):
        shards.append({"name": "flags%d" % i, "kind": "flags", "n": 260 if q else 2400})
    shards.append({"name": "large", "kind": "large", "n": 16 if q else 64})
    for i in range(4 if q else 8):
        shards.append({"name": "full%d" % i, "kind": "full", "n": 42 if q else 190, "phase": i})
    return shards


def run_shard(spec, rec):
    import warnings

    import numpy as np

    from vlib import env

    warnings.filterwarnings("ignore")
    np.seterr(all="ignore")
    install_hooks()
    with env.quiet():
        {"unit": do_unit, "flags": do_flags, "large": do_large, "full": do_full}[spec["kind"]](spec, rec)


def install_hooks():
    from armi.bookkeeping.db import database as dbmod
    from armi.bookkeeping.db.jaggedArray import JaggedArray
    from armi.reactor.composites import FlagSerializer
    from vlib import hooks

    for name in ("packSpecialData", "unpackSpecialData", "replaceNonesWithNonsense", "replaceNonsenseWithNones"):
        hooks.wrap(dbmod, name)
    hooks.wrap(JaggedArray, "unpack")
    hooks.wrap(FlagSerializer, "_remapBits")
    for name in ("_writeAttrs", "_resolveAttrs", "writeToDB", "load"):
        hooks.wrap(dbmod.Database, name)


# ----------------------------------------------------------------------------- column generator
def np_type(dt):
    import numpy as np

    return {"pyint": np.int64, "pyfloat": np.float64, "bool": np.bool_, "npbool": np.bool_, "str": np.str_}.get(dt) or getattr(np, dt)


def int_range(dt):
    if dt == "pyint":
        return -(2 ** 63), 2 ** 63 - 1
    bits = int(dt.lstrip("uint"))
    return (0, 2 ** bits - 1) if dt.startswith("u") else (-(2 ** (bits - 1)), 2 ** (bits - 1) - 1)


def none_sentinel(dt):
    """The value DESIGN.md / layout.NONE_MAP's comment reserve for 'unset' (stated here independently)."""
    lo, hi = int_range(dt)
    return hi - 2 if dt.startswith("u") else lo + 2


ALL_INT_SENTINELS = set()
for _dt in INT_DT:
    _lo, _hi = int_range(_dt)
    ALL_INT_SENTINELS.update((_lo + 2, _hi - 2))
STR_SENTINEL = "<!None!>"


def mk_scalar(dt, v):
    if dt == "pyint":
        return int(v)
    if dt == "pyfloat":
        return float(v)
    if dt == "bool":
        return bool(v)
    if dt == "str":
        return str(v)
    return np_type(dt)(v)


def rand_int(rng, dt):
    lo, hi = int_range(dt)
    r = rng.random()
    if r < 0.4:
        v = rng.randint(max(lo, -9), min(hi, 9))
    elif r < 0.6:
        v = rng.choice([lo, lo + 1, lo + 3, hi, hi - 1, hi - 3, 0, 1, 2])
    else:
        v = rng.randint(lo, hi)
    if v == none_sentinel(dt):  # only placed deliberately (sentinel mode)
        v = v + 1
    return v


def rand_float(rng, dt):
    r = rng.random()
    if r < 0.5:
        v = rng.uniform(-1000.0, 1000.0)
    elif r < 0.7:
        v = float(rng.randint(-5, 5))
    else:
        v = rng.choice([0.0, -0.0, 1.0, float("inf"), float("-inf"), 1e308, -1e308, 5e-324, 1.0 / 3.0, 2.0 ** 53 + 2.0, 1e-30])
    if dt == "float32":
        v = float(np_type(dt)(v))
    return v


def rand_str(rng, flavor="ascii"):
    alphabet = "abcdefghijklmnopqrstuvwxyzABCDEFGHIJKLMNOPQRSTUVWXYZ0123456789_-. /"
    n = rng.choice([1, 1, 2, 3, 5, 8, 13])
    s = "".join(rng.choice(alphabet) for _ in range(n))
    if flavor == "unicode":
        s = s[: n // 2] + rng.choice(["é", "Ω", "中", "\U0001f600"]) + s[n // 2:]
    elif flavor == "long":
        s = s * 60
    elif flavor == "nul":
        s = s + "\x00"
    elif flavor == "space":
        s = rng.choice([" ", ""]) + s + rng.choice([" ", "  ", "\t"])
    return s


def rand_value(rng, dt):
    if dt in INT_DT:
        return rand_int(rng, dt)
    if dt in FLOAT_DT:
        return rand_float(rng, dt)
    if dt in BOOL_DT:
        return rng.random() < 0.5
    return rand_str(rng, "ascii")


def none_positions(rng, n, pattern):
    if pattern == "none":
        return set()
    if pattern == "first":
        return {0}
    if pattern == "last":
        return {n - 1}
    if pattern == "all-but-one":
        keep = rng.randrange(n)
        return set(range(n)) - {keep}
    if pattern == "all":
        return set(range(n))
    return {i for i in range(n) if rng.random() < 0.4}


def rand_shape(rng, ndim, zero_ok=False):
    return tuple(rng.choice([0, 1, 2, 3]) if zero_ok and rng.random() < 0.3 else rng.randint(1, 4) for _ in range(ndim))


def relayout(rng, a):
    """The same values in a memory layout that is not C-contiguous (what slicing, transposing and Fortran-order libraries
    hand to a parameter): a writer that walks memory order instead of index order stores them permuted."""
    import numpy as np

    how = rng.choice(["fortran", "transposed-view", "strided-view", "reversed-view"] if a.ndim >= 2 else ["strided-view", "reversed-view"])
    if how == "fortran":
        b = np.asfortranarray(a)
    elif how == "transposed-view":
        b = np.ascontiguousarray(a.T).T
    elif how == "strided-view":
        big = np.repeat(a, 2, axis=a.ndim - 1)
        b = big[..., ::2]
    else:
        b = np.ascontiguousarray(a[::-1])[::-1]
    assert b.shape == a.shape and b.dtype == a.dtype and (b == a).all() or a.dtype.kind == "f"
    return b, how


def mk_array(rng, dt, shape, container, layouts=None):
    import numpy as np

    size = 1
    for s in shape:
        size *= s
    vals = [rand_value(rng, dt) for _ in range(size)]
    a = np.array(vals, dtype=np_type(dt)).reshape(shape) if vals else np.zeros(shape, dtype=np_type(dt) if dt != "str" else "U1")
    if container == "ndarray":
        if a.size > 1 and rng.random() < 0.4:
            a, how = relayout(rng, a)
            if layouts is not None:
                layouts.append(how)
        return a
    if container == "tuple":
        return tuple(a.tolist())
    return a.tolist()


def gen_column(rng, family, sub, pattern, n=None):
    """Return (column, meta).  meta: family, sub, container, sentinel, judge_form (shape/kind are judged), tags."""
    n = n or rng.choice([1, 2, 2, 3, 3, 4, 5, 6, 8, 10, 12])
    meta = {"family": family, "sub": sub, "pattern": pattern, "n": n, "container": "-", "sentinel": "-", "judge_form": True}
    nonepos = none_positions(rng, n, pattern)
    col = None
    if family == "scalar":
        col = [mk_scalar(sub, rand_value(rng, sub)) for _ in range(n)]
        live = [i for i in range(n) if i not in nonepos]
        if live and rng.random() < 0.3 and sub not in BOOL_DT:
            i = rng.choice(live)
            if sub in INT_DT:
                lo, hi = int_range(sub)
                which = rng.choice(["min+2", "max-2"])
                col[i] = mk_scalar(sub, lo + 2 if which == "min+2" else hi - 2)
            else:
                which = "nan"
                col[i] = mk_scalar(sub, float("nan"))
            meta["sentinel"] = which
    elif family == "bigint":
        col = [rng.choice([2 ** 63, 2 ** 64, 2 ** 70, -(2 ** 63) - 1, 2 ** 64 - 1, 5, -7]) for _ in range(n)]
        col[rng.randrange(n)] = rng.choice([2 ** 64, 2 ** 70, -(2 ** 63) - 1])
    elif family == "str":
        if sub == "all-empty":
            col = ["" for _ in range(n)]
        else:
            col = [rand_str(rng, "ascii") for _ in range(n)]
            k = rng.randrange(n)
            col[k] = {"empty": "", "sentinel": STR_SENTINEL}.get(sub, rand_str(rng, sub))
            if sub == "sentinel":
                meta["sentinel"] = "str"
    elif family in ("array-equal", "array-ragged", "array-ragged-ndim", "array-empty"):
        container = rng.choice(["ndarray", "ndarray", "list", "tuple", "mixed"])
        meta["container"] = container
        ndim = rng.choice([1, 1, 2, 3])
        if family == "array-equal":
            shp = rand_shape(rng, ndim, zero_ok=rng.random() < 0.15)
            shapes = [shp] * n
        elif family == "array-ragged":
            shapes = [rand_shape(rng, ndim) for _ in range(n)]
            if n >= 2 and len(set(shapes)) == 1:
                shapes[0] = tuple(s + 1 for s in shapes[0])
            if rng.random() < 0.3:  # ragged only in a trailing axis: same top-level length
                top = shapes[0][0]
                shapes = [(top,) + s[1:] for s in shapes]
        elif family == "array-ragged-ndim":
            shapes = [rand_shape(rng, rng.randint(1, 3)) for _ in range(n)]
            if n >= 2:
                shapes[0] = rand_shape(rng, 1)
                shapes[1] = rand_shape(rng, 2)
        else:  # array-empty: empties and zero-size axes among arrays of one ndim
            shapes = [rand_shape(rng, ndim) for _ in range(n)]
            for i in range(n):
                if rng.random() < 0.5:
                    shapes[i] = rng.choice([(0,) + shapes[i][1:], (0,), rand_shape(rng, ndim, zero_ok=True)])
            if all(0 not in s for s in shapes):
                shapes[rng.randrange(n)] = (0,)
        col = []
        for s in shapes:
            c = container if container != "mixed" else rng.choice(["ndarray", "list", "tuple"])
            col.append(mk_array(rng, sub, s, c, meta.setdefault("layouts", [])))
        meta["shapes"] = [list(s) for s in shapes]
        if sub in FLOAT_DT and rng.random() < 0.2:
            import numpy as np

            cand = [i for i in range(n) if i not in nonepos and isinstance(col[i], np.ndarray) and col[i].size]
            if cand:
                i = rng.choice(cand)
                if rng.random() < 0.5:
                    col[i] = np.full(col[i].shape, np.nan, dtype=col[i].dtype)
                else:
                    col[i].flat[rng.randrange(col[i].size)] = np.nan
                meta["sentinel"] = "nan"
    elif family == "nested":
        meta["container"] = "list"
        if sub == "regular":
            ndim = rng.choice([2, 3])
            equal = rng.random() < 0.5
            shp = rand_shape(rng, ndim)
            dts = rng.choice(["pyint", "pyfloat"])
            col = [mk_array(rng, dts, shp if equal else rand_shape(rng, ndim), "list") for _ in range(n)]
        elif sub == "inner-ragged":
            meta["judge_form"] = False
            meta["inner_ragged"] = True
            dts = rng.choice(["pyint", "pyfloat"])
            col = []
            for _ in range(n):
                rows = rng.randint(2, 3)
                lens = [rng.randint(1, 3) for _ in range(rows)]
                if len(set(lens)) == 1:
                    lens[0] += 1
                col.append([[rand_value(rng, dts) for _ in range(k)] for k in lens])
        else:  # a None inside a list
            dts = "pyfloat" if sub == "inner-none-float" else "pyint"
            equal = rng.random() < 0.6
            ndim = rng.choice([1, 1, 2])
            shp = rand_shape(rng, ndim)
            col = [mk_array(rng, dts, shp if equal else rand_shape(rng, ndim), "list") for _ in range(n)]
            k = rng.randrange(n)
            row = col[k]
            while isinstance(row[0], list):
                row = rng.choice(row)
            row[rng.randrange(len(row))] = None
            if k in nonepos:
                nonepos.discard(k)
    elif family == "dict":
        keys = ["k%02d" % i for i in range(12)] + ["U235", "PU239", "a", "B", "long_key_name_%d" % rng.randint(0, 9)]
        col = []
        base = rng.sample(keys, rng.randint(1, 5))
        for i in range(n):
            if sub == "identical":
                ks = base
            elif sub == "disjoint":
                ks = ["o%d_%s" % (i, k) for k in rng.sample(keys, rng.randint(1, 3))]
            elif sub == "empty" and rng.random() < 0.5:
                ks = []
            else:
                ks = rng.sample(keys, rng.randint(0 if sub == "empty" else 1, 6))
            d = {k: rand_float(rng, "pyfloat") for k in ks}
            if sub == "nan" and d and rng.random() < 0.7:
                for k in rng.sample(sorted(d), rng.randint(1, len(d))):
                    d[k] = float("nan")
                meta["sentinel"] = "nan"
            if sub == "npfloat":
                import numpy as np

                d = {k: np.float64(v) for k, v in d.items()}
            if sub == "unicode-key" and (i == 0 or rng.random() < 0.3):
                d["clé"] = 1.0
            col.append(d)
    elif family == "mixed":
        meta["judge_form"] = False
        a, b = {"int-float": ("pyint", "pyfloat"), "int-str": ("pyint", "str"), "bool-int": ("bool", "pyint"), "float-str": ("pyfloat", "str"),
                "int8-int64": ("int8", "int64"), "uint8-int8": ("uint8", "int8"), "float32-float64": ("float32", "float64"),
                "bigint-float": ("pyint", "pyfloat")}[sub]
        kinds = [rng.choice([a, b]) for _ in range(n)]
        if n >= 2:
            i, j = rng.sample(range(n), 2)
            kinds[i], kinds[j] = a, b
        col = []
        for k in kinds:
            if sub == "bigint-float" and k == "pyint":
                col.append(rng.choice([2 ** 53 + 1, 2 ** 62 + 1, -(2 ** 60) - 1]))
            elif sub == "int-float" and k == "pyfloat":
                col.append(rng.choice([0.5, 2.5, -1.25, 1e10 + 0.5, rng.uniform(-9, 9)]))
            elif sub == "float32-float64" and k == "float64":
                col.append(np_type(k)(rng.choice([0.1, 1.0 / 3.0, 1e300, rng.uniform(-9, 9)])))
            elif sub == "int8-int64" and k == "int64":
                col.append(np_type(k)(rng.choice([1000, -300, 2 ** 40, rng.randint(-9, 9)])))
            else:
                col.append(mk_scalar(k, rand_value(rng, k)))
        meta["kinds"] = kinds
    elif family == "ragged+scalar":
        meta["judge_form"] = False
        import numpy as np

        dts = rng.choice(["pyint", "pyfloat", "float64", "int64"])
        ndim = rng.choice([1, 1, 2])
        col = [mk_array(rng, dts, rand_shape(rng, ndim), rng.choice(["ndarray", "list"])) for _ in range(n)]
        if n == 1:
            n = meta["n"] = 2
            col.append(mk_array(rng, dts, rand_shape(rng, ndim), "ndarray"))
            nonepos = none_positions(rng, n, pattern)
        scal = {"pyint": lambda: rng.randint(-9, 9), "pyfloat": lambda: rng.uniform(-9, 9), "bool": lambda: rng.random() < 0.5,
                "npfloat64": lambda: np.float64(rng.uniform(-9, 9)), "npint64": lambda: np.int64(rng.randint(-9, 9)),
                "npint8": lambda: np.int8(rng.randint(-9, 9)), "npfloat32": lambda: np.float32(rng.randint(-9, 9) / 4.0),
                "npbool": lambda: np.bool_(rng.random() < 0.5), "str": lambda: rand_str(rng)}[sub]
        arrs = [i for i in range(n)]
        k = rng.randrange(n)
        keep_arr = rng.choice([i for i in arrs if i != k])
        for i in arrs:
            if i == k or (i != keep_arr and rng.random() < 0.25):
                col[i] = scal()
        nonepos.discard(k)
        nonepos.discard(keep_arr)
        meta["python_scalar"] = sub in ("pyint", "pyfloat", "bool", "npfloat64")
    else:
        raise ValueError(family)
    for i in nonepos:
        col[i] = None
    meta["nones"] = sorted(nonepos)
    return col, meta


def entry_form(x):
    import numpy as np

    if x is None:
        return 0
    if isinstance(x, np.ndarray):
        return ["nd", str(x.dtype), list(x.shape)]
    if isinstance(x, (list, tuple)):
        shp = shape_of(x)
        return [type(x).__name__, list(shp) if shp is not None else "inner-ragged"]
    if isinstance(x, dict):
        return ["dict", sorted(x), sorted(k for k, v in x.items() if v != v)]
    if isinstance(x, str):
        return ["str", len(x), x == STR_SENTINEL, x.isascii()]
    return type(x).__name__


def signature(path, col, meta):
    return [path, meta["family"], meta["sub"], meta["container"], meta["sentinel"], meta.get("order", ""), [entry_form(x) for x in col]]


# ----------------------------------------------------------------------------- the equivalence ~ (oracle side)
def is_seq(x):
    import numpy as np

    return isinstance(x, (list, tuple, np.ndarray))


def is_nonelike(x):
    import numpy as np

    return x is None or (isinstance(x, (float, np.floating)) and x != x)


def scal(x):
    import numpy as np

    if isinstance(x, (bool, np.bool_)):
        return ("b", bool(x))
    if isinstance(x, (int, np.integer)):
        return ("i", int(x))
    if isinstance(x, (float, np.floating)):
        return ("f", float(x))
    if isinstance(x, str):
        return ("U", str(x))
    return ("?", x)


def shape_of(x):
    """Shape of a (nested) sequence without going through numpy type promotion; None when inner lists are ragged."""
    import numpy as np

    if isinstance(x, np.ndarray):
        if x.dtype != object:
            return tuple(x.shape)
        x = list(x)
    if not is_seq(x):
        return ()
    if len(x) == 0:
        return (0,)
    subs = [shape_of(e) for e in x]
    if any(s_ is None for s_ in subs) or len(set(subs)) != 1:
        return None
    return (len(x),) + subs[0]


def flat(x):
    """All leaves of a nested list/tuple/ndarray in order (numpy scalars stay exact, no promotion)."""
    out = []
    for e in x:
        if is_seq(e):
            out.extend(flat(e))
        else:
            out.append(e)
    return out


def cmp_scalar(o, g, D, where):
    """Both are scalars (or None)."""
    if is_nonelike(o):
        if not is_nonelike(g):
            D.append(("none-became-value", "%s: unset came back as %r" % (where, g)))
        return
    if is_nonelike(g):
        so = scal(o)
        at = (so[0] == "i" and so[1] in ALL_INT_SENTINELS) or (so[0] == "U" and so[1] == STR_SENTINEL)
        D.append(("value-became-none" + ("/at-sentinel" if at else ""), "%s: %r came back unset" % (where, o)))
        return
    so, sg = scal(o), scal(g)
    num = ("b", "i", "f")
    same = (so[1] == sg[1]) if ((so[0] in num) == (sg[0] in num) and "?" not in (so[0], sg[0])) else False
    if not same:
        D.append(("value-changed", "%s: %r came back as %r" % (where, o, g)))
    elif so[0] != sg[0]:
        D.append(("kind-changed", "%s: %s %r came back as %s %r" % (where, so[0], o, sg[0], g)))


def cmp_entry(o, g, D, i, notes):
    import numpy as np

    where = "entry %d" % i
    if isinstance(o, dict):
        if not isinstance(g, dict):
            D.append(("value-became-none" if g is None else "value-changed", "%s: dict came back as %r" % (where, g)))
            return
        want = {k: v for k, v in o.items() if v == v}
        got = {str(k): v for k, v in g.items()}
        if set(want) != set(got):
            D.append(("dict-keys-changed", "%s: keys %s came back as %s" % (where, sorted(want), sorted(got))))
            return
        for k in sorted(want):
            cmp_scalar(want[k], got[k], D, "%s key %r" % (where, k))
        return
    if is_seq(o):
        so_, fo = shape_of(o), flat(o)
        if not fo:  # empty / zero-size entry ~ None or an equally empty sequence
            if g is None:
                notes["empty~none"] = notes.get("empty~none", 0) + 1
            elif not (is_seq(g) and len(flat(g)) == 0):
                D.append(("value-changed", "%s: empty sequence came back as %r" % (where, g)))
            return
        if g is None:
            if all(is_nonelike(e) for e in fo):
                notes["all-nan~none"] = notes.get("all-nan~none", 0) + 1
            else:
                D.append(("value-became-none", "%s: sequence came back unset" % where))
            return
        if not is_seq(g):
            D.append(("value-changed", "%s: sequence came back as scalar %r" % (where, g)))
            return
        sg_, fg = shape_of(g), flat(g)
        if len(fo) != len(fg):
            D.append(("value-changed", "%s: %d elements came back as %d" % (where, len(fo), len(fg))))
            return
        for j, (a, b) in enumerate(zip(fo, fg)):
            n0 = len(D)
            cmp_scalar(a, b, D, "%s element %d" % (where, j))
            if len(D) > n0 and D[-1][0] != "kind-changed":
                return
            if len(D) > n0 + 0 and D[-1][0] == "kind-changed" and j > 0:
                D.pop()  # one kind difference per entry is enough
        if so_ is None:
            if sg_ != (len(fo),):
                D.append(("shape-changed", "%s: inner-ragged list came back with shape %s" % (where, sg_)))
            else:
                D.append(("inner-ragged-flattened", "%s: inner-ragged list came back flattened to shape %s" % (where, sg_)))
        elif so_ != sg_:
            D.append(("shape-changed", "%s: shape %s came back as %s" % (where, so_, sg_)))
        return
    # scalar original
    if is_seq(g) and not is_nonelike(o):
        fg = flat(g)
        if len(fg) == 1:
            n0 = len(D)
            cmp_scalar(o, fg[0], D, where)
            if len(D) == n0 or D[-1][0] == "kind-changed":
                D.append(("scalar-became-array", "%s: scalar %r came back as a 1-element array" % (where, o)))
        else:
            D.append(("value-changed", "%s: scalar %r came back as %r" % (where, o, g)))
        return
    if is_seq(g):
        D.append(("none-became-value", "%s: unset came back as %r" % (where, g)))
        return
    cmp_scalar(o, g, D, where)


PRIORITY = ["length-changed", "none-became-value", "value-became-none", "value-became-none/at-sentinel", "value-changed", "dict-keys-changed",
            "shape-changed", "scalar-became-array", "inner-ragged-flattened", "kind-changed"]
FORM_ONLY = {"shape-changed", "scalar-became-array", "inner-ragged-flattened", "kind-changed"}


def compare(col, got):
    """All differences between the written column and what was read, under ~.  Returns (diffs, notes)."""
    D, notes = [], {}
    if len(col) != len(got):
        D.append(("length-changed", "%d objects written, %d values read" % (len(col), len(got))))
        return D, notes
    for i, (o, g) in enumerate(zip(col, got)):
        cmp_entry(o, g, D, i, notes)
    D.sort(key=lambda d: PRIORITY.index(d[0]))
    return D, notes


SUFFIXED = ("int", "uint", "float", "bool", "str", "bigint")


def family_key(col, meta):
    """Mechanism family of a column, from its shape only.  '+none' is part of the family where unset entries are
    encoded by a sentinel value (scalar and mixed columns); arrays/dicts/flags use position lists and carry no suffix."""
    import numpy as np

    fam, sub = meta["family"], meta["sub"]
    hasnone = any(x is None for x in col)
    if fam == "scalar":
        base = "uint" if sub.startswith("u") else "int" if sub in INT_DT else "float" if sub in FLOAT_DT else "bool"
    elif fam == "mixed":
        first = next((x for x in col if x is not None), None)
        if hasnone and isinstance(first, np.unsignedinteger):
            base = "uint"  # the first non-None entry fixes the stored type: this column is stored as an unsigned column
        else:
            base = "mixed-" + {"int8-int64": "int-int", "uint8-int8": "int-int", "float32-float64": "float-float", "int-str": "num-str", "float-str": "num-str"}.get(sub, sub)
    elif fam == "ragged+scalar":
        return "ragged+scalar-" + ("python" if meta.get("python_scalar") else "other")
    elif fam == "nested":
        return "nested-" + ("inner-none" if sub.startswith("inner-none") else sub)
    elif fam in ("str", "bigint"):
        base = fam
    elif fam in ("dict", "flags"):
        return fam
    else:
        return fam + ("-str" if sub == "str" else "")
    return base + ("+none" if hasnone else "")


def cast_to_first(col, got):
    """True when every changed scalar equals the original converted to the type of the first non-None entry."""
    first = next((x for x in col if x is not None), None)
    if first is None or is_seq(first) or isinstance(first, (dict, str)) or len(col) != len(got):
        return False
    t = type(first)
    import numpy as np

    for o, g in zip(col, got):
        if o is None or g is None or is_seq(o) or is_seq(g):
            continue
        try:
            with np.errstate(all="ignore"):
                c = np.array([o], dtype=object).astype(t)[0]
        except Exception:
            return False
        if scal(c)[1] != scal(g)[1]:
            return False
    return True


def refine_cause(col, got, meta, D):
    """Name the mechanism of the leading difference from the shape of the case (never from random values)."""
    top = D[0][0]
    hasnone = any(x is None for x in col)
    if top == "value-changed":
        pairs = changed_scalars(col, got)
        if pairs and all(isinstance(o, (int,)) and not isinstance(o, bool) and isinstance(g, float) and float(o) == g for o, g in pairs):
            return "promotion/int-stored-as-float64"
        if pairs and all(isinstance(o, str) and isinstance(g, str) and o.rstrip("\x00") == g for o, g in pairs):
            return "str/trailing-nul-stripped"
        if hasnone and meta["family"] in ("mixed", "scalar") and cast_to_first(col, got):
            return "first-non-none-entry-fixes-type/value-changed"
    if top == "kind-changed" and all(d[0] == "kind-changed" and ": i " in d[1] and " came back as f " in d[1] for d in D):
        return "promotion/int-stored-as-float64"  # homogeneous integer column (e.g. python ints on both sides of 2**63) stored as float64
    if top == "value-became-none/at-sentinel":
        return "%s/value-equals-none-sentinel" % family_key(col, meta)
    if top == "value-became-none" and hasnone and meta["family"] in ("mixed", "scalar") and cast_lands_on_sentinel(col, got):
        # same mechanism as the cast-to-first-entry finding: the value, converted to the type of the first non-None entry
        # (e.g. int8(-3) in a column that starts with a uint8 -> 253), lands exactly on that type's None sentinel
        return "first-non-none-entry-fixes-type/value-changed"
    return None


def cast_lands_on_sentinel(col, got):
    import numpy as np

    first = next((x for x in col if x is not None), None)
    if first is None or is_seq(first) or isinstance(first, (dict, str, bool)) or len(col) != len(got) or not isinstance(first, (int, np.integer)):
        return False
    t = type(first) if isinstance(first, np.integer) else np.int64
    info = np.iinfo(t)
    sentinel = info.max - 2 if info.min == 0 else info.min + 2
    seen = False
    for o, g in zip(col, got):
        if o is None or g is not None:
            continue
        if is_seq(o) or isinstance(o, (dict, str)):
            return False
        try:
            with np.errstate(all="ignore"):
                c = int(np.array([o], dtype=object).astype(t)[0])
        except Exception:
            return False
        if c != sentinel or int(o) == sentinel:
            return False
        seen = True
    return seen


def changed_scalars(col, got):
    """(original, read) python scalars that differ by value, over all entries (flattened)."""
    import numpy as np

    out = []
    if len(col) != len(got):
        return out
    for o, g in zip(col, got):
        fo, fg = flat([o]), flat([g])
        if isinstance(o, dict) or isinstance(g, dict) or len(fo) != len(fg):
            continue
        for a, b in zip(fo, fg):
            if isinstance(a, np.ndarray):
                continue
            a = a.item() if isinstance(a, np.generic) else a
            b = b.item() if isinstance(b, np.generic) else b
            if is_nonelike(a) or is_nonelike(b):
                continue
            if type(a) is not type(b) and (isinstance(a, str) or isinstance(b, str)) or a != b:
                out.append((a, b))
    return out


def judge(rec, path, col, meta, outcome, witness):
    """outcome: ("rejected", exc) | ("readfail", exc) | ("ok", values).  Emits at most one violation per case."""
    fk = family_key(col, meta)
    if outcome[0] == "rejected":
        rec.hit("write.rejected")
        rec.reject("%s: %s at write" % (fk, type(outcome[1]).__name__))
        return "rejected"
    if outcome[0] == "readfail":
        e = outcome[1]
        rec.hit("compare." + path)
        rec.violation("%s/accepted-but-unreadable" % fk,
                      "%s column accepted at write time cannot be read back: %s: %s" % (fk, type(e).__name__, str(e)[:300]), witness)
        return "readfail"
    got = outcome[1]
    rec.hit("compare." + path)
    D, notes = compare(col, got)
    for k, v in notes.items():
        rec.add("normalisation " + k, v)
    if not D:
        if any(x is not None for x in col):
            rec.hit("faithful/" + meta["family"])
            if meta["family"].startswith("array-") and meta.get("container") in ("list", "tuple", "ndarray", "mixed"):
                rec.hit("faithful/%s as %s" % (meta["family"], meta["container"]))  # a tree refusing e.g. every ragged list must not read "held"
            for how in sorted(set(meta.get("layouts") or [])):
                rec.hit("faithful/layout-" + how)
        return "same"
    top = D[0]
    if top[0] in FORM_ONLY and not meta["judge_form"]:
        why = {"mixed": "mixed-kind column: promotion of kind allowed, values equal",
               "ragged+scalar": "scalar among arrays came back as 1-element array, values equal",
               "nested": "inner-ragged nested list flattened as documented in JaggedArray docstring, values equal"}[meta["family"]]
        rec.skip(why)
        return "skipped"
    key = refine_cause(col, got, meta, D) or "%s/%s" % (fk, top[0])
    w = dict(witness, read_back=got, differences=[d[1] for d in D[:4]])
    rec.violation(key, "%s column accepted at write time reads back different: %s" % (fk, top[1]), w)
    return "diff"


# ----------------------------------------------------------------------------- unit path
class _PDef:
    def __init__(self, name, default=None, serializer=None):
        self.name, self.default, self.serializer = name, default, serializer


class _PDefs(dict):
    def toWriteToDB(self, mask=None):
        return list(self.values())


class _P:
    def __init__(self, pdefs):
        self.paramDefs = pdefs
        self.v = {}

    def get(self, k, d=None):
        return self.v.get(k, d)

    def __getitem__(self, k):
        return self.v[k]

    def __setitem__(self, k, v):
        self.v[k] = v


class Obj:
    """Stand-in composite: what _writeParams/_readParams touch, nothing else."""

    def __init__(self, pdefs):
        self.p = _P(pdefs)
        self.pDefs = pdefs


class UnitDB:
    PARAM = "col"

    def __init__(self):
        from armi.bookkeeping.db.database import Database

        self.Database = Database
        self.db = Database("c05-unit-%d.h5" % os.getpid(), "w")
        self.db.open()
        self.n = 0
        self.side_channel = False

    def roundtrip(self, col, serializer=None):
        self.n += 1
        pd = _PDefs()
        pd[self.PARAM] = _PDef(self.PARAM, None, serializer)
        comps = [Obj(pd) for _ in col]
        for c, v in zip(comps, col):
            c.p[self.PARAM] = v
        g = self.db.h5db.create_group("c%02dn%02dx%d" % (self.n // 100 % 100, self.n % 100, self.n))
        self.side_channel = False
        try:
            try:
                self.db._writeParams(g, comps)
            except Exception as e:
                return ("rejected", e)
            self.side_channel = "attrs" in g
            out = [Obj(pd) for _ in col]
            try:
                self.Database._readParams(g, "Obj", out)
            except Exception as e:
                return ("readfail", e)
            return ("ok", [o.p.get(self.PARAM, None) for o in out])
        finally:
            del self.db.h5db[g.name]


def col_witness(spec, i, col, meta, path):
    return {"path": path, "case": i, "replay": {"shard": spec["name"], "rng": "%s:%d" % (spec["rng"], i)},
            "family": meta["family"], "sub": meta["sub"], "container": meta["container"], "column": [describe(x) for x in col]}


def describe(x):
    import numpy as np

    if isinstance(x, np.ndarray):
        return "np.array(%r, dtype=%s)%s" % (x.tolist() if x.size <= 24 else "...", x.dtype, "" if x.size else ".reshape%r" % (x.shape,))
    if isinstance(x, np.generic):
        return "np.%s(%r)" % (type(x).__name__, x.item())
    if isinstance(x, float) and (x != x or abs(x) == float("inf")):
        return "float(%r)" % repr(x)
    if isinstance(x, (list, tuple)) and len(repr(x)) > 300:
        return repr(x)[:300] + "..."
    if isinstance(x, dict) and len(x) > 20:
        return "dict with %d keys" % len(x)
    if isinstance(x, (list, tuple, dict)):
        return repr(x)
    return x if isinstance(x, (int, str, bool, float)) or x is None else repr(x)


def do_unit(spec, rec):
    udb = UnitDB()
    fams = list(UNIT_FAMILIES)
    random.Random(spec["rng"] + ":order").shuffle(fams)
    only = spec.get("only_case")
    for i in range(spec["n"]):
        if only is not None and i != only:
            continue
        rng = random.Random("%s:%d" % (spec["rng"], i))
        k = i + spec.get("phase", 0) * 7
        family, sub = fams[k % len(fams)]
        pattern = NONE_PATTERNS[(k // len(fams) + k) % len(NONE_PATTERNS)]
        col, meta = gen_column(rng, family, sub, pattern)
        outcome = udb.roundtrip(col)
        w = col_witness(spec, i, col, meta, "unit")
        res = judge(rec, "unit", col, meta, outcome, w)
        rec.add("unit outcome " + res, 1)
        rec.case(signature("unit", col, meta), nontrivial=any(x is not None for x in col),
                 sample={"path": "unit", "family": family, "sub": sub, "none_pattern": pattern, "column": w["column"], "outcome": res} if i < 2 else None)


# ----------------------------------------------------------------------------- large columns: attribute side channel
class old_header_limit:
    """Emulate the attribute size limit of HDF5 object headers as older h5py reported it.

    In this image (h5py 3.16) a dataset created with track_order=True stores large attributes densely, so the
    fallback of Database._writeAttrs is unreachable from _writeParams (and for other objects h5py now raises OSError,
    which _writeAttrs does not catch).  To still drive the real fallback and the real _resolveAttrs, attribute
    assignment of values above 64 KiB raises the RuntimeError older h5py raised.  Nothing of armi is replaced.
    """

    LIMIT = 64 * 1024

    def __enter__(self):
        import h5py
        import numpy as np

        AM = h5py.AttributeManager
        self.AM, self.orig = AM, AM.__setitem__
        orig, limit = self.orig, self.LIMIT

        def setitem(am, name, value):
            try:
                nbytes = np.asarray(value).nbytes if not isinstance(value, (str, bytes)) else len(value)
            except Exception:
                nbytes = 0
            if nbytes > limit:
                raise RuntimeError("Unable to create attribute (object header message is too large)")
            return orig(am, name, value)

        AM.__setitem__ = setitem
        return self

    def __exit__(self, *a):
        self.AM.__setitem__ = self.orig
        return False


def do_large(spec, rec):
    import numpy as np

    udb = UnitDB()
    modes = ["dict-many-keys", "jagged-many-objects", "jagged-many-objects+none", "dict-many-keys-nan", "jagged-2d-many", "flags-many-fields",
             "jagged-long-entry", "jagged-long-entry-2d"]
    # "jagged-long-entry": lengths at the edges of the integer widths a shape or offset table could be narrowed to
    for i in range(spec["n"]):
        rng = random.Random("%s:%d" % (spec["rng"], i))
        mode = modes[i % len(modes)]
        serializer = None
        meta = {"family": "dict" if mode.startswith("dict") else "array-ragged", "sub": "large", "container": "ndarray", "sentinel": "-", "judge_form": True, "pattern": "-"}
        if mode.startswith("dict"):
            nk = rng.randint(5500, 8000)
            keys = ["key_%06d_%s" % (j, "x" * rng.randint(0, 6)) for j in range(nk)]
            n = rng.randint(1, 4)
            col = []
            for _ in range(n):
                ks = keys if rng.random() < 0.5 else rng.sample(keys, nk - rng.randint(1, 50))
                d = {k: rng.uniform(-5, 5) for k in ks}
                if mode.endswith("nan"):
                    for k in rng.sample(ks, 20):
                        d[k] = float("nan")
                col.append(d)
            col[0] = {k: 1.0 * j for j, k in enumerate(keys)}
        elif mode == "flags-many-fields":
            col, meta, serializer = gen_flags_case(rng, rng.randint(1, 3), "none", nfields=rng.randint(4200, 5000), order="permuted")
        elif mode.startswith("jagged-long-entry"):
            variants = []
            for L in [65536, rng.choice([65535, 65537, 70000, 131072, 140001]), rng.choice([255, 256, 257, 32767, 32768])]:
                rec.hit("large.long-entry")
                if L >= 65536:
                    rec.hit("large.long-entry>=65536")
                long_ = np.arange(L, dtype=float) if mode == "jagged-long-entry" else np.arange(2 * L, dtype=float).reshape((L, 2) if rng.random() < .5 else (2, L))
                col = [np.arange(rng.randint(1, 5), dtype=float) for _ in range(rng.randint(1, 3))]
                col.insert(rng.randint(0, len(col)), long_)
                if rng.random() < .5:
                    col.insert(rng.randint(0, len(col)), None)
                variants.append((col, dict(meta, long=L)))
        else:
            n = rng.randint(9000, 12000)
            two = mode == "jagged-2d-many"
            col = []
            for j in range(n):
                if mode.endswith("+none") and rng.random() < 0.3:
                    col.append(None)
                else:
                    col.append(np.arange(j % 3 + 1, dtype=float) + j if not two else np.full((j % 2 + 1, 2), float(j)))
        if not mode.startswith("jagged-long-entry"):
            variants = [(col, meta)]
        for (col, meta), emulate in [(v, e) for v in variants for e in (False, True)]:
            meta["n"] = len(col)
            if emulate and mode == "flags-many-fields":
                # a list-of-str attribute moved to a dataset comes back as bytes under h5py 3 dataset semantics: an artefact of
                # combining the old limit with the new h5py (thousands of flag fields are needed to get there), not judged
                rec.skip("flag_order through the emulated attribute fallback: old-limit/new-h5py combination is artificial")
                continue
            if emulate:
                with old_header_limit():
                    outcome = udb.roundtrip(col, serializer)
            else:
                outcome = udb.roundtrip(col, serializer)
            if udb.side_channel:
                rec.hit("attr.side-channel")
            w = {"path": "unit", "case": i, "mode": mode, "objects": len(col), "old_h5py_attribute_limit_emulated": emulate,
                 "side_channel_used": udb.side_channel, "replay": {"shard": spec["name"], "rng": "%s:%d" % (spec["rng"], i)}}
            if meta["family"] == "flags":
                res = judge_flags(rec, col, meta, outcome, w)
            else:
                res = judge(rec, "unit", col, meta, outcome, w)
            rec.add("large outcome %s (%s; attribute limit emulated %s; side channel used %s)" % (res, mode, emulate, udb.side_channel), 1)
            rec.case(["large", mode, len(col), i, emulate], sample={"path": "unit", "mode": mode, "objects": len(col), "attribute_limit_emulated": emulate,
                                                                     "side_channel_used": udb.side_channel, "outcome": res} if i < 1 else None)


# ----------------------------------------------------------------------------- flags
FLAG_ORDERS = ["same", "permuted", "extended-end", "extended-mixed", "permuted+extended", "reader-lacks", "reader-lacks+permuted"]


def mk_flag_class(names):
    from armi.utils import flags

    return flags._FlagMeta("SynthFlags", (flags.Flag,), {n: flags.auto() for n in names})


def gen_flags_case(rng, n, pattern, nfields=None, order=None):
    from armi.reactor.composites import FlagSerializer

    k = nfields or rng.choice([1, 2, 3, 5, 7, 8, 9, 15, 16, 17, 31, 33, 63, 64, 65, 80])
    names = ["F%03d%s" % (i, rng.choice(["", "_A", "X", "_LONGER_NAME"])) for i in range(k)]
    rng.shuffle(names)
    order = order or rng.choice(FLAG_ORDERS)
    extra = ["G%03d" % i for i in range(rng.randint(1, 9))]
    rnames = list(names)
    if "permuted" in order:
        rng.shuffle(rnames)
        if rnames == names and k > 1:
            rnames = rnames[1:] + rnames[:1]
    if order == "extended-end":
        rnames = rnames + extra
    elif order in ("extended-mixed", "permuted+extended"):
        for e in extra:
            rnames.insert(rng.randint(0, len(rnames)), e)
    elif order.startswith("reader-lacks"):
        drop = set(rng.sample(names, rng.randint(1, k)))
        rnames = [x for x in rnames if x not in drop] + (extra if rng.random() < 0.5 else [])
        if not rnames:
            rnames = extra
    W = mk_flag_class(names)
    R = mk_flag_class(rnames)
    on = []
    for _ in range(n):
        r = rng.random()
        if r < 0.1:
            s = []
        elif r < 0.2:
            s = list(names)
        elif r < 0.4:
            s = [names[-1]] if rng.random() < 0.5 else [names[0]]
        else:
            s = [x for x in names if rng.random() < rng.choice([0.1, 0.5, 0.9])]
        on.append(sorted(s))
    col = []
    for s in on:
        f = W(0)
        for nm in s:
            f = f | W[nm]
        col.append(f)
    nonepos = none_positions(rng, n, pattern)
    for i in nonepos:
        col[i] = None
        on[i] = None

    class SynthFlagSerializer(FlagSerializer):
        version = FlagSerializer.version

        @staticmethod
        def pack(data):
            return FlagSerializer._packImpl(data, W)

        @classmethod
        def unpack(cls, data, version, attrs):
            return cls._unpackImpl(data, version, attrs, R)

    meta = {"family": "flags", "sub": "%d fields" % k if not nfields else "large", "pattern": pattern, "n": n, "container": "-", "sentinel": "-",
            "judge_form": True, "order": order, "on": on, "writer_fields": names, "reader_fields": rnames, "R": R}
    return col, meta, SynthFlagSerializer


def judge_flags(rec, col, meta, outcome, witness):
    R = meta["R"]
    fk = "flags"
    w = dict(witness, order=meta["order"], writer_fields=meta["writer_fields"][:90], reader_fields_before_read=meta["reader_fields"][:90], flags_on=meta["on"] if len(meta["writer_fields"]) < 100 else "...")
    if outcome[0] == "rejected":
        rec.hit("write.rejected")
        rec.reject("%s: %s at write" % (fk, type(outcome[1]).__name__))
        return "rejected"
    if outcome[0] == "readfail":
        e = outcome[1]
        rec.hit("compare.flags")
        rec.violation("%s/%s/accepted-but-unreadable" % (fk, order_class(meta["order"])),
                      "flag column accepted at write time cannot be read back: %s: %s" % (type(e).__name__, str(e)[:300]), w)
        return "readfail"
    got = outcome[1]
    rec.hit("compare.flags")
    if len(got) != len(col):
        rec.violation("%s/length-changed" % fk, "%d flag sets written, %d read" % (len(col), len(got)), w)
        return "diff"
    fields = dict(R.fields())
    for i, (want, g) in enumerate(zip(meta["on"], got)):
        if want is None:
            if g is not None:
                rec.violation("%s/none-became-value" % fk, "entry %d: unset came back as %r" % (i, g), w)
                return "diff"
            continue
        try:
            v = int(g)
            names = sorted(nm for nm, bit in fields.items() if v & bit)
            stray = v & ~sum(fields.values())
        except Exception:
            rec.violation("%s/not-a-flag" % fk, "entry %d came back as %r" % (i, g), w)
            return "diff"
        if names != want or stray:
            rec.violation("%s/%s/meaning-changed" % (fk, order_class(meta["order"])),
                          "entry %d: flag set %s came back as %s%s (reader order: %s)" % (i, want[:12], names[:12], " + undefined bits" if stray else "", meta["order"]),
                          dict(w, entry=i, written=want, read=names))
            return "diff"
    if any(meta["on"]):
        rec.hit("faithful/flags")
    return "same"


def order_class(order):
    return {"same": "same-order", "extended-end": "extended", "reader-lacks": "reader-lacks", "reader-lacks+permuted": "reader-lacks"}.get(order, "reordered")


def do_flags(spec, rec):
    udb = UnitDB()
    for i in range(spec["n"]):
        rng = random.Random("%s:%d" % (spec["rng"], i))
        pattern = NONE_PATTERNS[i % len(NONE_PATTERNS)] if i % 3 == 0 else "none"
        n = rng.choice([1, 2, 3, 4, 6, 9, 12])
        col, meta, ser = gen_flags_case(rng, n, pattern, order=FLAG_ORDERS[(i // 2) % len(FLAG_ORDERS)])
        outcome = udb.roundtrip(col, ser)
        w = {"path": "unit", "case": i, "replay": {"shard": spec["name"], "rng": "%s:%d" % (spec["rng"], i)}}
        res = judge_flags(rec, col, meta, outcome, w)
        rec.add("flags outcome %s (%s)" % (res, meta["order"]), 1)
        rec.case(["flags", meta["order"], meta["writer_fields"], meta["reader_fields"], meta["on"]], nontrivial=any(meta["on"]),
                 sample={"path": "unit", "family": "flags", "order": meta["order"], "writer_fields": meta["writer_fields"][:10],
                         "reader_fields": meta["reader_fields"][:10], "flags_on": meta["on"][:3], "outcome": res} if i < 2 else None)


# ----------------------------------------------------------------------------- full path
# parameters with the plain setter and default None: a column that is entirely unset is not written at all and the loaded
# object then shows the parameter default (documented in _writeParams), so only None-default parameters are used
BLOCK_PARAMS = ["THcornTemp", "THedgeTemp", "adjMgFlux", "mgFluxGamma", "betad", "chi", "chid", "reactionRates", "pinMgFluxes", "cornerFastFlux",
                "mgNeutronVelocity", "mgGammaSrc", "axialPowerProfile", "axialPowerProfileNeutron", "axialPowerProfileGamma", "pointsEdgeFastFluxFr",
                "pointsCornerFastFluxFr", "THhotChannelCladODT", "TH0SigmaCladODT", "axMesh"]
CIRCLE_PARAMS = ["massHmBOL", "pinNum"]


class FullDB:
    def __init__(self):
        from armi.bookkeeping.db.database import Database
        from armi.testing import loadTestReactor
        from armi.tests import TEST_ROOT

        self.o, self.r = loadTestReactor(TEST_ROOT, inputFileName="smallestTestReactor/armiRunSmallest.yaml")
        self.cs, self.bp = self.o.cs, self.r.blueprints
        self.a = self.r.core.getAssemblies()[0]
        self.db = Database("c05-full-%d.h5" % os.getpid(), "w")
        self.db.open()
        self.db.writeInputsToDB(self.cs)
        self.t = 0

    def grow(self, n):
        import copy

        while len(self.a) < n:
            self.a.add(copy.deepcopy(self.a[0]))

    def objects(self, level):
        """Every object of the level: a parameter column always spans all objects of one class."""
        if level == "block":
            return list(self.a)
        return [c for b in self.a for c in b if type(c).__name__ == "Circle"]

    def roundtrip(self, objs, pname, col, between=None):
        """Assign, write a fresh time node, load it, return the values of the same objects (matched by serialNum)."""
        self.t += 1
        cyc, node = self.t // 100, self.t % 100
        self.r.p.cycle, self.r.p.timeNode = cyc, node
        saved = [o.p[pname] for o in objs]
        for o, v in zip(objs, col):
            o.p[pname] = v
        try:
            try:
                self.db.writeToDB(self.r)
            except Exception as e:
                return ("rejected", e)
            finally:
                for o, v in zip(objs, saved):
                    o.p[pname] = v
            if between:
                between()
            try:
                r2 = self.db.load(cyc, node, cs=self.cs, bp=self.bp)
            except Exception as e:
                return ("readfail", e)
            by = {c.p.serialNum: c for c in r2.core.getChildren(deep=True)}
            miss = [o.p.serialNum for o in objs if o.p.serialNum not in by]
            if miss:
                raise RuntimeError("harness: objects %s not found after load" % miss)
            return ("ok", [by[o.p.serialNum].p[pname] for o in objs])
        finally:
            for o, v in zip(objs, saved):
                o.p[pname] = v


def do_full(spec, rec):
    from armi.reactor.flags import Flags
    from armi.utils.flags import auto

    fdb = FullDB()
    fams = list(UNIT_FAMILIES)
    random.Random(spec["rng"] + ":order").shuffle(fams)
    cases = []
    for i in range(spec["n"]):
        k = i + spec.get("phase", 0) * 11
        fam = fams[k % len(fams)] if i % 9 != 8 else ("realflags", "Flags")
        cases.append([i, fam, NONE_PATTERNS[(k // len(fams) + k) % len(NONE_PATTERNS)]])
    # the None-sentinel, cast and jagged families are always present on this path too
    must = [("scalar", "uint8"), ("scalar", "pyint"), ("scalar", "pyfloat"), ("mixed", "int-float"), ("ragged+scalar", "npint64"),
            ("array-ragged", "float64"), ("dict", "overlapping"), ("scalar", "int16"), ("array-equal", "pyfloat")]
    for j, f in enumerate(must):
        if j < len(cases):
            cases[j][1:] = [f, ["first", "random", "last", "all-but-one"][(j + spec.get("phase", 0)) % 4]]
    sizes = {}
    for (i, f, p) in cases:
        n = random.Random("%s:%d:n" % (spec["rng"], i)).choice([1, 2, 3, 3, 4, 5, 6, 8, 10, 12])
        sizes[i] = max(n, 2) if f[0] == "ragged+scalar" else n
    cases.sort(key=lambda c: sizes[c[0]])  # the assembly only grows
    for (i, (family, sub), pattern) in cases:
        if spec.get("only_case") is not None and i != spec["only_case"]:
            continue
        rng = random.Random("%s:%d" % (spec["rng"], i))
        fdb.grow(sizes[i])
        level = "block" if rng.random() < 0.8 else "circle"
        objs = fdb.objects(level)
        n = len(objs)
        base_w = {"path": "full", "case": i, "level": level, "replay": {"shard": spec["name"], "rng": "%s:%d" % (spec["rng"], i)}}
        if family == "realflags":
            flag_names = list(Flags.fields())
            on = [sorted(rng.sample(flag_names, rng.randint(0, 6))) for _ in range(n)]
            col = []
            for s in on:
                f = Flags(0)
                for nm in s:
                    f = f | Flags[nm]
                col.append(f)
            extend = rng.random() < 0.5
            meta = {"family": "flags", "sub": "armi Flags", "pattern": "none", "n": n, "container": "-", "sentinel": "-", "judge_form": True,
                    "order": "extended-end" if extend else "same", "on": on, "writer_fields": ["armi.reactor.flags.Flags (%d fields)" % len(flag_names)],
                    "reader_fields": [], "R": Flags}

            def between():
                if extend:
                    Flags.extend({"C05X%d%s" % (i, spec["name"].upper()): auto()})

            outcome = fdb.roundtrip(objs, "flags", col, between)
            if outcome[0] != "rejected":
                rec.hit("compare.full")
            res = judge_flags(rec, col, meta, outcome, dict(base_w, param="flags"))
            rec.add("full outcome %s (armi Flags%s)" % (res, ", extended before load" if extend else ""), 1)
            rec.case(["full", "flags", level, on], nontrivial=any(on))
            continue
        col, meta = gen_column(rng, family, sub, pattern, n=n)
        pname = rng.choice(BLOCK_PARAMS if level == "block" else CIRCLE_PARAMS)
        outcome = fdb.roundtrip(objs, pname, col)
        w = col_witness(spec, i, col, meta, "full")
        w.update(level=level, param=pname)
        def _unset(x):
            # an empty entry among the others counts as unset (documented normalisation), so a column of Nones and empties is "entirely unset"
            try:
                return x is None or (hasattr(x, "__len__") and not isinstance(x, (str, dict)) and len(x) == 0)
            except TypeError:
                return False

        if outcome[0] == "ok" and all(_unset(x) for x in col):
            # nothing is stored for an entirely unset column; the loaded objects show whatever their constructor / the
            # parameter default gives (documented in _writeParams; the default's fidelity is C04's concern)
            rec.skip("full path: entirely unset column is not stored, loaded value is the constructor/default value")
            rec.hit("compare.full")
            res = "skipped"
        else:
            res = judge(rec, "full", col, meta, outcome, w)
        rec.add("full outcome " + res, 1)
        rec.case(signature("full/" + level, col, meta), nontrivial=any(x is not None for x in col),
                 sample={"path": "full", "level": level, "param": pname, "family": family, "sub": sub, "none_pattern": pattern,
                         "column": w["column"], "outcome": res} if len(rec.samples) < 2 else None)
