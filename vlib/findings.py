"""known_findings.json reader.  Never written at run time."""
import json
import os

PATH = os.path.join(os.path.dirname(os.path.dirname(os.path.abspath(__file__))), "known_findings.json")


def load(prop):
    if not os.path.exists(PATH):
        return {}, {}
    data = json.load(open(PATH))
    known = {e["key"]: e for e in data.get("findings", []) if e["property"] == prop and e["status"] == "known"}
    fixed = {e["key"]: e for e in data.get("findings", []) if e["property"] == prop and e["status"] == "fixed"}
    return known, fixed
