import sys; sys.path.insert(0, "/repo")
import numpy as np
from armi.bookkeeping.db.database import packSpecialData, unpackSpecialData
from armi.bookkeeping.db.jaggedArray import JaggedArray
def rt(col):
    d, a = packSpecialData(np.array(col, dtype=object), "p"); return d, unpackSpecialData(d, a, "p")
print("(i)", rt([np.uint8(2), None, np.uint8(5)]))
print("(ii)", rt([1, None, 2.5]), rt([2.5, None, 1]))
print("(iii)", JaggedArray([np.array([1., 2.]), np.int64(3), "abc", np.array([1.])], "p").tolist())
try: print("(iv)", rt([[1.0, None, 3.0], [4.0, 5.0, 6.0]]))
except Exception as e: print("(iv) read raises", type(e).__name__, str(e)[:80])
try: print("(v)", JaggedArray([[[1, 2], [3]], [[4, 5], [6]]], "p").tolist())
except Exception as e: print("(v) unpack raises", type(e).__name__, e)
print("(vi)", rt([np.iinfo(np.int64).min + 2, None, 5]))
