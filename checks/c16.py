"""C16 - retained state is restored exactly; parameter copies are equal and independent.

Workload: generated hex reactors (vlib.gen), the smallest test reactor of the repo, bare assemblies and blocks.  A case is a
*history*: a prelude of edits, then 1-4 nested ``with obj.retainState(keep):`` scopes opened on objects of every level with
edits before, between and after the inner scopes, with deep copies / pickle round trips taken at random points.
Monitors
* ``obs(tree)``: raw stored value of every parameter definition of every object (absent == NoDefault), the history-tuple
  store, the per-object ``assigned`` mask, ``obj.cached``, material cache, grid pitch/bounds/offset/unit steps, public
  temperature / number densities; plus the process-global ``assigned`` mask of every definition.  Taken before a scope,
  right after entry, just before exit and after exit.  Law: after == (kept ? just-before-exit : before).
* cache law: volumes/areas/masses reported after the outermost scope equal the ones reported before it and a fresh
  recomputation after ``clearCache``.
* copy law: observation of copy == observation of original (serial numbers aside), no shared mutable value (identity /
  ``np.shares_memory`` walk), edits (assignment *and* in-place mutation) of one never show in the other, deepcopy has
  a fresh serial number.
* ambient serial registry (weak references to every ParameterCollection ever constructed in the shard): no two live
  constructed/deep-copied collections share a number; numbers handed out after a database load are not loaded ones.
* read-only law: after ``makeParametersReadOnly`` and on the result of ``Database.loadReadOnly`` every assignment, deletion
  (``del p[name]``, ``del p[(name, ts)]``) and public setter is refused and the observation does not change; refusals that are armi's
  read-only refusal (RuntimeError "... read-only ...") are counted apart from a setter's own ValueError/TypeError.
* scopes are left normally or (p = 0.15) through a private exception raised as the last statement of the with-body, which propagates
  through 1-3 nested scopes; the same restore law is judged for every scope it leaves.
* an unset parameter that has a default (never stored, or deleted) is observed through the public getter (it reads its default).

Mechanism keys of the genuine defects this check reproduced on the pinned tree (reported to the lead, all repaired since - see
known_findings.json, status fixed; they are violations again if they come back):
  grid/nested-scope-single-backup-slot                  StructuredGrid.backUp keeps one slot; nested scopes restore the inner entry state
  restoreBackup/kept-array-shape-change-raises          kept array whose shape changed: ``retained != current`` cannot broadcast, exit aborts
  restoreBackup/kept-array-broadcast-equal-lost         kept array whose new value broadcasts equal to the old one is silently dropped
  restoreBackup/kept-container-of-arrays-raises         kept list/dict holding arrays (even unchanged): ``!=`` is ambiguous, exit aborts
  cache/material-cache-leaks/scope-target-own-material  a scope opened on a component does not back up that component's own material cache
  readonly/setNumberDensity-changes-value               updateNumberDensities mutates the dict in place before the refusal
  readonly/history-tuple-item-changes-value             ``p[(name, ts)] = v`` bypasses the read-only switch
  readonly/delete-changes-value                         ``del p[name]`` bypasses the read-only switch (value falls back to the default)
  readonly/history-tuple-delete-changes-value           ``del p[(name, ts)]`` bypasses the read-only switch
  restore/deleted-parameter-reads-NoDefault-sentinel    a deleted parameter that has a default reads its default; __getstate__ encodes "absent" as
  copy/deepcopy/deleted-parameter-reads-NoDefault-sentinel   the NoDefault sentinel and restoreBackup / deepcopy / pickle store the sentinel as the value, so
  copy/pickle/deleted-parameter-reads-NoDefault-sentinel     the getter hands out the class NoDefault afterwards (planted by hazard "deleted-default" only)
The generator steers away from these unless a case is meant to plant one (``hazard`` in the case description), so that the rest of
the history is still judged on the unrepaired tree.
"""
import copy
import gc
import pickle
import random
import weakref

PROP = "C16"
LEVEL = "exploration"
RULE = (
    "roots: reactors from generated blueprints (vlib.gen.core_spec, 1-2 rings, third/full), the repo's smallestTestReactor, bare HexAssemblies "
    "and HexBlocks; scope targets at every level (reactor, core, assembly, block, component); nesting depth 1-4 (inner targets: same object, a "
    "descendant, or an ancestor); keep sets empty / random definitions / all definitions of the tree, passed as list/tuple/set of the "
    "ParameterDefinition objects of the objects' own collections; edits: assignment (attribute or item syntax) of every value kind {float incl. "
    "nan/inf, int, bool, numpy scalar, str, None, list, tuple, dict, ndarray (f8,f4,i8,bool,str; 0-d..2-d; shape changes), list/dict of arrays} "
    "to any definition incl. never-assigned ones, in-place mutation of arrays/lists/dicts, history-tuple items, setNumberDensity, setTemperature, "
    "Block.setHeight, HexGrid.changePitch, cache warmers (getVolume/getArea/getMass/material.getProperty/clearCache), del p[name] of stored parameters "
    "that no open scope keeps; scopes end normally or (p=0.15) through an exception raised in the with-body that propagates through 1-3 nested scopes; "
    "hazard class of a case: none / any (kept parameters receive any value) / a planted shape-change, broadcast-equal or container-of-arrays value on a "
    "kept parameter / deleted-default (deleted defaulted parameters stay deleted over scope entries and copies); geometry-critical "
    "parameters (dimensions, height, temperatures, number densities, flags, validated setters) only get values of their own kind. A case = one "
    "history; distinct = (root kind, target level, depth, keep modes, hazard class, edit kinds, copy kinds); non-trivial = at least one scope "
    "ended with an observed value different from its entry value. Read-only cases (makeParametersReadOnly after a prelude, an assembly in the spent "
    "fuel pool in half of them; and the reactor returned by Database.loadReadOnly): the reactor, all its direct children, one object per class, "
    "everything outside the core and a random rest x sampled definitions x {attribute, item} plus public setters, del p[name] of a stored parameter "
    "and del p[(name, ts)] of an existing history entry; database cases: write (inputs too when loadReadOnly follows), drop, restart the serial "
    "counter (simulated fresh process), load or loadReadOnly, construct."
)
TOLERANCES = {"stored_values": 0.0, "kept_values": "equal value and shape (dtype/container type not judged)", "volume_unchanged_rel": 1e-12, "volume_fresh_rel": 1e-9}
EXHAUSTIVE = {"quick": False, "thorough": False}
EXHAUSTIVE_PART = "none (sampled histories)"
_QUICK_FLOORS = {
    "restore.scope-judged": 700, "restore.values-compared": 300000, "restore.kept-compared": 60000, "restore.nested-lifo": 400, "restore.grid": 600,
    "restore.grid-changed-in-scope": 60, "restore.after-entry": 350, "cache.obj": 6000, "cache.material": 4000, "cache.fresh-recompute": 35,
    "copy.equal": 500, "copy.alias-walk": 500, "copy.mutation": 500, "serial.fresh": 1200, "serial.registry": 800, "serial.after-db-load": 12,
    "readonly.refused": 5000, "readonly.setter-probe": 200, "readonly.unchanged": 14,
    "readonly.refused-as-read-only": 5000, "readonly.delete-probe": 100, "readonly.history-delete-probe": 10, "readonly.loadReadOnly": 6,
    "restore.exit-by-exception": 120, "restore.exception-through-nested": 30, "restore.definition-flag": 100000, "restore.delete-in-scope": 100, "restore.same-name-other-class": 40,
    "hook:StateRetainer.__exit__": 700, "hook:ParameterCollection.restoreBackup": 6000, "hook:StructuredGrid.restoreBackup": 600, "hook:ParameterCollection.__deepcopy__": 5000,
}
FLOORS = {"quick": _QUICK_FLOORS, "thorough": {k: 20 * v for k, v in _QUICK_FLOORS.items()}}
TIMEOUT = {"quick": 900, "thorough": 7200}
ASSUMPTIONS = [
    "database cases simulate a fresh process by dropping every live object and resetting parameterCollections.GLOBAL_SERIAL_NUM to -1 before Database.load",
    "pickle clones and database-loaded twins keep their serial number by design (DESIGN.md C16) and are excluded from the uniqueness registry",
    "kept parameters are judged by value and shape; a change of container type or dtype only (1 -> 1.0, list -> equal array) is not judged",
    "in-place mutations and deletions (del p[name]) are only generated for parameters that no open scope keeps (neither is an assignment)",
    "a parameter that has a default and holds no stored value is observed through its public getter: 'absent', 'stored default' and any internal "
    "marker that reads as the default are the same observation",
]


def plan(tier, seed):
    q = tier == "quick"
    m = 1 if q else 20
    out = [{"name": "gen%d" % i, "kind": "scopes", "root": "gen", "n": 30 * m} for i in range(6)]
    out += [{"name": "small%d" % i, "kind": "scopes", "root": "small", "n": 35 * m} for i in range(2)]
    out += [{"name": "cart%d" % i, "kind": "scopes", "root": "cart", "n": 8 * m} for i in range(2)]
    out += [{"name": "asm%d" % i, "kind": "scopes", "root": "asm", "n": 60 * m} for i in range(3)]
    out += [{"name": "blk%d" % i, "kind": "scopes", "root": "blk", "n": 120 * m} for i in range(2)]
    out += [{"name": "ro%d" % i, "kind": "readonly", "n": 10 * m} for i in range(2)]
    out += [{"name": "db" if i == 0 else "db%d" % i, "kind": "db", "n": 16 * m} for i in range(2)]
    return out


# ============================================================================= observation
UNSET = ("unset",)
SINCE_ANYTHING = 1 | 4 | 8 | 16  # armi.reactor.parameters.parameterDefinitions.SINCE_ANYTHING
_DEFS = {}      # collection class -> [(name, fieldName, definition)]
LEVELS = ["Reactor", "Core", "Assembly", "Block", "Component", "Other"]


def level_of(o):
    from armi.reactor import assemblies, blocks, reactors
    from armi.reactor.components import Component

    if isinstance(o, reactors.Reactor):
        return "Reactor"
    if isinstance(o, reactors.Core):
        return "Core"
    if isinstance(o, assemblies.Assembly):
        return "Assembly"
    if isinstance(o, blocks.Block):
        return "Block"
    if isinstance(o, Component):
        return "Component"
    return "Other"


def defs_of(o):
    cls = type(o.p)
    d = _DEFS.get(cls)
    if d is None:
        d = _DEFS[cls] = [(pd.name, pd.fieldName, pd) for pd in o.p.paramDefs]
    return d


def walk(node):
    out = [node]
    for c in list(node):
        out.extend(walk(c))
    return out


def freeze(v, index=None):
    """Hashable, copy-independent normal form of a stored value (exact: type, dtype, shape, bits)."""
    import numpy as np
    from armi.reactor.components.component import _DimensionLink
    from armi.reactor.parameters import NoDefault

    if v is None:
        return None
    t = type(v)
    if t is float:
        return ("f", v.hex())
    if t is int or t is bool or t is str:
        return (t.__name__, v)
    if v is NoDefault:
        return UNSET
    if isinstance(v, _DimensionLink):
        tgt = tuple.__getitem__(v, 0)
        return ("link", (index or {}).get(id(tgt), ("outside", type(tgt).__name__, tgt.name)), tuple.__getitem__(v, 1))
    if isinstance(v, np.ndarray):
        if v.dtype == object:
            return ("ndo", v.shape, tuple(freeze(x, index) for x in v.flat))
        return ("nd", v.dtype.str, v.shape, v.tobytes())
    if isinstance(v, np.generic):
        return ("npg", v.dtype.str, v.tobytes())
    if t is list or t is tuple:
        return (t.__name__, tuple(freeze(x, index) for x in v))
    if isinstance(v, dict):
        return ("dict", t.__name__, tuple(sorted(((freeze(k, index), freeze(x, index)) for k, x in v.items()), key=repr)))
    if isinstance(v, (set, frozenset)):
        return ("set", tuple(sorted((freeze(x, index) for x in v), key=repr)))
    try:
        return ("obj", t.__name__, int(v))  # armi Flags
    except Exception:
        pass
    try:
        return ("obj", t.__name__, pickle.dumps(v))
    except Exception:
        return ("obj", t.__name__, repr(v))


def thaw(f):
    """Inverse of freeze for the value kinds the generator produces (used for kept-value comparison and witnesses)."""
    import numpy as np

    if f is None or f == UNSET:
        return None
    k = f[0]
    if k == "f":
        return float.fromhex(f[1])
    if k in ("int", "bool", "str"):
        return f[1]
    if k == "nd":
        return np.frombuffer(f[3], dtype=np.dtype(f[1])).reshape(f[2]).copy()
    if k == "ndo":
        a = np.empty(len(f[2]), dtype=object)
        for i, x in enumerate(f[2]):
            a[i] = thaw(x)
        return a.reshape(f[1])
    if k == "npg":
        return np.frombuffer(f[2], dtype=np.dtype(f[1]))[0]
    if k == "list":
        return [thaw(x) for x in f[1]]
    if k == "tuple":
        return tuple(thaw(x) for x in f[1])
    if k == "dict":
        return {thaw(a): thaw(b) for a, b in f[2]}
    return f


def show(f):
    from vlib.rec import jsonable

    try:
        if isinstance(f, tuple) and f and f[0] in ("link", "obj", "set"):
            return repr(f)[:200]
        return jsonable(thaw(f))
    except Exception:
        return repr(f)[:200]


def shown(f):
    return "<unset / reads the NoDefault sentinel>" if f == UNSET else str(show(f))[:150]


def show_grid(g):
    return {"pitch": show(g[1]), "bounds": show(g[2]), "offset": show(g[3])}


def kind_of(f):
    if f is None:
        return "None"
    if f == UNSET:
        return "unset"
    return {"f": "float", "nd": "ndarray", "ndo": "ndarray", "npg": "npscalar"}.get(f[0], f[0])


def loose_equal(a, b):
    """equal value and shape; container type / dtype are not judged (kept parameters)"""
    import numpy as np

    seq = (list, tuple, np.ndarray)
    # a 0-d array is its item (dtype / container type are not judged): array(False) kept over 0.0 is the same value
    if isinstance(a, np.ndarray) and a.ndim == 0:
        a = a.item()
    if isinstance(b, np.ndarray) and b.ndim == 0:
        b = b.item()
    if isinstance(a, seq) and isinstance(b, seq):
        x = a.tolist() if isinstance(a, np.ndarray) else a  # a 0-d array becomes its item
        y = b.tolist() if isinstance(b, np.ndarray) else b
        xs, ys = isinstance(x, (list, tuple)), isinstance(y, (list, tuple))
        if not xs or not ys:
            return False if (xs or ys) else loose_equal(x, y)
        return len(x) == len(y) and all(loose_equal(p, q) for p, q in zip(x, y))
    if isinstance(a, dict) and isinstance(b, dict):
        return set(a) == set(b) and all(loose_equal(a[k], b[k]) for k in a)
    if isinstance(a, (dict,) + seq) or isinstance(b, (dict,) + seq):
        return False
    num = (int, float, bool, np.generic)
    if isinstance(a, num) and isinstance(b, num):
        try:
            return bool(a == b) or bool(a != a and b != b)
        except Exception:
            return False
    return type(a) is type(b) and a == b


def hazard(old, new):
    """How plain python/numpy evaluate ``old != new`` for two parameter values - used only to steer the generator and to name
    the mechanism of a finding, never as the expected value."""
    import numpy as np

    isarr = isinstance(old, np.ndarray) or isinstance(new, np.ndarray)
    try:
        ne = old != new
        if isarr:
            ne = ne.any()
        ne = bool(ne)
    except Exception:
        return "array-shape-change" if isarr else "container-of-arrays"
    if not ne and not loose_equal(old, new):
        return "broadcast-equal" if isarr else "compares-equal"
    return "none"


def obs_node(o, index):
    d = {}
    pdict = o.p.__dict__
    from armi.reactor.parameters import NoDefault

    for name, field, pd in defs_of(o):
        v = pdict.get(field, NoDefault)
        if v is NoDefault and pd.default is not NoDefault:
            # nothing stored (e.g. after ``del p[name]``): the observation is what the public getter reports - by the Parameter
            # contract the default.  (Representation-independent: "absent", "stored default" and "stored sentinel that reads as
            # the default" are the same observation; a getter that hands out the NoDefault sentinel itself freezes to UNSET.)
            try:
                v = getattr(o.p, name)
            except Exception as e:
                v = "<reading raises %s>" % type(e).__name__
        d[name] = freeze(v, index)
    x = {"#hist": freeze(pdict.get("_hist")), "#p.assigned": pdict.get("assigned"), "#cached": freeze(getattr(o, "cached", None), index)}
    m = getattr(o, "material", None)
    if m is not None:
        x["#material"] = (type(m).__name__, freeze(getattr(m, "massFrac", None)))
        x["#material.cached"] = freeze(getattr(m, "cached", None))
        x["#api.T"] = freeze(o.temperatureInC)
        x["#api.ndens"] = freeze(o.getNumberDensities())
    g = getattr(o, "spatialGrid", None)
    if g is not None:
        x["#grid"] = obs_grid(g)
    return d, x


def obs_grid(g):
    try:
        pitch = freeze(g.pitch)
    except Exception as e:
        pitch = ("no-pitch", type(e).__name__)
    return (type(g).__name__, pitch, freeze(tuple(g.getBounds())), freeze(g.offset), freeze(getattr(g, "_unitSteps", None)))


def obs(root, nodes=None):
    nodes = nodes or walk(root)
    index = {id(n): i for i, n in enumerate(nodes)}
    per = [obs_node(n, index) for n in nodes]
    defs = {}
    for n in nodes:
        cls = type(n.p)
        if cls not in defs:
            defs[cls] = {name: (id(pd), pd.assigned) for name, _f, pd in defs_of(n)}
    return {"nodes": per, "defs": defs}


def label(nodes, i):
    n = nodes[i]
    return "%s[%d] %s" % (type(n).__name__, i, getattr(n, "name", ""))


# ============================================================================= value generation
KINDS = ["float", "float", "int", "bool", "npscalar", "str", "none", "list", "tuple", "dict", "ndarray", "ndarray", "jagged"]
NUCS = ["U235", "U238", "PU239", "FE56", "NA23", "ZR90", "B10", "O16", "CR52"]


def gen_value(rng, kind=None):
    import numpy as np

    kind = kind or rng.choice(KINDS)
    u = rng.uniform
    if kind == "float":
        return rng.choice([0.0, -0.0, 1.0, u(-1e3, 1e3), u(0, 1), 1e300, -1e-300, float("inf"), float("nan"), 5e-324])
    if kind == "int":
        return rng.choice([0, 1, -1, 2 ** 40, rng.randint(-1000, 1000)])
    if kind == "bool":
        return rng.random() < .5
    if kind == "npscalar":
        return rng.choice([np.float64, np.float32, np.int32, np.int64])(rng.randint(-50, 50))
    if kind == "str":
        return rng.choice(["", "A", "fuel", "ünï", "x" * rng.randint(1, 40), "1.5"])
    if kind == "none":
        return None
    if kind in ("list", "tuple"):
        n = rng.randint(0, 5)
        style = rng.choice(["f", "i", "mixed", "nested", "s"])
        if style == "f":
            v = [u(-10, 10) for _ in range(n)]
        elif style == "i":
            v = [rng.randint(-9, 9) for _ in range(n)]
        elif style == "mixed":
            v = [rng.choice([None, u(0, 1), rng.randint(0, 9), "a"]) for _ in range(n)]
        elif style == "s":
            v = [rng.choice(["a", "bb", ""]) for _ in range(n)]
        else:
            v = [[u(0, 1) for _ in range(rng.randint(0, 3))] for _ in range(n)]
        return v if kind == "list" else tuple(v)
    if kind == "dict":
        style = rng.choice(["nuc", "intkey", "nested"])
        n = rng.randint(0, 4)
        if style == "nuc":
            return {k: u(0, .1) for k in rng.sample(NUCS, n)}
        if style == "intkey":
            return {rng.randint(0, 20): rng.choice([None, u(0, 1), "s"]) for _ in range(n)}
        return {"k%d" % i: rng.choice([[u(0, 1)], {"z": i}, None, (1, 2)]) for i in range(n)}
    if kind == "ndarray":
        shape = rng.choice([(rng.randint(1, 6),), (rng.randint(1, 6),), (rng.randint(1, 3), rng.randint(1, 4)), (0,), (), (2, 0)])
        dt = rng.choice(["f8", "f8", "f4", "i8", "?", "U"])
        size = 1
        for s in shape:
            size *= s
        if dt == "U":
            a = np.array([rng.choice(["a", "bc", ""]) for _ in range(size)], dtype="U3")
        elif dt == "?":
            a = np.array([rng.random() < .5 for _ in range(size)], dtype=bool)
        elif dt == "i8":
            a = np.array([rng.randint(-9, 9) for _ in range(size)], dtype="i8")
        else:
            a = np.array([rng.choice([u(-5, 5), 0.0, float("nan")]) if rng.random() < .2 else u(-5, 5) for _ in range(size)], dtype=dt)
        return a.reshape(shape)
    if kind == "jagged":
        arrs = [np.array([u(0, 1) for _ in range(rng.randint(2, 4))]) for _ in range(rng.randint(1, 3))]
        return rng.choice([arrs, {"a%d" % i: a for i, a in enumerate(arrs)}, tuple(arrs)])
    raise ValueError(kind)


# parameters whose value is interpreted by the geometry / composition / flag machinery that the workload itself calls:
# they only ever receive a value of their own kind.  (name -> callable(rng, obj, current) -> value or SKIP)
SKIP = object()
FLAG_POOL = ["fuel", "clad", "duct", "coolant", "control", "shield", "bond", "wire", "plenum", "gap", "reflector", "intercoolant", "fuel depletable"]


def _scaled(rng, o, cur):
    if type(cur) is float and cur == cur:
        return cur * rng.uniform(0.999, 1.001)
    return SKIP


def _same(rng, o, cur):
    return copy.deepcopy(cur) if not is_link(cur) else SKIP


def _flags(rng, o, cur):
    from armi.reactor.flags import Flags

    return Flags.fromString(rng.choice(FLAG_POOL))


def _ndens(rng, o, cur):
    if not isinstance(cur, dict):
        return SKIP
    d = {k: v * rng.uniform(.5, 1.5) for k, v in cur.items()}
    if rng.random() < .4:
        d[rng.choice(NUCS)] = rng.uniform(1e-6, 1e-2)
    if d and rng.random() < .2:
        d.pop(rng.choice(sorted(d)))
    return d


def _numarr(rng, o, cur):
    import numpy as np

    if rng.random() < .2:
        return None
    if isinstance(cur, np.ndarray) and cur.dtype.kind == "f" and rng.random() < .7:
        return cur * rng.uniform(.5, 1.5)
    return np.array([rng.uniform(0, 1) for _ in range(rng.randint(1, 5))])


SENSITIVE = {
    "serialNum": lambda rng, o, cur: SKIP,
    "flags": _flags,
    "height": lambda rng, o, cur: (cur * rng.uniform(.9, 1.1)) if type(cur) is float and cur > 0 else SKIP,
    "temperatureInC": lambda rng, o, cur: (cur + rng.uniform(-20, 20)) if type(cur) is float else SKIP,
    "numberDensities": _ndens,
    "detailedNDens": _numarr,
    "pinNDens": _numarr,
    "volume": lambda rng, o, cur: rng.choice([None, cur]),
    "area": _same,
    "mult": _same,
    "modArea": _same,
    "mergeWith": _same,
    "type": lambda rng, o, cur: rng.choice(["fuel", "typeX", "clad", cur if isinstance(cur, str) else "t"]),
    "name": _same,
    "theoreticalDensityFrac": lambda rng, o, cur: rng.uniform(0, 1),
    "xsType": lambda rng, o, cur: rng.choice("ABCDEFXYZ"),
    "xsTypeNum": lambda rng, o, cur: rng.randint(65, 90),
    "envGroup": lambda rng, o, cur: rng.choice("ABCDEFxyz"),
    "envGroupNum": lambda rng, o, cur: rng.randint(0, 51),
    "notes": lambda rng, o, cur: rng.choice(["", "a note", "n" * 1200]),
    "customIsotopicsName": _same,
    "z": _scaled, "zbottom": _scaled, "ztop": _scaled,
}


def is_link(v):
    from armi.reactor.components.component import _DimensionLink

    return isinstance(v, _DimensionLink)


def sensitive_gen(o, name):
    g = SENSITIVE.get(name)
    if g is not None:
        return g
    dims = getattr(o, "DIMENSION_NAMES", None)
    if dims and name in dims:
        return _scaled
    from armi.reactor.components import Component

    if isinstance(o, Component) and name in ALL_DIM_NAMES[0]:
        return _same
    return None


ALL_DIM_NAMES = [None]


def init_dim_names():
    from armi.reactor.components import ComponentType

    s = set()
    for cls in ComponentType.TYPES.values():
        s.update(getattr(cls, "DIMENSION_NAMES", ()))
    ALL_DIM_NAMES[0] = s


# ============================================================================= ambient serial-number registry
class Registry:
    def __init__(self):
        self.refs = []
        self.clone_ids = {}  # id(collection) -> weakref (collections are unhashable)

    def install(self, rec):
        from armi.reactor.parameters import parameterCollections as pc
        from vlib import hooks

        reg = self

        def post_init(tok, res, a, kw):
            reg.refs.append(weakref.ref(a[0]))

        def pre_setstate(a, kw):
            return a[0].__dict__.get("_p_serialNum")

        def post_setstate(tok, res, a, kw):
            if a[0].__dict__.get("_p_serialNum") != tok:
                reg.add_clone(a[0])  # took somebody's state: pickle clone (restoreBackup re-installs the object's own number)

        hooks.wrap(pc.ParameterCollection, "__init__", post=post_init)
        hooks.wrap(pc.ParameterCollection, "__setstate__", pre=pre_setstate, post=post_setstate)
        hooks.wrap(pc.ParameterCollection, "__deepcopy__")
        hooks.wrap(pc.ParameterCollection, "restoreBackup")
        hooks.wrap(pc.ParameterCollection, "backUp")

    def add_clone(self, p):
        i = id(p)
        if i not in self.clone_ids:
            self.clone_ids[i] = weakref.ref(p, lambda _r, i=i, d=self.clone_ids: d.pop(i, None))

    def is_clone(self, p):
        r_ = self.clone_ids.get(id(p))
        return r_ is not None and r_() is p

    def retire_all(self):
        for r_ in self.refs:
            p = r_()
            if p is not None:
                self.add_clone(p)

    def mark_clone_tree(self, root):
        for n in walk(root):
            self.add_clone(n.p)

    def check(self, rec, w):
        """no two live constructed / deep-copied collections share a serial number"""
        rec.hit("serial.registry")
        live = []
        seen = {}
        for r_ in self.refs:
            p = r_()
            if p is None:
                continue
            live.append(r_)
            if self.is_clone(p):
                continue
            sn = p.__dict__.get("_p_serialNum")
            if not isinstance(sn, int):
                continue
            if sn in seen and seen[sn] is not p:
                rec.violation("serial/shared-by-live-objects", "two live parameter collections (%s, %s), neither a pickle clone nor database-loaded, share serial number %r"
                              % (type(p).__name__, type(seen[sn]).__name__, sn), w)
                break
            seen[sn] = p
        self.refs = live
        rec.note("serial.live-max", max(len(live), rec.notes.get("serial.live-max", 0)))
        return seen


REG = Registry()


def install_hooks(rec):
    from armi.reactor import composites
    from armi.reactor.grids import structuredGrid
    from vlib import hooks

    REG.install(rec)
    hooks.wrap(composites.StateRetainer, "__enter__")
    hooks.wrap(composites.StateRetainer, "__exit__")
    hooks.wrap(structuredGrid.StructuredGrid, "restoreBackup")
    hooks.wrap(structuredGrid.StructuredGrid, "backUp")
    init_dim_names()


# ============================================================================= roots
def make_root(rng, kind):
    """-> (root, info) ; info['cs'],['bp'] for reactors"""
    from vlib import gen

    if kind == "gen":
        cs_ = gen.core_spec(rng, rings=rng.choice([1, 2, 2]), symmetry=rng.choice(["third periodic", "full"]), ndesigns=rng.randint(1, 2), nblocks=rng.randint(1, 3),
                            holes=rng.choice([0.0, .3, .5]))
        r, cs, bp, text = gen.build_reactor(cs_)
        return r, {"cs": cs, "bp": bp, "kind": "generated reactor", "text": text}
    if kind == "small":
        from armi.testing import loadTestReactor
        from armi.tests import TEST_ROOT
        from vlib.env import quiet

        with quiet():
            o, r = loadTestReactor(TEST_ROOT, inputFileName="smallestTestReactor/armiRunSmallest.yaml")
        return r, {"cs": o.cs, "bp": r.blueprints, "kind": "smallestTestReactor"}
    if kind == "cart":
        # a Cartesian core that is not through the centre assembly: its grid carries a non-zero offset that scales with the pitch
        import os

        from armi import settings
        from armi.reactor import blueprints, reactors
        from armi.tests import TEST_ROOT
        from vlib.env import quiet

        cs = settings.Settings(fName=os.path.join(TEST_ROOT, "c5g7", "c5g7-settings.yaml"))
        with quiet():
            bp = blueprints.loadFromCs(cs)
            r = reactors.factory(cs, bp)
        return r, {"cs": cs, "bp": bp, "kind": "c5g7 (Cartesian, offset grid)"}
    if kind == "asm":
        pitch = rng.uniform(8, 14)
        nb = rng.randint(1, 4)
        a = gen.build_assembly([gen.pin_block_spec(rng, kind=rng.choice(["fuel", "shield", "control", "plenum"]), pitch=pitch, npins=rng.choice([1, 7, 19])) for _ in range(nb)],
                               [rng.uniform(5, 30) for _ in range(nb)])
        return a, {"kind": "bare assembly"}
    bs = gen.pin_block_spec(rng, kind=rng.choice(["fuel", "control", "shield", "plenum"])) if rng.random() < .7 else gen.generic_block_spec(rng)
    return gen.build_block(bs, rng.uniform(5, 30)), {"kind": "bare block"}


# ============================================================================= the history driver
class Abort(Exception):
    pass


class Leave(Exception):
    """private exception raised as the last statement of a with-body: the scope (and ``levels - 1`` enclosing scopes) is left
    through an exception instead of normally; caught by the harness outside the with statement"""

    def __init__(self, levels):
        Exception.__init__(self, "harness: leaving %d retainState scope(s) through an exception" % levels)
        self.levels = levels


P_LEAVE = 0.15


def abort(ctx):
    ctx.aborted = True
    raise Abort()


class Level:
    def __init__(self, target, nodes, keep, mode):
        self.target, self.nodes, self.keep, self.mode = target, nodes, keep, mode
        self.keep_ids = {id(k) for k in keep}
        self.kept_names = {k.name for k in keep}
        self.node_ids = {id(n): i for i, n in enumerate(nodes)}
        self.pre = None
        self.inner_grid_scopes = set()  # ids of grid-owning nodes that an inner scope also covered


class Ctx:
    def __init__(self, rec, rng, root, info, w):
        self.rec, self.rng, self.root, self.info, self.w = rec, rng, root, info, w
        self.nodes = walk(root)
        self.stack = []
        self.hist = w["history"]
        self.kinds = set()
        self.copies = set()
        self.hazard_mode = "none"
        self.plant = None
        self.planted = False
        self.nontrivial = False
        self.inplace = set()
        self.aborted = False
        self.deleted = {}  # (id(o), name) -> (o, name, field, pd): parameters with a default that this history deleted

    def kept_levels(self, o, pd):
        return [L for L in self.stack if id(pd) in L.keep_ids and id(o) in L.node_ids]

    def log(self, s):
        if len(self.hist) < 400:
            self.hist.append(s)


def raw(o, field):
    from armi.reactor.parameters import NoDefault

    return o.p.__dict__.get(field, NoDefault)


def pick_node(ctx, pool=None):
    rng = ctx.rng
    if pool is None:
        if ctx.stack and rng.random() < .7:
            pool = ctx.stack[-1].nodes
        elif ctx.stack:
            pool = ctx.stack[0].nodes
        else:
            pool = ctx.nodes
    # spread over levels: choose a level present in the pool first
    if len(pool) > 8 and rng.random() < .6:
        lv = rng.choice(sorted({level_of(n) for n in pool}))
        cands = [n for n in pool if level_of(n) == lv]
        return rng.choice(cands)
    return rng.choice(pool)


def assign(ctx, o, name, field, pd, value, how=None):
    """One parameter assignment through the public syntax; returns False when armi refused the value."""
    how = how or ctx.rng.choice(["attr", "item"])
    try:
        if how == "attr":
            setattr(o.p, name, value)
        else:
            o.p[name] = value
    except Exception as e:
        if raw(o, field) is not value and getattr(o.p, "readOnly", False) is False:
            ctx.rec.reject("assignment refused by the parameter's setter (%s)" % type(e).__name__)
            return False
        raise
    return True


def safe_for_kept(ctx, o, name, field, pd, allow=None):
    """After an assignment to a definition kept by an open scope: is python's `entry != current` of that scope well defined and truthful?
    (steers the generator away from the two known defects unless the case is meant to plant one)"""
    if ctx.hazard_mode == "any":
        return True  # the defects the steering avoided are repaired: a share of the cases lets kept parameters receive any value
    cur = raw(o, field)
    for L in ctx.kept_levels(o, pd):
        old = thaw(L.pre["nodes"][L.node_ids[id(o)]][0][name])
        h = hazard(old, cur)
        if h not in ("none", "compares-equal") and h != allow:
            return False
    return True


def edit_samename(ctx):
    """assign a parameter whose *name* - but not whose definition - is kept by an open scope (Block 'power' kept, Core 'power' assigned):
    value and definition flag of the other class's parameter must be restored"""
    from armi.reactor.parameters import parameterDefinitions as pdm

    rng = ctx.rng
    L = rng.choice(ctx.stack)
    if not L.kept_names:
        return False
    first = {}
    for n in L.nodes:
        first.setdefault(type(n.p), n)
    cands = [(cls, d) for cls, n in first.items() for d in defs_of(n) if d[0] in L.kept_names and id(d[2]) not in L.keep_ids and d[0] != "serialNum"]
    if not cands:
        return False
    cls, d = rng.choice([c for c in cands if c[1][2].assigned == pdm.NEVER] or cands)
    o = rng.choice([n for n in L.nodes if type(n.p) is cls])
    ctx.kinds.add("same-name-other-class")
    ctx.rec.hit("restore.same-name-other-class")
    edit_assign(ctx, o, cand=d)
    return True


def edit_assign(ctx, o=None, never=False, prefer_kept=True, cand=None):
    rng = ctx.rng
    o = o or pick_node(ctx)
    defs = defs_of(o)
    if never and cand is None:
        from armi.reactor.parameters import parameterDefinitions as pdm

        nv = [d for d in defs if d[2].assigned == pdm.NEVER and d[0] != "serialNum"]
        if nv:
            cand = rng.choice(nv)
            ctx.kinds.add("first-ever")
    if cand is None and prefer_kept and ctx.stack and rng.random() < .45:
        L = rng.choice(ctx.stack)
        kept_here = [d for d in defs if id(d[2]) in L.keep_ids and d[0] != "serialNum"]
        if kept_here and id(o) in L.node_ids:
            cand = rng.choice(kept_here)
    if cand is None:
        cand = rng.choice(defs)
    name, field, pd = cand
    cur = raw(o, field)
    if is_link(cur):
        return
    sg = sensitive_gen(o, name)
    from armi.reactor.parameters import NoDefault

    if sg is not None and cur is NoDefault:
        return
    for _try in range(6):
        if sg is not None:
            v = sg(rng, o, cur)
            if v is SKIP:
                return
            k = "own-kind"
        else:
            k = rng.choice(KINDS) if _try < 4 else "float"
            v = gen_value(rng, k)
        if not assign(ctx, o, name, field, pd, v):
            return
        if safe_for_kept(ctx, o, name, field, pd):
            ctx.kinds.add("assign:" + k)
            ctx.inplace.discard((id(o), name))
            ctx.log("%s.p.%s = <%s>" % (level_of(o), name, k))
            return
    # could not find a harmless value: put a fresh scalar that differs from every entry value
    assign(ctx, o, name, field, pd, rng.uniform(1e3, 2e3) if sg is None else cur)


def edit_inplace(ctx, o=None):
    import numpy as np

    rng = ctx.rng
    o = o or pick_node(ctx)
    cands = []
    for name, field, pd in defs_of(o):
        v = o.p.__dict__.get(field)
        if isinstance(v, np.ndarray) and v.size and v.dtype.kind in "fiub" or isinstance(v, (list, dict)):
            if sensitive_gen(o, name) is None and not ctx.kept_levels(o, pd):
                cands.append((name, field, v))
    if not cands:
        return False
    name, field, v = rng.choice(cands)
    if isinstance(v, np.ndarray):
        flat = v.reshape(-1)
        if not v.flags.writeable or not np.shares_memory(flat, v):
            return False
        i = rng.randrange(v.size)
        flat[i] = (not flat[i]) if v.dtype.kind == "b" else flat[i] + 1
    elif isinstance(v, list):
        v.append(rng.uniform(0, 1)) if (not v or rng.random() < .5) else v.pop()
    else:
        v["inplace%d" % rng.randint(0, 3)] = rng.uniform(0, 1)
    ctx.inplace.add((id(o), name))
    ctx.kinds.add("inplace:" + type(v).__name__)
    ctx.log("%s.p.%s mutated in place" % (level_of(o), name))
    return True


def edit_delete(ctx, o=None):
    """``del o.p[name]`` of a stored, non-critical parameter that no open scope keeps (a deletion is not an assignment: what
    "kept" means for it is not stated).  Inside a scope the deletion must be undone at exit like any other change."""
    from armi.reactor.parameters import NoDefault

    rng = ctx.rng
    o = o or pick_node(ctx)
    d = o.p.__dict__
    cands = [(name, field, pd) for name, field, pd in defs_of(o)
             if name != "serialNum" and d.get(field, NoDefault) is not NoDefault and not is_link(d[field]) and sensitive_gen(o, name) is None
             and not ctx.kept_levels(o, pd)]
    if not cands:
        return False
    name, field, pd = rng.choice(cands)
    del o.p[name]
    ctx.inplace.discard((id(o), name))
    if pd.default is not NoDefault:
        ctx.deleted[(id(o), name)] = (o, name, field, pd)
    if ctx.stack:
        ctx.rec.hit("restore.delete-in-scope")
    ctx.kinds.add("delete:" + ("defaulted" if pd.default is not NoDefault else "no-default"))
    ctx.log("del %s.p[%s]" % (level_of(o), name))
    return True


def heal_deleted(ctx, nodes):
    """Before a back-up point (scope entry, copy) of ``nodes``: unless the case is meant to plant the recorded defect
    ``*/deleted-parameter-reads-NoDefault-sentinel`` give every still-deleted defaulted parameter a value again (an ordinary assignment)."""
    from armi.reactor.parameters import NoDefault

    if ctx.hazard_mode == "deleted-default" or not ctx.deleted:
        return
    ids = {id(n) for n in nodes}
    for key, (o, name, field, pd) in list(ctx.deleted.items()):
        if o.p.__dict__.get(field, NoDefault) is not NoDefault:
            del ctx.deleted[key]  # assigned again or restored by a scope exit meanwhile
        elif id(o) in ids:
            if assign(ctx, o, name, field, pd, ctx.rng.uniform(1e3, 2e3)):
                ctx.log("%s.p.%s = <float> (was deleted)" % (level_of(o), name))
                del ctx.deleted[key]


def edit_hist(ctx, o=None):
    rng = ctx.rng
    o = o or pick_node(ctx)
    name = rng.choice(defs_of(o))[0]
    key = (name, rng.randint(0, 3))
    if key in o.p._hist and rng.random() < .3:
        del o.p[key]
    else:
        o.p[key] = gen_value(rng, rng.choice(["float", "list", "ndarray", "none", "str"]))
    ctx.kinds.add("hist-tuple")
    ctx.log("%s.p[(%s,%d)] set/deleted" % (level_of(o), key[0], key[1]))


def scope_root(ctx):
    return ctx.stack[0].target if ctx.stack else ctx.root


def in_scope(ctx, o):
    """is o inside the outermost open scope (or anywhere, when no scope is open)"""
    return not ctx.stack or id(o) in ctx.stack[0].node_ids


def edit_api(ctx):
    """public mutators and cache warmers on sane state"""
    from armi.reactor import blocks
    from armi.reactor.components import Component
    from armi.reactor.reactors import Core

    rng = ctx.rng
    pool = ctx.stack[-1].nodes if (ctx.stack and rng.random() < .6) else (ctx.stack[0].nodes if ctx.stack else ctx.nodes)
    comps = [n for n in pool if isinstance(n, Component)]
    blks = [n for n in pool if isinstance(n, blocks.Block)]
    cores = [n for n in pool if isinstance(n, Core)]
    op = rng.choice(["ndens", "ndens", "temp", "temp", "height", "height", "pitch", "pitch", "warm", "warm", "matcache", "clearcache", "ndens-direct"])
    if op == "pitch" and not cores:
        op = "height"
    if op == "height" and not blks:
        op = "temp"
    if op in ("ndens", "temp", "matcache", "ndens-direct") and not comps:
        op = "warm"
    if op == "ndens":
        c = rng.choice(comps)
        cur = c.p.numberDensities
        nuc = rng.choice(sorted(cur)) if cur and rng.random() < .8 else rng.choice(NUCS)
        if c.parent is None:
            return
        c.setNumberDensity(nuc, rng.uniform(1e-6, 5e-2))
        ctx.log("Component.setNumberDensity")
    elif op == "ndens-direct":
        c = rng.choice(comps)
        pd = c.p.paramDefs["numberDensities"]
        if ctx.kept_levels(c, pd) or not c.p.numberDensities:
            return
        nuc = rng.choice(sorted(c.p.numberDensities))
        c.p.numberDensities[nuc] = rng.uniform(1e-6, 5e-2)  # in-place write into the dict (no assignment)
        ctx.inplace.add((id(c), "numberDensities"))
        ctx.log("Component.p.numberDensities[nuc] = x")
    elif op == "temp":
        c = rng.choice(comps)
        if type(c).__name__ == "DerivedShape" or c.parent is None:
            return
        T = c.temperatureInC + rng.uniform(-60, 120)
        c.setTemperature(max(T, 30.0))
        ctx.log("Component.setTemperature")
    elif op == "height":
        b = rng.choice(blks)
        if b.parent is None or not in_scope(ctx, b.parent):
            return  # the edit would reach the parent assembly's mesh, outside every open scope
        b.setHeight(b.getHeight() * rng.uniform(.7, 1.4))
        ctx.log("Block.setHeight")
    elif op == "pitch":
        core = rng.choice(cores)
        g = core.spatialGrid
        if not hasattr(g, "changePitch"):
            return
        if isinstance(g.pitch, tuple):  # Cartesian: (x, y)
            g.changePitch(g.pitch[0] * rng.uniform(.8, 1.5), g.pitch[1] * rng.uniform(.8, 1.5))
        else:
            g.changePitch(g.pitch * rng.uniform(.8, 1.5))
        ctx.log("core.spatialGrid.changePitch")
    elif op == "warm":
        tgt = rng.choice(blks or comps or pool)
        if isinstance(tgt, blocks.Block):
            tgt.getArea()
            if tgt.p.height:
                tgt.getVolume()
                tgt.getMass()
        elif isinstance(tgt, Component) and tgt.parent is not None:
            tgt.getArea()
            tgt.getVolume()
            tgt.getMass()
        ctx.log("getArea/getVolume/getMass")
    elif op == "matcache":
        c = rng.choice(comps)
        if type(c.material).__name__ == "Void":
            return
        c.material.getProperty("pseudoDensity", Tc=c.temperatureInC + rng.choice([0, 10, 25]))
        ctx.log("material.getProperty")
    else:
        tgt = rng.choice(blks or comps or pool)
        if isinstance(tgt, Component) and tgt.parent is None:
            return
        tgt.clearCache()
        ctx.log("%s.clearCache" % level_of(tgt))
    ctx.kinds.add("api:" + op)


def edits(ctx, n, where):
    rng = ctx.rng
    for _ in range(n):
        x = rng.random()
        try:
            if x < .42:
                if not (ctx.stack and rng.random() < .12 and edit_samename(ctx)):
                    edit_assign(ctx)
            elif x < .50:
                edit_assign(ctx, never=True)
            elif x < .62:
                edit_inplace(ctx)
            elif x < .67:
                edit_hist(ctx)
            elif x < .72:
                edit_delete(ctx)
            elif x < .92:
                edit_api(ctx)
            elif len(ctx.nodes) < 400 or rng.random() < .3:
                copy_check(ctx)
        except Abort:
            raise
        except Exception as e:
            ctx.rec.crash("edit/%s" % where, e, ctx.w)
            abort(ctx)


# ----------------------------------------------------------------------------- scope judging
def choose_keep(ctx, target, nodes, mode):
    rng = ctx.rng
    if mode == "empty":
        return []
    alld = {}
    for n in nodes:
        for name, field, pd in defs_of(n):
            alld[id(pd)] = pd
    if mode == "all":
        return list(alld.values())
    keep = {}
    for _ in range(rng.randint(1, 8)):
        n = pick_node(ctx, nodes)
        name, field, pd = rng.choice(defs_of(n))
        keep[id(pd)] = pd
    for nm in rng.sample(["numberDensities", "temperatureInC", "height", "volume", "power", "mgFlux", "flux", "xsType", "detailedNDens", "z", "flags", "maxAssemNum", "cycle"], 3):
        for n in nodes[:1] + [pick_node(ctx, nodes) for _ in range(3)]:
            try:
                pd = n.p.paramDefs[nm]
            except Exception:
                continue
            keep[id(pd)] = pd
    return list(keep.values())


def self_hazardous_defs(nodes, keep_ids):
    """definitions (among keep_ids) for which some object holds a value whose comparison with an equal copy of itself is
    not well defined in python (list/dict/tuple holding arrays): keeping those is the known container-of-arrays exit failure"""
    import numpy as np

    bad = set()
    for n in nodes:
        d = n.p.__dict__
        for name, field, pd in defs_of(n):
            if id(pd) in keep_ids and id(pd) not in bad:
                v = d.get(field)
                if isinstance(v, (list, tuple, dict)) and not is_link(v) or (isinstance(v, np.ndarray) and v.dtype == object):
                    if hazard(thaw(freeze(v)), v) not in ("none", "compares-equal"):
                        bad.add(id(pd))
    return bad


def as_iterable(rng, keep, mode):
    if not keep:
        return rng.choice([None, [], (), set()])
    return rng.choice([list, tuple, set, lambda k: iter(list(k))])(keep)


def compare(ctx, L, pre, inside, post, depth, exit_exc):
    """the restore law for one scope"""
    rec = ctx.rec
    nodes = L.nodes
    w = dict(ctx.w, scope_target=label(nodes, 0), scope_depth=depth, keep_mode=L.mode, keep=sorted({k.name for k in L.keep})[:40],
             scope_left_by="exception raised in the with-body" if exit_exc else "normal end of the with-body")
    from armi.reactor.parameters import NoDefault

    rec.hit("restore.scope-judged")
    if exit_exc:
        rec.hit("restore.exit-by-exception")
    if depth > 0:
        rec.hit("restore.nested-lifo")
    nvals = nkept = 0
    reported = set()

    def viol(key, what, extra):
        if key in reported:
            return
        reported.add(key)
        rec.violation(key, what, dict(w, **extra))

    for i, n in enumerate(nodes):
        (p0, x0), (p1, x1), (p2, x2) = pre["nodes"][i], inside["nodes"][i], post["nodes"][i]
        kept_changed = False
        for name, field, pd in defs_of(n):
            nvals += 1
            a, b, c = p0[name], p1[name], p2[name]
            if a != b:
                ctx.nontrivial = True
            if id(pd) in L.keep_ids:
                nkept += 1
                if b != a:
                    kept_changed = True
                opaque = any(isinstance(f, tuple) and f and f[0] in ("link", "obj", "set") for f in (b, c))
                if c != b and (opaque or not loose_equal(thaw(b), thaw(c))):
                    h = hazard(thaw(a), thaw(b))
                    key = "restoreBackup/kept-array-broadcast-equal-lost" if h == "broadcast-equal" else "kept/value-not-retained"
                    if c == UNSET and pd.default is not NoDefault:
                        key = "restore/deleted-parameter-reads-NoDefault-sentinel"
                    viol(key, "kept parameter %s of %s: value before exit %s, after exit %s (entry value %s)" % (name, label(nodes, i), str(show(b))[:150], str(show(c))[:150], str(show(a))[:150]),
                         {"object": label(nodes, i), "param": name, "entry": show(a), "before_exit": show(b), "after_exit": show(c)})
            elif c != a:
                if c == UNSET and pd.default is not NoDefault:
                    # the getter of a parameter that has a default hands out the NoDefault sentinel: the unset state was backed up
                    # as the sentinel and stored as a value by the restore
                    key = "restore/deleted-parameter-reads-NoDefault-sentinel"
                elif (id(n), name) in ctx.inplace:
                    key = "restore/in-place-mutation-not-undone"
                else:
                    key = "restore/non-kept-parameter-differs"
                viol(key, "parameter %s of %s (%s -> %s in scope) is %s after the scope, entry value %s" % (name, label(nodes, i), kind_of(a), kind_of(b), shown(c), shown(a)),
                     {"object": label(nodes, i), "param": name, "entry": show(a), "before_exit": show(b), "after_exit": show(c)})
        # non-parameter state
        if x2["#hist"] != x0["#hist"]:
            viol("hist/not-restored", "history-tuple store of %s differs after the scope" % label(nodes, i), {"object": label(nodes, i), "entry": show(x0["#hist"]), "after_exit": show(x2["#hist"])})
        rec.hit("cache.obj")
        if x2["#cached"] != x0["#cached"]:
            viol("cache/leaks-out-of-scope", "cache of %s after the scope %s, at entry %s" % (label(nodes, i), show(x2["#cached"]), show(x0["#cached"])), {"object": label(nodes, i)})
        if "#material" in x0:
            rec.hit("cache.material")
            if x2["#material.cached"] != x0["#material.cached"]:
                viol("cache/material-cache-leaks" + ("/scope-target-own-material" if i == 0 else ""), "material cache of %s after the scope %s, at entry %s" % (label(nodes, i), show(x2["#material.cached"]), show(x0["#material.cached"])), {"object": label(nodes, i)})
            if x2["#material"] != x0["#material"]:
                viol("restore/material-changed", "material of %s changed across the scope" % label(nodes, i), {"object": label(nodes, i)})
            for api, pname in (("#api.T", "temperatureInC"), ("#api.ndens", "numberDensities")):
                pdx = next((d[2] for d in defs_of(n) if d[0] == pname), None)
                if pdx is not None and id(pdx) not in L.keep_ids and x2[api] != x0[api]:
                    viol("restore/component-%s-differs" % pname, "%s of %s reads %s after the scope, %s at entry" % (pname, label(nodes, i), show(x2[api]), show(x0[api])), {"object": label(nodes, i)})
        if "#grid" in x0:
            rec.hit("restore.grid")
            if x1["#grid"] != x0["#grid"]:
                ctx.nontrivial = True
                rec.hit("restore.grid-changed-in-scope")
            if x2["#grid"] != x0["#grid"]:
                nested = id(n) in L.inner_grid_scopes
                key = "grid/nested-scope-single-backup-slot" if nested else "grid/not-restored"
                viol(key, "grid of %s (pitch, bounds, offset, unit steps) after the scope %s; at entry %s; before exit %s%s"
                     % (label(nodes, i), show_grid(x2["#grid"]), show_grid(x0["#grid"]), show_grid(x1["#grid"]), " (an inner scope covering this grid was opened and closed meanwhile)" if nested else ""),
                     {"object": label(nodes, i), "nested_scope_over_same_grid": nested})
        if not kept_changed and x2["#p.assigned"] != x0["#p.assigned"] and x2["#p.assigned"] != SINCE_ANYTHING:
            # (re-flagging as modified is conservative and happens e.g. for a kept NaN; a lost flag is not)
            viol("assigned-flag/collection-not-restored", "p.assigned of %s is %r after the scope, %r at entry" % (label(nodes, i), x2["#p.assigned"], x0["#p.assigned"]), {"object": label(nodes, i)})
    for cls, d0 in pre["defs"].items():
        d2 = post["defs"][cls]
        for name, (pid, m0) in d0.items():
            rec.hit("restore.definition-flag")
            # waived for the kept definitions themselves (a definition object is shared by the classes that inherit it), not for
            # equally named definitions of other classes
            if pid not in L.keep_ids and d2[name][1] != m0:
                viol("assigned-flag/definition-not-restored", "definition %s.%s has assigned=%r after the scope, %r at entry" % (cls.__name__, name, d2[name][1], m0), {"param": name})
                break
    rec.hit("restore.values-compared", nvals)
    rec.hit("restore.kept-compared", nkept)


def classify_exit_failure(ctx, L, pre, inside, e, depth):
    """the scope exit raised: name the mechanism from the shape of the kept changes"""
    classes = {}
    for i, n in enumerate(L.nodes):
        p0, p1 = pre["nodes"][i][0], inside["nodes"][i][0]
        for name, field, pd in defs_of(n):
            if id(pd) in L.keep_ids and (p0[name] != p1[name] or kind_of(p0[name]) in ("list", "tuple", "dict", "ndarray")):
                h = hazard(thaw(p0[name]), thaw(p1[name]))
                if h in ("array-shape-change", "container-of-arrays"):
                    classes.setdefault(h, {"object": label(L.nodes, i), "param": name, "entry": show(p0[name]), "before_exit": show(p1[name])})
    msg = str(e)
    pick = None
    if "broadcast" in msg and "array-shape-change" in classes:
        pick = "array-shape-change"
    elif "ambiguous" in msg and "container-of-arrays" in classes:
        pick = "container-of-arrays"
    elif len(classes) == 1 and isinstance(e, ValueError):
        pick = next(iter(classes))
    w = dict(ctx.w, scope_target=label(L.nodes, 0), scope_depth=depth, keep_mode=L.mode)
    if pick:
        ctx.rec.violation("restoreBackup/kept-%s-raises" % pick,
                          "leaving the scope raised %s: %s - a kept parameter changed %s; the exit is abandoned half-way (kept value lost, later objects not restored)"
                          % (type(e).__name__, msg[:200], "its array shape" if pick == "array-shape-change" else "inside a list/dict holding arrays"), dict(w, **classes[pick]))
    else:
        ctx.rec.crash("scope-exit", e, w)


def run_level(ctx, depth, maxdepth, target):
    rng, rec = ctx.rng, ctx.rec
    nodes = walk(target)
    mode = ctx.modes[depth]
    keep = choose_keep(ctx, target, nodes, mode)
    plant_here = ctx.hazard_mode in ("array-shape-change", "broadcast-equal", "container-of-arrays") and ctx.plant_level == depth
    plant = None
    if plant_here:
        plant = prepare_plant(ctx, nodes)
        if plant is not None and not any(k is plant[3] for k in keep):
            keep.append(plant[3])
    heal_deleted(ctx, nodes)
    bad = self_hazardous_defs(nodes, {id(k) for k in keep}) if ctx.hazard_mode != "any" else set()
    if plant is not None and ctx.hazard_mode == "container-of-arrays":
        bad.discard(id(plant[3]))
    if bad:
        keep = [k for k in keep if id(k) not in bad]
        rec.add("keep-set reduced: definition currently holds a list/dict of arrays (known exit failure), not kept")
    L = Level(target, nodes, keep, mode)
    for outer in ctx.stack:  # this scope covers these grids while the outer scopes are open
        for n in nodes:
            if getattr(n, "spatialGrid", None) is not None and id(n) in outer.node_ids:
                outer.inner_grid_scopes.add(id(n))
    ctx.log("enter scope on %s keep=%s(%d)" % (level_of(target), mode, len(keep)))
    pre = L.pre = obs(target, nodes)
    arg = as_iterable(rng, keep, mode)
    failed = None
    inside = None
    leave = None
    try:
        with (target.retainState(arg) if arg is not None else target.retainState()):
            ctx.stack.append(L)
            try:
                if depth == 0 or rng.random() < .3:
                    rec.hit("restore.after-entry")
                    ent = obs(target, nodes)
                    bad = diff_obs(pre, ent, nodes)
                    if bad:
                        rec.violation("enter/changes-observable-state", "entering the scope changed %s" % bad[0], dict(ctx.w, scope_target=label(nodes, 0)))
                edits(ctx, rng.randint(2, 10), "in-scope")
                if depth + 1 < maxdepth:
                    nxt = choose_inner_target(ctx, target, nodes)
                    run_level(ctx, depth + 1, maxdepth, nxt)
                    edits(ctx, rng.randint(0, 6), "in-scope")
                    if rng.random() < .3 and depth + 1 < maxdepth:  # a second sibling scope at the same depth
                        run_level(ctx, depth + 1, maxdepth, choose_inner_target(ctx, target, nodes))
                if plant is not None:
                    do_plant(ctx, plant)
                if rng.random() < P_LEAVE:
                    leave = Leave(rng.choice([1, 1, 2, 3]))
            except Leave as lv:  # an inner scope was left through an exception that goes on through this scope
                leave = lv
            ctx.stack.pop()
            inside = obs(target, nodes)
            if leave is not None:
                ctx.log("raise inside the scope on %s (propagates through %d level(s))" % (level_of(target), leave.levels))
                raise leave  # last statement of the with-body
    except Leave as lv:
        if lv is not leave:
            raise
    except Abort:
        raise
    except Exception as e:
        if ctx.aborted:  # an outer exit failed while an abandoned case unwinds: already reported
            raise Abort()
        failed = e
    finally:
        if ctx.stack and ctx.stack[-1] is L:
            ctx.stack.pop()
    if failed is not None:
        ctx.aborted = True
        if inside is None:
            rec.crash("in-scope(harness?)", failed, ctx.w)
        else:
            classify_exit_failure(ctx, L, pre, inside, failed, depth)
        raise Abort()
    ctx.log("exit scope on %s%s" % (level_of(target), " (through the exception)" if leave is not None else ""))
    post = obs(target, nodes)
    compare(ctx, L, pre, inside, post, depth, leave is not None)
    if leave is not None:
        ctx.kinds.add("exit-by-exception")
        leave.levels -= 1
        if leave.levels > 0 and depth > 0:
            rec.hit("restore.exception-through-nested")
            raise leave


def diff_obs(a, b, nodes):
    out = []
    for i in range(len(nodes)):
        (p0, x0), (p1, x1) = a["nodes"][i], b["nodes"][i]
        for k in p0:
            if p0[k] != p1[k]:
                out.append("%s.p.%s: %s -> %s" % (label(nodes, i), k, str(show(p0[k]))[:80], str(show(p1[k]))[:80]))
        for k in x0:
            if k in ("#cached", "#material.cached", "#p.assigned"):
                continue  # entering a scope starts with empty caches and a cleared since-backup bit by design
            if x0[k] != x1[k]:
                out.append("%s %s changed" % (label(nodes, i), k))
    return out


def choose_inner_target(ctx, target, nodes):
    rng = ctx.rng
    x = rng.random()
    if x < .25:
        return target
    if x < .9 and len(nodes) > 1:
        return pick_node(ctx, nodes[1:])
    anc = []
    p = target.parent
    while p is not None and any(p is n for n in ctx.nodes):
        anc.append(p)
        p = p.parent
    return rng.choice(anc) if anc else target


# ----------------------------------------------------------------------------- planting the two kept-value hazards
def prepare_plant(ctx, nodes):
    """give a non-critical parameter an array (or list-of-arrays) value before the scope opens"""
    import numpy as np

    rng = ctx.rng
    for _ in range(10):
        o = pick_node(ctx, nodes)
        name, field, pd = rng.choice(defs_of(o))
        if sensitive_gen(o, name) is not None or is_link(raw(o, field)):
            continue
        if ctx.hazard_mode == "container-of-arrays":
            v = [np.array([rng.uniform(0, 1) for _ in range(rng.randint(2, 4))]) for _ in range(rng.randint(1, 3))]
            if rng.random() < .4:
                v = {"g%d" % i: a for i, a in enumerate(v)}
        else:
            v = np.array([rng.uniform(0, 1) for _ in range(rng.randint(2, 5))])
        try:
            setattr(o.p, name, v)
        except Exception:
            continue
        stored = raw(o, field)
        if not safe_for_kept(ctx, o, name, field, pd):
            setattr(o.p, name, rng.uniform(1e3, 2e3))
            continue
        if ctx.hazard_mode != "container-of-arrays" and not isinstance(stored, np.ndarray):
            continue
        ctx.log("prepared %s.p.%s = <%s> before the scope" % (level_of(o), name, "array" if ctx.hazard_mode != "container-of-arrays" else "container of arrays"))
        return (o, name, field, pd)
    return None


def do_plant(ctx, plant):
    import numpy as np

    rng = ctx.rng
    o, name, field, pd = plant
    cur = raw(o, field)
    mode = ctx.hazard_mode
    if mode == "array-shape-change":
        if not isinstance(cur, np.ndarray) or cur.ndim != 1 or cur.dtype.kind != "f" or cur.size < 2:
            return
        new = rng.choice([np.concatenate([cur, cur[:1]]), cur[:-1] if cur.size > 2 else np.concatenate([cur, cur]), list(cur) + [1.0]])
    elif mode == "broadcast-equal":
        if not isinstance(cur, np.ndarray) or cur.ndim != 1 or cur.size < 2:
            return
        new = cur.reshape((1,) + cur.shape).copy()
    else:
        vals = list(cur.values()) if isinstance(cur, dict) else cur if isinstance(cur, list) else None
        if not vals or not all(isinstance(a, np.ndarray) and a.dtype.kind == "f" and a.size > 1 for a in vals):
            return  # the prepared value was overwritten by a later edit
        if isinstance(cur, dict):
            new = {k: (v + 1 if i == 0 else v.copy()) for i, (k, v) in enumerate(cur.items())}
        else:
            new = [cur[0] + 1] + [a.copy() for a in cur[1:]]
    setattr(o.p, name, new)
    stored = raw(o, field)
    ok = True
    for L in ctx.kept_levels(o, pd):
        old = thaw(L.pre["nodes"][L.node_ids[id(o)]][0][name])
        h = hazard(old, stored)
        if L is ctx.stack[-1]:
            ok = ok and h == mode
        else:
            ok = ok and h in ("none", "compares-equal")
    if not ok:
        setattr(o.p, name, rng.uniform(1e3, 2e3))
        if not safe_for_kept(ctx, o, name, field, pd):
            setattr(o.p, name, cur)
        return
    ctx.planted = True
    ctx.kinds.add("kept:" + mode)
    ctx.log("%s.p.%s (kept) = <%s>" % (level_of(o), name, mode))


# ----------------------------------------------------------------------------- volumes / caches
def geom_snapshot(root):
    from armi.reactor import blocks
    from armi.reactor.components import Component

    out = []
    for n in walk(root):
        if isinstance(n, Component):
            if n.parent is not None and n.parent.p.height:
                out.append(("c", n.getVolume(), n.getArea(), n.getMass()))
        elif isinstance(n, blocks.Block) and n.p.height:
            out.append(("b", n.getVolume(), n.getArea(), n.getMass()))
    return out


def snap_close(a, b, rel):
    if len(a) != len(b):
        return False, "different number of entries"
    for i, (x, y) in enumerate(zip(a, b)):
        for j in (1, 2, 3):
            if abs(x[j] - y[j]) > rel * max(abs(x[j]), abs(y[j])):
                return False, "#%d %s %s: %r vs %r" % (i, x[0], ("volume", "area", "mass")[j - 1], x[j], y[j])
    return True, ""


# ----------------------------------------------------------------------------- copies
def mutable_parts(v, out, depth=0):
    import numpy as np

    if isinstance(v, np.ndarray):
        out.append(v)
        if v.dtype == object:
            for x in v.flat:
                mutable_parts(x, out, depth + 1)
    elif isinstance(v, (list, dict, set)) and not is_link(v):
        out.append(v)
        if depth < 4:
            for x in (v.values() if isinstance(v, dict) else v):
                mutable_parts(x, out, depth + 1)
    elif isinstance(v, tuple) and not is_link(v) and depth < 4:
        for x in v:
            mutable_parts(x, out, depth + 1)


def alias_walk(rec, orig_nodes, cp_nodes, how, w):
    import numpy as np

    rec.hit("copy.alias-walk")
    orig_ids = {}
    arrays = []
    for n in orig_nodes:
        orig_ids[id(n)] = "object"
        orig_ids[id(n.p)] = "parameter collection"
        orig_ids[id(n.p._hist)] = "history store"
        if getattr(n, "material", None) is not None:
            orig_ids[id(n.material)] = "material"
        if getattr(n, "spatialGrid", None) is not None:
            orig_ids[id(n.spatialGrid)] = "grid"
        for name, field, pd in defs_of(n):
            parts = []
            mutable_parts(n.p.__dict__.get(field), parts)
            for x in parts:
                orig_ids[id(x)] = "value of " + name
                if isinstance(x, np.ndarray) and x.dtype != object and x.size:
                    arrays.append((name, x))
        parts = []
        mutable_parts(n.p._hist, parts)
        for x in parts:
            orig_ids[id(x)] = "history value"
    for n in cp_nodes:
        things = [(n, "object"), (n.p, "p"), (n.p._hist, "hist"), (getattr(n, "material", None), "material"), (getattr(n, "spatialGrid", None), "grid")]
        for name, field, pd in defs_of(n):
            v = n.p.__dict__.get(field)
            if is_link(v):
                tgt = tuple.__getitem__(v, 0)
                if id(tgt) in orig_ids:
                    rec.violation("copy/%s/aliasing/dimension-link-into-original" % how, "copy's %s.%s is linked to a component of the original" % (n, name), w)
                    return
                continue
            parts = []
            mutable_parts(v, parts)
            for x in parts:
                things.append((x, "value of " + name))
        parts = []
        mutable_parts(n.p._hist, parts)
        things.extend((x, "history value") for x in parts)
        for x, what in things:
            if x is None:
                continue
            if id(x) in orig_ids:
                rec.violation("copy/%s/aliasing/%s" % (how, "parameter-value" if what.startswith("value") else what.replace(" ", "-")),
                              "the %s copy of %s shares its %s with the original (%s)" % (how, n, what, orig_ids[id(x)]), dict(w, what=what))
                return
            if isinstance(x, np.ndarray) and x.dtype != object and x.size:
                for nm, a in arrays:
                    if a.dtype == x.dtype and np.shares_memory(a, x):
                        rec.violation("copy/%s/aliasing/array-memory" % how, "array %s of the copy shares memory with %s of the original" % (what, nm), w)
                        return


def copy_check(ctx):
    from armi.reactor.parameters import NoDefault

    rng, rec = ctx.rng, ctx.rec
    pool = ctx.stack[0].nodes if ctx.stack else ctx.nodes
    small = [n for n in pool if level_of(n) in ("Block", "Component", "Assembly")]
    x = rng.choice(small) if small and (rng.random() < .8 or len(pool) > 150) else pool[0]
    how = rng.choice(["deepcopy", "pickle"])
    w = dict(ctx.w, copy=how, copied=repr(x))
    nodes = walk(x)
    heal_deleted(ctx, nodes)
    o0 = obs(x, nodes)
    try:
        cp = copy.deepcopy(x) if how == "deepcopy" else pickle.loads(pickle.dumps(x))
    except Exception as e:
        rec.crash("copy/" + how, e, w)
        abort(ctx)
    if how == "pickle":
        REG.mark_clone_tree(cp)
    ctx.copies.add(how + ":" + level_of(x))
    ctx.log("%s of %s" % (how, level_of(x)))
    cnodes = walk(cp)
    if [type(n).__name__ for n in cnodes] != [type(n).__name__ for n in nodes]:
        rec.violation("copy/%s/shape-differs" % how, "the copy's tree has different classes/shape", w)
        return
    rec.hit("copy.equal")
    o1 = obs(cp, cnodes)
    for i, n in enumerate(nodes):
        p0, p1 = o0["nodes"][i][0], o1["nodes"][i][0]
        x0, x1 = o0["nodes"][i][1], o1["nodes"][i][1]
        for k in p0:
            if k == "serialNum":
                if how == "deepcopy":
                    rec.hit("serial.fresh")
                    if p0[k] == p1[k]:
                        rec.violation("copy/deepcopy/serial-not-fresh", "deep copy of %s keeps serial number %s" % (label(nodes, i), show(p0[k])), w)
                        return
                continue
            if p0[k] != p1[k]:
                key = "copy/%s/values-differ" % how
                if p1[k] == UNSET and n.p.paramDefs[k].default is not NoDefault:
                    key = "copy/%s/deleted-parameter-reads-NoDefault-sentinel" % how  # the copy's getter hands out the sentinel
                rec.violation(key, "parameter %s of %s: original %s, copy %s" % (k, label(nodes, i), shown(p0[k]), shown(p1[k])), dict(w, param=k))
                return
        for k in ("#hist", "#material", "#grid", "#api.T", "#api.ndens"):
            if k in x0 and x0[k] != x1[k]:
                rec.violation("copy/%s/values-differ/%s" % (how, k.strip("#")), "%s of %s differs between original and copy: %s vs %s" % (k, label(nodes, i), show(x0[k]), show(x1[k])), w)
                return
    alias_walk(rec, nodes, cnodes, how, w)
    REG.check(rec, w)
    # mutation both ways
    rec.hit("copy.mutation")
    sub = Ctx(rec, rng, cp, ctx.info, {"history": []})
    sub.nodes = cnodes
    try:
        for _ in range(rng.randint(3, 8)):
            o = rng.choice(cnodes)
            if rng.random() < .5:
                if not edit_inplace(sub, o):
                    edit_assign(sub, o, prefer_kept=False)
            elif rng.random() < .75:
                edit_assign(sub, o, prefer_kept=False)
            elif rng.random() < .5:
                edit_hist(sub, o)
            else:
                edit_delete(sub, o)
        # in-place mutation of every mutable value of a few objects of the copy (arrays, lists, dicts)
        for o in rng.sample(cnodes, min(3, len(cnodes))):
            for _ in range(4):
                edit_inplace(sub, o)
    except Exception as e:
        rec.crash("edit/copy", e, dict(w, copy_history=sub.hist))
        abort(ctx)
    o0b = obs(x, nodes)
    d = diff_all(o0, o0b, nodes)
    if d:
        rec.violation("copy/%s/mutation-of-copy-shows-in-original" % how, "after editing the copy (%s) the original changed: %s" % (sub.hist[:6], d[0]), dict(w, copy_history=sub.hist))
        return
    o1 = obs(cp, cnodes)
    # now edit the original (these are ordinary history edits) and look at the copy
    try:
        for _ in range(rng.randint(2, 6)):
            o = rng.choice(nodes)
            if rng.random() < .5:
                if not edit_inplace(ctx, o):
                    edit_assign(ctx, o)
            else:
                edit_assign(ctx, o)
    except Abort:
        raise
    except Exception as e:
        rec.crash("edit/original-after-copy", e, w)
        abort(ctx)
    d = diff_all(o1, obs(cp, cnodes), cnodes)
    if d:
        rec.violation("copy/%s/mutation-of-original-shows-in-copy" % how, "after editing the original the copy changed: %s" % d[0], w)


def diff_all(a, b, nodes):
    out = []
    for i in range(len(nodes)):
        (p0, x0), (p1, x1) = a["nodes"][i], b["nodes"][i]
        for k in p0:
            if p0[k] != p1[k]:
                out.append("%s.p.%s: %s -> %s" % (label(nodes, i), k, shown(p0[k])[:80], shown(p1[k])[:80]))
        for k in x0:
            if k != "#p.assigned" and x0[k] != x1.get(k):
                out.append("%s %s changed" % (label(nodes, i), k))
    return out


# ----------------------------------------------------------------------------- one scope history
TARGET_LEVELS = {"gen": ["Reactor", "Core", "Assembly", "Block", "Component"], "small": ["Reactor", "Core", "Assembly", "Block", "Component"],
                 "cart": ["Reactor", "Core", "Core", "Assembly"], "asm": ["Assembly", "Block", "Component"], "blk": ["Block", "Component"]}


# "none": kept parameters never receive a value whose comparison with the entry value is a numpy hazard, deleted defaulted parameters
# are re-assigned before a back-up point; "any": no steering of kept values; the three named ones plant that hazard on a kept parameter;
# "deleted-default": deleted defaulted parameters stay deleted across scope entries and copies
HAZARD_MODES = ["none"] * 2 + ["any"] * 3 + ["array-shape-change", "broadcast-equal", "container-of-arrays"] * 2 + ["deleted-default"] * 3


def scope_case(rec, rng, rootkind, case):
    hist = []
    w = {"root": rootkind, "case": case, "history": hist}
    try:
        root, info = make_root(rng, rootkind)
    except Exception as e:
        rec.crash("build-root(harness?)/" + rootkind, e, w)
        return
    ctx = Ctx(rec, rng, root, info, w)
    lv = rng.choice(TARGET_LEVELS[rootkind])
    cands = [n for n in ctx.nodes if level_of(n) == lv]
    target = rng.choice(cands) if cands else root
    maxdepth = rng.choice([1, 1, 2, 2, 3, 4])
    ctx.modes = [rng.choice(["empty", "random", "random", "all"]) for _ in range(maxdepth)]
    ctx.hazard_mode = rng.choice(HAZARD_MODES)
    ctx.plant_level = rng.randrange(maxdepth)
    w.update(target_level=lv, depth=maxdepth, keep_modes=ctx.modes, hazard=ctx.hazard_mode)
    snapB = None
    try:
        edits(ctx, rng.randint(3, 15), "prelude")
        judge_geom = ctx.modes[0] == "empty" and lv in ("Reactor", "Core", "Assembly", "Block")
        if judge_geom:
            try:
                # judged on the tree of the outermost scope only: an inner scope opened on an ancestor may legitimately keep edits elsewhere
                snapA = geom_snapshot(target)
                target.clearCache()
                snapB = geom_snapshot(target)
                ok, why = snap_close(snapA, snapB, TOLERANCES["volume_fresh_rel"])
                if not ok:
                    rec.skip("cache law not judged: state before the scope already differs from a fresh recomputation (direct assignments in the prelude)")
                    snapB = None
            except Exception as e:
                rec.crash("geometry-before-scope", e, w)
                return
        run_level(ctx, 0, maxdepth, target)
        if snapB is not None:
            try:
                snapC = geom_snapshot(target)
                rec.hit("cache.fresh-recompute")
                ok, why = snap_close(snapB, snapC, TOLERANCES["volume_unchanged_rel"])
                if not ok:
                    rec.violation("cache/volume-differs-from-pre-scope", "volume/area/mass reported after the scope differs from before it: " + why, w)
                target.clearCache()
                snapD = geom_snapshot(target)
                ok, why = snap_close(snapC, snapD, TOLERANCES["volume_fresh_rel"])
                if not ok:
                    rec.violation("cache/volume-differs-from-fresh-recomputation", "value reported after the scope differs from a fresh recomputation: " + why, w)
            except Exception as e:
                rec.crash("geometry-after-scope", e, w)
        REG.check(rec, w)
    except Abort:
        pass
    except Exception as e:
        rec.crash("history(harness?)", e, w)
    rec.case([rootkind, lv, maxdepth, ctx.modes, ctx.hazard_mode if (ctx.planted or ctx.hazard_mode in ("any", "deleted-default")) else "none", sorted(ctx.kinds), sorted(ctx.copies)],
             nontrivial=ctx.nontrivial,
             sample={"root": info["kind"], "objects": len(ctx.nodes), "target": lv, "depth": maxdepth, "keep_modes": ctx.modes, "history": hist[:60]} if case < 2 else None)
    if ctx.planted:
        rec.add("kept-hazard-planted:" + ctx.hazard_mode)


# ============================================================================= read-only
def _is_readonly_refusal(e):
    """armi's own read-only refusal (ParameterCollection.__setattr__/__setitem__/__delitem__), as opposed to a setter's ValueError/TypeError
    on a value it cannot hold or an AssertionError"""
    return isinstance(e, RuntimeError) and "read-only" in str(e)


def _note_refusal(rec, e):
    rec.hit("readonly.refused")
    if _is_readonly_refusal(e):
        rec.hit("readonly.refused-as-read-only")
    else:
        rec.hit("readonly.refused-otherwise")
        rec.add("readonly: refused otherwise, by %s" % type(e).__name__)


def readonly_sample(rng, r, nodes, k=60):
    """indices of the probed objects: everything when small; else the reactor, each of its direct children (core, spent fuel pool, ...) and
    their first children, one object of every class, every object outside the core, and a random rest"""
    if len(nodes) < k:
        return list(range(len(nodes)))
    must = {0}
    byclass = {}
    core_ids = {id(n) for n in walk(r.core)} if getattr(r, "core", None) is not None else set()
    outside = []
    for i, n in enumerate(nodes):
        if n.parent is r or (n.parent is not None and n.parent.parent is r and len(must) < 12):
            must.add(i)
        byclass.setdefault(type(n).__name__, []).append(i)
        if i and id(n) not in core_ids:
            outside.append(i)
    for ii in byclass.values():
        must.add(rng.choice(ii))
    must.update(outside[:15])
    rest = [i for i in range(len(nodes)) if i not in must]
    must.update(rng.sample(rest, max(0, min(len(rest), k - len(must)))))
    return sorted(must)


def readonly_probe(rec, rng, r, nodes, w, via):
    """The read-only law on reactor ``r`` (already frozen through ``via``): every assignment / deletion anywhere is refused and nothing changes.
    -> (attempts, sorted names of the probes that broke it)"""
    from armi.reactor import blocks
    from armi.reactor.components import Component
    from armi.reactor.parameters import NoDefault

    o0 = obs(r, nodes)
    accepted = {}
    attempts = 0

    def attempt(how, fn, node_i):
        nonlocal attempts
        attempts += 1
        try:
            fn()
        except Exception as e:
            _note_refusal(rec, e)
            return
        accepted.setdefault(how, label(nodes, node_i))

    for i in readonly_sample(rng, r, nodes):
        n = nodes[i]
        defs = defs_of(n)
        for name, field, pd in (defs if rng.random() < .15 else rng.sample(defs, min(12, len(defs)))):
            v = gen_value(rng)
            if rng.random() < .5:
                attempt("attribute-assignment", lambda: setattr(n.p, name, v), i)
            else:
                attempt("item-assignment", lambda: n.p.__setitem__(name, v), i)
        attempt("readOnly=False", lambda: setattr(n.p, "readOnly", False), i)
        attempt("update()", lambda: n.p.update({defs[0][0]: 1.0}), i)
    for how, label_ in accepted.items():
        rec.violation("readonly/assignment-accepted/" + how, "%s on %s of a reactor made read-only by %s did not raise" % (how, label_, via), dict(w, via=via))
    if accepted:
        return attempts, sorted(accepted)  # random values now sit in geometry-critical parameters: nothing further can be observed on this reactor
    o1 = obs(r, nodes)
    rec.hit("readonly.unchanged")
    d = diff_all(o0, o1, nodes)
    if d:
        rec.violation("readonly/value-changed-by-assignment", "after refused assignments the read-only reactor changed: %s" % d[0], dict(w, via=via))
    # public setters, deletion and the history-tuple item syntax, one object at a time so that a change is attributed
    comps = [i for i in range(len(nodes)) if isinstance(nodes[i], Component) and nodes[i].parent is not None]
    blks = [i for i in range(len(nodes)) if isinstance(nodes[i], blocks.Block) and nodes[i].parent is not None]
    probes = []
    for i in rng.sample(comps, min(6, len(comps))):
        c = nodes[i]
        nd = c.p.numberDensities
        if nd:
            nuc = rng.choice(sorted(nd))
            probes.append(("setNumberDensity", i, lambda c=c, nuc=nuc: c.setNumberDensity(nuc, rng.uniform(1e-5, 1e-2))))
            probes.append(("setNumberDensities", i, lambda c=c, nuc=nuc: c.setNumberDensities({nuc: 1e-3})))
            probes.append(("changeNDensByFactor", i, lambda c=c: c.changeNDensByFactor(1.1)))
        if type(c).__name__ != "DerivedShape":
            probes.append(("setTemperature", i, lambda c=c: c.setTemperature(c.temperatureInC + 25.0)))
    for i in rng.sample(blks, min(4, len(blks))):
        b = nodes[i]
        probes.append(("setHeight", i, lambda b=b: b.setHeight(b.getHeight() * 1.1)))
    for i in rng.sample(range(len(nodes)), min(6, len(nodes))):
        n = nodes[i]
        nm = rng.choice(defs_of(n))[0]
        probes.append(("history-tuple-item", i, lambda n=n, nm=nm: n.p.__setitem__((nm, 0), 1.0)))
    # deletion of a parameter that holds a value (so that an accepted deletion is visible) ...
    for i in rng.sample(range(len(nodes)), min(8, len(nodes))):
        n = nodes[i]
        held = [(name, freeze(n.p.__dict__[field]) != freeze(pd.default)) for name, field, pd in defs_of(n)
                if n.p.__dict__.get(field, NoDefault) is not NoDefault and sensitive_gen(n, name) is None and not is_link(n.p.__dict__[field])]
        held = [nm for nm, differs in held if differs] or [nm for nm, _d in held]  # preferably one whose deletion would show
        if held:
            nm = rng.choice(held)
            probes.append(("delete", i, lambda n=n, nm=nm: n.p.__delitem__(nm)))
    # ... and of an existing history-tuple entry
    with_hist = [i for i in range(len(nodes)) if nodes[i].p._hist]
    for i in rng.sample(with_hist, min(6, len(with_hist))):
        n = nodes[i]
        key = rng.choice(sorted(n.p._hist, key=repr))
        probes.append(("history-tuple-delete", i, lambda n=n, key=key: n.p.__delitem__(key)))
    rng.shuffle(probes)
    seen = set()
    for how, i, fn in probes:
        raised = True
        try:
            fn()
            raised = False
        except Exception as e:
            _note_refusal(rec, e)
        rec.hit("readonly.setter-probe")
        if how in ("delete", "history-tuple-delete"):
            rec.hit("readonly.delete-probe" if how == "delete" else "readonly.history-delete-probe")
        o2 = obs(r, nodes)
        d = diff_all(o1, o2, nodes)
        if d and how not in seen:
            seen.add(how)
            rec.violation("readonly/%s-changes-value" % how, "%s on %s of a reactor made read-only by %s %s and changed %s" % (how, label(nodes, i), via, "raised" if raised else "did not raise", d[0]),
                          dict(w, api=how, raised=raised, via=via))
        elif not raised and how not in seen:
            seen.add(how)
            rec.violation("readonly/assignment-accepted/" + how, "%s on %s of a reactor made read-only by %s did not raise" % (how, label(nodes, i), via), dict(w, api=how, via=via))
        o1 = o2
    return attempts, sorted(seen)


def readonly_case(rec, rng, case):
    from armi.reactor.reactorParameters import makeParametersReadOnly
    from vlib import gen

    hist = []
    w = {"case": case, "history": hist}
    kind = rng.choice(["gen", "gen", "small"])
    try:
        r, info = make_root(rng, kind)
    except Exception as e:
        rec.crash("build-root(harness?)/" + kind, e, w)
        return
    # the spent fuel pool (a child of the reactor next to the core) receives an assembly in half of the cases
    pooled = False
    sfp = next((c for c in r if type(c).__name__ == "SpentFuelPool"), None)
    if sfp is not None and rng.random() < .5:
        try:
            pitch = rng.uniform(8, 14)
            a = gen.build_assembly([gen.pin_block_spec(rng, kind="fuel", pitch=pitch, npins=rng.choice([1, 7]))], [rng.uniform(5, 30)])
            sfp.add(a)
            pooled = any(x is a for x in sfp)
        except Exception as e:
            rec.add("readonly: could not put an assembly into the spent fuel pool (%s), pool left empty" % type(e).__name__)
    ctx = Ctx(rec, rng, r, info, w)
    try:
        edits(ctx, rng.randint(5, 20), "prelude")
        for _ in range(rng.randint(2, 6)):  # history-tuple entries to be deleted later
            edit_hist(ctx, rng.choice(ctx.nodes))
    except Abort:
        return
    except Exception as e:
        rec.crash("edit/prelude", e, w)
        return
    nodes = ctx.nodes
    try:
        makeParametersReadOnly(r)
    except Exception as e:
        rec.crash("makeParametersReadOnly", e, w)
        return
    attempts, seen = readonly_probe(rec, rng, r, nodes, w, "makeParametersReadOnly")
    rec.case(["readonly", kind, len(nodes) > 50, pooled, seen], nontrivial=attempts > 50,
             sample={"root": info["kind"], "objects": len(nodes), "attempts": attempts, "assembly in the spent fuel pool": pooled} if case < 1 else None)


# ============================================================================= database / serial numbers
def db_case(rec, rng, case):
    from armi.bookkeeping.db import Database
    from armi.reactor import composites
    from armi.reactor.parameters import parameterCollections as pc
    from vlib import gen

    w = {"case": case}
    kind = rng.choice(["gen", "small"])
    try:
        r, info = make_root(rng, kind)
        for _ in range(rng.randint(0, 30)):  # push the counter so that loaded numbers are not small
            composites.Composite("filler")
        r2 = copy.deepcopy(r) if rng.random() < .5 else r  # deep copies carry the highest numbers
        r2.p.cycle, r2.p.timeNode = 0, 0
        db = Database("c16-%d-%d.h5" % (case, rng.randrange(10 ** 9)), "w")
        db.open()
        readonly = rng.random() < .5
        if readonly:  # Database.loadReadOnly takes settings and blueprints from the file
            db.writeInputsToDB(info["cs"], bpString=info.get("text"))
        db.writeToDB(r2)
        written = {n.p.serialNum for n in walk(r2)}
        cs, bp = info["cs"], info["bp"]
        del r, r2
        gc.collect()
        restart = rng.random() < .7
        if restart:
            REG.retire_all()  # whatever is still alive (blueprint-held assemblies) belongs to the 'previous process'
            pc.GLOBAL_SERIAL_NUM = -1  # a fresh process (documented assumption)
        if readonly:
            from vlib.env import quiet

            with quiet():
                r3 = db.loadReadOnly(0, 0)
        else:
            r3 = db.load(0, 0, cs=cs, bp=bp)
        db.close()
    except Exception as e:
        rec.crash("db-roundtrip", e, w)
        return
    REG.mark_clone_tree(r3)
    loaded = {n.p.serialNum for n in walk(r3)}
    w.update(restart=restart, loaded_max=max(loaded), n_loaded=len(loaded), loaded_by="loadReadOnly" if readonly else "load")
    if loaded != written:  # not part of C16 (C04 judges the round trip); recorded only
        rec.add("db: loaded serial numbers differ from the written ones")
    fresh = []
    try:
        fresh.append(composites.Composite("after-load"))
        a = rng.choice(list(r3.core))
        fresh.extend(walk(copy.deepcopy(a)))
        fresh.extend(walk(gen.build_block(gen.pin_block_spec(rng, kind="fuel"), 10.0)))
        fresh.extend(walk(copy.deepcopy(rng.choice(list(a)))))
    except Exception as e:
        rec.crash("construct-after-load", e, w)
        return
    rec.hit("serial.after-db-load")
    nums = [n.p.serialNum for n in fresh]
    clash = sorted(set(nums) & loaded)
    if clash:
        rec.violation("serial/reused-after-db-load", "objects constructed after Database.load received serial numbers of loaded objects, e.g. %s (loaded max %d)" % (clash[:5], max(loaded)), w)
    if len(set(nums)) != len(nums):
        rec.violation("serial/shared-by-live-objects", "objects constructed after a load share numbers among themselves", w)
    REG.check(rec, w)
    seen = []
    if readonly:
        rec.hit("readonly.loadReadOnly")
        try:
            _attempts, seen = readonly_probe(rec, rng, r3, walk(r3), dict(w, history=[]), "Database.loadReadOnly")
        except Exception as e:
            rec.crash("readonly-probe(harness?)", e, w)
    rec.case(["db", kind, restart, readonly, seen], nontrivial=len(loaded) > 3,
             sample={"root": info["kind"], "loaded": len(loaded), "restart": restart, "loaded by": "loadReadOnly" if readonly else "load", "fresh": nums[:5]} if case < 1 else None)
    del fresh, r3
    gc.collect()


# ============================================================================= entry
def run_shard(spec, rec):
    install_hooks(rec)
    for i in range(spec["n"]):
        rng = random.Random("%s:%d" % (spec["rng"], i))
        try:
            if spec["kind"] == "scopes":
                scope_case(rec, rng, spec["root"], i)
            elif spec["kind"] == "readonly":
                readonly_case(rec, rng, i)
            else:
                db_case(rec, rng, i)
        except Exception as e:
            rec.crash("case(harness?)/" + spec["kind"], e, {"case": i})
        if i % 5 == 4:
            gc.collect()
