#!/usr/bin/env python3
"""Run the pinned baseline command on a tree (default /repo) and compare with BASELINE.json stable_pass.
usage: tools/baseline_compare.py [repo_path]   exit 0 iff every stable_pass test passes."""
import json, os, subprocess, sys, tempfile
import xml.etree.ElementTree as ET

repo = sys.argv[1] if len(sys.argv) > 1 else "/repo"
base = json.load(open("/root/.vp/BASELINE.json"))
want = set(base["stable_pass"])
out = tempfile.mktemp(suffix=".xml", prefix="baseline-")
env = dict(os.environ, PYTHONDONTWRITEBYTECODE="1")
env.pop("ARMI_VERIF", None)
cmd = ["/venv/bin/python", "-m", "pytest", "-ra", "-q", "-p", "no:cacheprovider", "--timeout=900", "--continue-on-collection-errors", "--junitxml=" + out]
p = subprocess.run(cmd, cwd=repo, env=env, stdout=subprocess.PIPE, stderr=subprocess.STDOUT)
passed = set()
for tc in ET.parse(out).getroot().iter("testcase"):
    if not any(ch.tag in ("failure", "error", "skipped") for ch in tc):
        passed.add("%s::%s" % (tc.get("classname"), tc.get("name")))
os.remove(out)
missing = sorted(want - passed)
print("tree %s: %d passed, %d of %d pinned tests pass, %d pinned tests NOT passing" % (repo, len(passed), len(want & passed), len(want), len(missing)))
for m in missing[:40]:
    print("  NOT PASSING:", m)
sys.exit(1 if missing else 0)
