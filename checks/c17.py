"""C17 - case settings survive a write/read cycle and reject what they cannot hold.

Workload: every setting the configured stock App defines x a typed, YAML-hostile value pool that is *filtered by the
setting's own declared schema* (taken from a separate, pristine set of definitions): what the schema admits is the
valid class and has to survive ``Settings.writeToYamlStream(style)`` -> ``Settings.loadFromString``; what it refuses is
the near-miss class and has to raise on ``cs[name] = bad`` and on read, leaving the previous value in place.  Plus
structured generators (crossSectionControl, cycles, tightCouplingSettings, option lists, a plugin-contributed
FlagListSetting), subsets of 1-40 settings changed at once, all three styles, renames from ``oldNames`` and the three
ways of copying a Settings object (duplicate / modified / pickle, + deepcopy and getSetting; ``modified`` with plain values,
with a Setting instance as value and with keys the app does not define).  Shard ``flags`` registers a test plugin that also
contributes ``settings.Option`` and ``settings.Default`` entries (before and after the setting they modify is defined): the
contributed options are admitted and round-trip, non-options stay refused, the new default is what the short style omits and
the old default is what it now writes.  Second generation: the text written from the settings that were read back names the
same keys with the same values as the first text.

Oracles (independent of the reader/writer under test): a dict model {name: canonical(held value)} taken before the
write; the expected key set of each style computed from ``value == default``; an independent safe-YAML parse of the text
the writer produced; type/option rules written from the statement for the near-miss class.
"""
import copy
import io
import json
import math
import os
import pickle
import random
import re

PROP = "C17"
LEVEL = "exploration"
RULE = (
    "per-setting: every setting of the stock App x every value of a typed YAML-hostile pool (+ structured generators for "
    "crossSectionControl, cycles, tightCouplingSettings, option lists, a plugin FlagListSetting, plugin-contributed Options and Defaults), classified by the setting's own "
    "schema into valid (round-tripped, styles short/medium/full) and near-miss (must raise on assignment and on read, old value kept); "
    "subsets: 1-40 settings changed at once (and once: all of them), random style, fresh or already-modified target, second-generation write, "
    "copies (duplicate/pickle/deepcopy/modified with plain values, Setting instances and undefined keys) mutated afterwards. "
    "A case = (setting or subset, canonical held value(s), style); distinct = distinct such tuples; non-trivial = at least one "
    "setting differs from its default or a value is refused."
)
TOLERANCES = {"stored_values": "exact, type-strict (bool/int/float/str/list/dict/None), NaN==NaN, -0.0==0.0, tuple==list, dict order ignored"}
EXHAUSTIVE = {"quick": True, "thorough": True}
EXHAUSTIVE_PART = ("all settings of the stock App: default written explicitly and read back, pristine settings x 3 styles, "
                   "every oldName, every option of every option list, every pool value per setting (values inside each class are sampled); "
                   "shard flags: every Option and Default the test plugin contributes (each option x 3 styles, each old default x 3 styles)")
TIMEOUT = {"quick": 3600, "thorough": 14400}  # watchdog only; sized for a machine shared with ~10 other checks (10x slow-down observed)
ASSUMPTIONS = [
    "the declared schema of a setting (voluptuous object in a pristine getApp().getSettings() definition) is the specification of its valid class",
    "shard 'flags' registers one extra test plugin that contributes two FlagListSettings (the stock App defines none), one setting with a never-expiring, a future and an expired old name, "
    "two enforced-option settings of its own, and settings.Option / settings.Default entries for them and for neutronicsKernel, boundaries, comment, burnSteps, stationaryBlockFlags, buGroups, availabilityFactor "
    "(no stock plugin contributes an Option or a Default); all other shards use the stock App",
    "logging settings (verbosity, branchVerbosity, moduleVerbosity) are only given documented level names because loading applies them to the process logger",
]
FLOORS = {
    "quick": {"setting.enumerated": 120, "roundtrip.compare": 6000, "style.keys": 6000, "reject.assign": 2500, "reject.read": 700,
              "rename": 30, "reject.read-under-old-name": 20, "rename.into-settings-holding-another-value": 24, "copy.equal": 300, "copy.independent": 300, "default.explicit": 120, "subset.case": 120,
              "structured.value": 55, "flaglist.roundtrip": 30,
              "copy.modified-instance": 250, "copy.modified-instance-subclass": 6, "second.generation": 800, "all.changed": 600,
              "plugin.option": 20, "plugin.default": 25, "hook:Setting.addOptions": 2000, "hook:Setting.changeDefault": 4000,
              "hook:SettingsWriter.writeYaml": 6000, "hook:SettingsReader._applySettings": 20000, "hook:Setting.setValue": 20000},
    "thorough": {"setting.enumerated": 120, "roundtrip.compare": 40000, "style.keys": 40000, "reject.assign": 10000, "reject.read": 5000,
                 "rename": 100, "reject.read-under-old-name": 20, "rename.into-settings-holding-another-value": 80, "copy.equal": 4000, "copy.independent": 4000, "default.explicit": 120, "subset.case": 3600,
                 "structured.value": 2000, "flaglist.roundtrip": 500,
                 "copy.modified-instance": 800, "copy.modified-instance-subclass": 6, "second.generation": 8000, "all.changed": 600,
                 "plugin.option": 20, "plugin.default": 25, "hook:Setting.addOptions": 10000, "hook:Setting.changeDefault": 20000,
                 "hook:SettingsWriter.writeYaml": 40000, "hook:SettingsReader._applySettings": 200000, "hook:Setting.setValue": 200000},
}

STYLES = ("short", "medium", "full")
LOG_LEVELS = ["debug", "extra", "info", "important", "prompt", "warning", "error", "header"]
LOGGING_SETTINGS = ("verbosity", "branchVerbosity", "moduleVerbosity")
STRUCTURED = ("crossSectionControl", "cycles", "tightCouplingSettings")


def plan(tier, seed):
    q = tier == "quick"
    n_each, n_sub, per_sub = (12, 2, 120) if q else (16, 6, 1200)
    # longest first (measured shard CPU: flags ~ the heaviest each-shard in the thorough tier, defaults a few seconds)
    shards = [{"name": "flags", "kind": "flags", "n": 60 if q else 2500}]
    for k in range(n_each):
        shards.append({"name": "each-%d" % k, "kind": "each", "k": k, "of": n_each, "nrand": 6 if q else 250, "nstruct": 40 if q else 1500})
    for k in range(n_sub):
        shards.append({"name": "subsets-%d" % k, "kind": "subsets", "n": per_sub})
    shards.append({"name": "defaults", "kind": "defaults"})
    return shards


def run_shard(spec, rec):
    import logging

    from armi.settings import setting, settingsIO
    from vlib import hooks

    logging.disable(logging.CRITICAL)  # armi logs one error line per refused value; refusals are the workload here
    hooks.wrap(settingsIO.SettingsWriter, "writeYaml")
    hooks.wrap(settingsIO.SettingsReader, "_applySettings")
    hooks.wrap(setting.Setting, "setValue")
    hooks.wrap(setting.Setting, "addOptions")
    hooks.wrap(setting.Setting, "changeDefault")
    rng = random.Random(spec["rng"])
    {"defaults": do_defaults, "each": do_each, "subsets": do_subsets, "flags": do_flags}[spec["kind"]](spec, rec, rng)
    import time

    rec.note("cpu_s/%s" % spec["name"], round(time.process_time(), 1))  # observation only (shard balance), never used for a verdict


# ----------------------------------------------------------------------------- canonical form of a held value
def canon(v, depth=0):
    """Type-strict JSON-able normal form.  Documented normalisations only: tuple==list, -0.0==0.0, NaN==NaN, dict order."""
    from armi.physics.neutronics.crossSectionSettings import XSModelingOptions
    from armi.utils.flags import Flag

    if depth > 12:
        return ["deep", repr(v)[:80]]
    if v is None:
        return ["n"]
    if isinstance(v, bool):
        return ["b", bool(v)]
    if isinstance(v, Flag):
        return ["F", int(v)]
    if isinstance(v, int):
        return ["i", int(v)]
    if isinstance(v, float):
        f = float(v)
        if f != f:
            return ["f", "nan"]
        if f == 0.0:
            return ["f", "0.0"]
        return ["f", repr(f)]
    if isinstance(v, str):
        return ["s", str(v)]
    if isinstance(v, (list, tuple)):
        return ["l", [canon(x, depth + 1) for x in v]]
    if isinstance(v, XSModelingOptions):
        return ["xs", canon(dict(v.__dict__), depth + 1)]
    if isinstance(v, dict):
        items = [[canon(k, depth + 1), canon(x, depth + 1)] for k, x in v.items()]
        return ["d", sorted(items, key=lambda kv: json.dumps(kv, sort_keys=True))]
    return ["?", type(v).__name__, repr(v)[:200]]


def uncanon(c):
    """Plain-python value with the same canonical form (compound objects become dicts): input of the YAML-library control."""
    t = c[0]
    if t == "n":
        return None
    if t in ("b", "i", "s", "F"):
        return c[1]
    if t == "f":
        return float(c[1])
    if t == "l":
        return [uncanon(x) for x in c[1]]
    if t == "xs":
        return uncanon(c[1])
    if t == "d":
        out = {}
        for k, x in c[1]:
            kk = uncanon(k)
            out[tuple(kk) if isinstance(kk, list) else kk] = uncanon(x)
        return out
    return c[-1]


_CONTROL_CACHE = {}


def yaml_library_roundtrips(name, value):
    """Control experiment WITHOUT armi: does ruamel.yaml, configured as the settings writer configures it, reproduce this value
    when it is dumped under the same key at the same indentation and loaded again?  False => the YAML library (trusted, not judged
    here) is what loses the value (e.g. U+0085 is a YAML line break and is folded to a space; over-long simple keys and
    double-quoted scalars folded inside an escape sequence are emitted as text that does not parse back to the same scalar)."""
    from ruamel.yaml import YAML

    c = canon(value)
    ck = name + json.dumps(c, sort_keys=True)
    if ck not in _CONTROL_CACHE:
        try:
            plain = uncanon(c)
            y = YAML()
            y.default_flow_style = False
            y.indent(mapping=2, sequence=4, offset=2)
            st = io.StringIO()
            y.dump({"settings": {name: plain}}, st)
            back = YAML(typ="rt").load(io.StringIO(st.getvalue()))["settings"][name]
            _CONTROL_CACHE[ck] = canon(back) == canon(plain)
        except Exception:
            _CONTROL_CACHE[ck] = False
    return _CONTROL_CACHE[ck]


_CONTROL2_CACHE = {}


def yaml_library_regenerates(name, plain):
    """Second-generation control WITHOUT armi: a plain value dumped by ruamel.yaml (configured as the settings writer configures it),
    loaded with the round-trip loader (what the settings reader uses) and dumped again - do both texts parse to the same value?
    False => the YAML library itself drifts (e.g. a round-trip-loaded ScalarFloat such as 7.71497280359484e-13 is re-emitted by
    ruamel.yaml 0.19 as 7.71497280359483e-13: its representer truncates the mantissa to the digits it counted in the source text)."""
    from ruamel.yaml import YAML

    ck = name + json.dumps(canon(plain), sort_keys=True)
    if ck not in _CONTROL2_CACHE:
        try:
            def dump(obj):
                y = YAML()
                y.default_flow_style = False
                y.indent(mapping=2, sequence=4, offset=2)
                st = io.StringIO()
                y.dump(obj, st)
                return st.getvalue()

            t1 = dump({"settings": {name: plain}})
            t2 = dump(YAML(typ="rt").load(io.StringIO(t1)))
            safe = lambda t: YAML(typ="safe", pure=True).load(io.StringIO(t))["settings"][name]
            _CONTROL2_CACHE[ck] = canon(safe(t1)) == canon(safe(t2))
        except Exception:
            _CONTROL2_CACHE[ck] = False
    return _CONTROL2_CACHE[ck]


def yaml_limit(ctx, src, names, label_of):
    """True (and recorded as unjudged) when some involved value is one the YAML library itself does not round-trip."""
    for n in names:
        if not yaml_library_roundtrips(n, held(src, n)):
            ctx.rec.skip("value that ruamel.yaml itself does not round-trip (control experiment without armi); class %s" % label_of.get(n, "?"))
            lst = ctx.rec.notes.setdefault("yaml_library_limit_samples", [])
            if len(lst) < 2:
                lst.append({"setting": n, "class": label_of.get(n, "?"), "held": show(held(src, n))[:160]})
            return True
    return False


def show(v):
    r = repr(v)
    return r if len(r) <= 300 else r[:297] + "..."


def live(cs):
    return dict(cs.items())


def held(cs, name):
    return live(cs)[name].value  # not cs[name]: Settings.__getitem__ refuses simple-cycle keys while `cycles` is set


def snapshot(cs):
    return {n: canon(s.value) for n, s in cs.items()}


def defs():
    """A pristine, separate set of setting definitions: source of the declared schema / default / options."""
    from armi import getApp

    return getApp().getSettings()


def skind(s):
    t = type(s).__name__
    if t != "Setting":
        return t
    return "%s/%s" % (type(s.default).__name__, "custom" if s._customSchema else "options" if (s.options and s.enforcedOptions) else "auto")


def admits(s, v):
    try:
        s.schema(copy.deepcopy(v))
        return True
    except Exception:
        return False


def _parses(fn, v):
    try:
        fn(v)
        return True
    except Exception:
        return False


def must_reject(s, v):
    """Near-miss rules written from the statement ("type, option list"), independent of Setting._setSchema.

    Only for settings without a custom schema, where armi documents "a type check against the default".
    Returns the name of the violated rule or None.
    """
    if s.name == "cycles" and isinstance(v, list):
        # armi's own message states the rule: "Must have exactly one of either 'cumulative days', 'step days', or 'cycle length' + 'burn steps'"
        for c in v:
            if isinstance(c, dict) and sum(["cumulative days" in c, "step days" in c, ("cycle length" in c or "burn steps" in c)]) != 1:
                return "cycle-history-not-exactly-one-form"
        return None
    if type(s).__name__ != "Setting" or s._customSchema:
        return None
    if s.options and s.enforcedOptions:
        try:
            return None if any(v == o and type(v) is type(o) for o in s.options) else "not-an-option"
        except Exception:
            return "not-an-option"
    d = s.default
    scalar = isinstance(v, (bool, int, float))
    if isinstance(d, bool) or isinstance(d, str):
        return None  # bool(x) / str(x) are total
    if isinstance(d, int):
        if v is None or isinstance(v, (list, dict, tuple)) or (isinstance(v, str) and not _parses(int, v)):
            return "not-an-int"
        return None
    if isinstance(d, float):
        if v is None or isinstance(v, (list, dict, tuple)) or (isinstance(v, str) and not _parses(float, v)):
            return "not-a-float"
        return None
    if isinstance(d, list):
        if d:
            return None if isinstance(v, list) else "not-a-list"
        return "not-a-list" if (v is None or scalar) else None
    if isinstance(d, dict):
        return "not-a-dict" if (v is None or scalar) else None
    return None


# ----------------------------------------------------------------------------- value pool
HOSTILE_STRINGS = [
    ("str/empty", ""), ("str/plain", "abc"), ("str/plain", "fuel handler 7"),
    ("str/yaml-null", "null"), ("str/yaml-null", "Null"), ("str/yaml-null", "~"), ("str/yaml-null", "NULL"),
    ("str/yaml-bool", "yes"), ("str/yaml-bool", "no"), ("str/yaml-bool", "on"), ("str/yaml-bool", "off"), ("str/yaml-bool", "true"),
    ("str/yaml-bool", "False"), ("str/yaml-bool", "y"), ("str/yaml-bool", "N"),
    ("str/number-like", "1e3"), ("str/number-like", "1_000"), ("str/number-like", "0x1F"), ("str/number-like", "0o17"), ("str/number-like", ".5"),
    ("str/number-like", "1."), ("str/number-like", ".inf"), ("str/number-like", ".nan"), ("str/number-like", "1"), ("str/number-like", "1.0"),
    ("str/number-like", "-0.0"), ("str/number-like", "+1"), ("str/number-like", "0777"), ("str/number-like", "1e+3"), ("str/number-like", "NaN"),
    ("str/number-like", "inf"), ("str/number-like", "123456789012345678901234567890"), ("str/number-like", "2001-01-01"),
    ("str/number-like", "12:30:45"), ("str/number-like", "1:2"), ("str/number-like", "2001-12-14t21:59:43.10-05:00"),
    ("str/indicator", "-"), ("str/indicator", "?"), ("str/indicator", ": #"), ("str/indicator", "a: b"), ("str/indicator", "a #b"),
    ("str/indicator", "#x"), ("str/indicator", "- x"), ("str/indicator", "[a]"), ("str/indicator", "{a: b}"), ("str/indicator", '"q"'),
    ("str/indicator", "'s'"), ("str/indicator", "it's"), ("str/indicator", "%x"), ("str/indicator", "@x"), ("str/indicator", "`x"),
    ("str/indicator", "!tag"), ("str/indicator", "&anc"), ("str/indicator", "*ali"), ("str/indicator", "|"), ("str/indicator", ">"),
    ("str/indicator", "<<"), ("str/indicator", "="), ("str/indicator", "---"), ("str/indicator", "..."), ("str/indicator", "--- a"),
    ("str/indicator", "a\\b"), ("str/indicator", "C:\\path\\f.yaml"), ("str/indicator", "k: v\nk2: v2"), ("str/indicator", "a, b"),
    ("str/space-edge", " lead"), ("str/space-edge", "trail "), ("str/space-edge", "  "), ("str/space-edge", "\t"), ("str/space-edge", "a\tb"),
    ("str/space-edge", " \n "),
    ("str/multiline", "multi\nline"), ("str/multiline", "line\n"), ("str/multiline", "\n"), ("str/multiline", "a\r\nb"),
    ("str/multiline", "trailing\n\n"), ("str/multiline", "\n\nlead"), ("str/multiline", "  two\n  indented\n"), ("str/multiline", "a\rb"),
    ("str/unicode", "\u00fcn\u00efc\u00f8d\u00e9 \u2622"), ("str/unicode", "\u65e5\u672c\u8a9e"), ("str/unicode", "\u2028"), ("str/unicode", "\U0001F600"),
    ("str/unicode", "a\u00a0b"), ("str/unicode", "\ufeffbom"), ("str/unicode", "\u0085"),
    ("str/control", "\x07"), ("str/control", "\x00"), ("str/control", "\x1b[0m"), ("str/control", "a\x7fb"),
    ("str/long", "x" * 200), ("str/long", " ".join("word%d" % i for i in range(60))), ("str/long", "a" * 79 + " b"),
    ("str/long", ("lorem ipsum " * 30).strip()),
    ("str/path", "/abs/path/to/file.yaml"), ("str/path", "./rel/x.h5"), ("str/path", "~/home"), ("str/path", "dir with space/f.txt"),
]


def base_pool():
    """Fresh objects on every call (no aliasing between cases): list of (class label, value)."""
    p = [
        ("int/zero", 0), ("int/small", 1), ("int/small", 2), ("int/small", 7), ("int/neg", -1), ("int/neg", -5), ("int/small", 255),
        ("int/large", 2 ** 31), ("int/large", 2 ** 63), ("int/large", 10 ** 30), ("int/neg", -(10 ** 18)),
        ("float/zero", 0.0), ("float/negzero", -0.0), ("float/plain", 1.0), ("float/plain", 0.5), ("float/neg", -2.5), ("float/tiny", 1e-300),
        ("float/huge", 1e300), ("float/tiny", 5e-324), ("float/huge", 1.7976931348623157e308), ("float/plain", 1e22), ("float/plain", 1e16),
        ("float/plain", 0.1 + 0.2), ("float/plain", 1.0 / 3.0), ("float/neg", -1e-7), ("float/plain", 123456789.123456789),
        ("float/plain", 0.045), ("float/plain", 100.0), ("float/plain", 1e-5),
        ("float/inf", float("inf")), ("float/inf", float("-inf")), ("float/nan", float("nan")),
        ("bool", True), ("bool", False), ("none", None),
    ]
    p += list(HOSTILE_STRINGS)
    p += [
        ("list/empty", []), ("list/ints", [1]), ("list/ints", [1, 2, 3]), ("list/ints", [3, 2, 1]), ("list/ints", [0]), ("list/ints", [-1, 5]),
        ("list/floats", [0.5, 1e-300, 1e300]), ("list/floats", [0.0, -0.0]), ("list/floats", [0.1, 0.25, 0.65]), ("list/floats", [float("nan")]),
        ("list/strs", ["a", "b"]), ("list/strs", ["null", "yes", "1e3", ": #"]), ("list/strs", [" lead", "trail ", "multi\nline", ""]),
        ("list/strs", ["FUEL", "grid plate"]), ("list/strs", ["3*10", "2.5"]), ("list/strs", ["x" * 120, "y" * 3]),
        ("list/mixed", [1, "a", None, 2.5, True]), ("list/mixed", [True, False]), ("list/mixed", [None]), ("list/mixed", ["1", 1, 1.0]),
        ("list/nested", [[1, 2], [3]]), ("list/nested", [[]]), ("list/nested", [[["deep"]], []]), ("list/nested", [["a", 1.5], ["b", 2]]),
        ("list/dicts", [{}]), ("list/dicts", [{"a": 1}]), ("list/dicts", [{"a": [1, 2]}, {"b": {"c": None}}]),
        ("tuple", (1, 2)), ("tuple", ("a",)), ("tuple", ()), ("list/tuples", [(1, 2), ("a", "b")]),
        ("dict/empty", {}), ("dict/str-keys", {"a": 1}), ("dict/str-keys", {"a": "b", "c": "d"}), ("dict/str-keys", {"null": "yes", "1e3": "~"}),
        ("dict/str-keys", {"a b": " c "}), ("dict/str-keys", {"armi.settings": "debug"}), ("dict/str-keys", {"x": "1.2.3"}),
        ("dict/nested", {"a": {"b": [1, 2]}}), ("dict/nested", {"a": {}, "b": []}),
        ("dict/nonstr-keys", {1: 2}), ("dict/nonstr-keys", {True: 1}), ("dict/nonstr-keys", {1.5: "x"}), ("dict/nonstr-keys", {None: 1}),
        ("dict/long-key", {"k" * 70 + " " + "k" * 20: 1}), ("dict/long-key", {"m" * 150: "v"}),
    ]
    return p


ALPHA = "ABCDEFGHIJKLMNOPQRSTUVWXYZ"


def rand_str(rng):
    if rng.random() < 0.6:
        return rng.choice(HOSTILE_STRINGS)[1]
    n = rng.randint(1, 30)
    return "".join(rng.choice("abcXYZ 019_-.:#'\"\n\u00e9,[]{}&*!|>%@`\\/") for _ in range(n))


def rand_scalar(rng):
    r = rng.random()
    if r < 0.25:
        return rng.choice([0, 1, -1, rng.randint(-10 ** 6, 10 ** 6), rng.randint(-10 ** 20, 10 ** 20)])
    if r < 0.5:
        return rng.choice([0.0, -0.0, rng.random(), rng.uniform(-1e3, 1e3), 10.0 ** rng.randint(-300, 300), -(10.0 ** rng.randint(-300, 300)),
                           rng.random() * 10.0 ** rng.randint(-20, 20)])
    if r < 0.6:
        return rng.choice([True, False, None])
    return rand_str(rng)


def rand_value(rng, depth=0):
    r = rng.random()
    if depth >= 3 or r < 0.45:
        return rand_scalar(rng)
    if r < 0.8:
        return [rand_value(rng, depth + 1) for _ in range(rng.randint(0, 4))]
    return {(rand_str(rng) if rng.random() < 0.85 else rng.randint(0, 9)): rand_value(rng, depth + 1) for _ in range(rng.randint(0, 3))}


def rand_labelled(rng):
    v = rand_value(rng)
    t = "list" if isinstance(v, list) else "dict" if isinstance(v, dict) else "none" if v is None else type(v).__name__
    return ("random/" + t, v)


# ----------------------------------------------------------------------------- structured generators
def xs_spec():
    from armi.physics.neutronics.crossSectionGroupManager import BLOCK_COLLECTIONS

    return {"geoms": ["0D", "1D slab", "1D cylinder", "2D hex"], "reps": sorted(BLOCK_COLLECTIONS.keys())}


def gen_xs_id(rng):
    r = rng.random()
    if r < 0.7:
        return rng.choice(ALPHA) + rng.choice(ALPHA)
    if r < 0.8:
        return rng.choice(ALPHA)
    return rng.choice(["no", "on", "y", "N", "~", "1", "12", "1e", "0x", "aa", "zZ", ": ", "# ", "- ", "''", "\u00e9A", " A", "A "])


def gen_xs_opts(rng, spec):
    o = {}
    if rng.random() < 0.8:
        o["geometry"] = rng.choice(spec["geoms"])
    else:
        o["xsFileLocation"] = [rand_str(rng) for _ in range(rng.randint(1, 3))]
    num = lambda lo, hi: rng.choice([rng.randint(lo, hi), float(rng.randint(lo, hi)), str(rng.randint(lo, hi)), rng.uniform(lo, hi)])
    opt = {
        "blockRepresentation": lambda: rng.choice(spec["reps"]),
        "driverID": lambda: rng.choice([gen_xs_id(rng), ""]),
        "criticalBuckling": lambda: rng.random() < 0.5,
        "nuclideReactionDriver": lambda: rng.choice(["U235", "PU239", rand_str(rng)]),
        "validBlockTypes": lambda: [rand_str(rng) for _ in range(rng.randint(0, 3))],
        "useHomogenizedBlockComposition": lambda: rng.random() < 0.5,
        "externalDriver": lambda: rng.random() < 0.5,
        "numInternalRings": lambda: rng.choice([rng.randint(0, 9), str(rng.randint(0, 9)), float(rng.randint(0, 9))]),
        "numExternalRings": lambda: rng.choice([rng.randint(0, 9), str(rng.randint(0, 9))]),
        "mergeIntoClad": lambda: [rand_str(rng) for _ in range(rng.randint(0, 2))],
        "mergeIntoFuel": lambda: [rand_str(rng) for _ in range(rng.randint(0, 2))],
        "fluxFileLocation": lambda: rand_str(rng),
        "meshSubdivisionsPerCm": lambda: num(0, 50),
        "xsExecuteExclusive": lambda: rng.random() < 0.5,
        "xsPriority": lambda: num(0, 20),
        "xsMaxAtomNumber": lambda: rng.choice([rng.randint(1, 120), str(rng.randint(1, 120))]),
        "minDriverDensity": lambda: rng.choice([0.0, 1e-300, rng.random() * 1e-5, 0]),
        "averageByComponent": lambda: rng.random() < 0.5,
        "ductHeterogeneous": lambda: rng.random() < 0.5,
        "traceIsotopeThreshold": lambda: rng.choice([0.0, 1e-12, rng.random()]),
        "xsTempIsotope": lambda: rng.choice(["U238", "", rand_str(rng)]),
    }
    for k, f in opt.items():
        if rng.random() < 0.3:
            o[k] = f()
    return o


def gen_xs(rng, spec):
    return {gen_xs_id(rng): gen_xs_opts(rng, spec) for _ in range(rng.choice([0, 1, 1, 2, 3, 5]))}


def gen_xs_bad(rng, spec):
    v = gen_xs(rng, spec) or {"AA": {"geometry": "0D"}}
    k = rng.choice(sorted(v, key=repr))
    r = rng.randint(0, 8)
    if r == 0:
        v["ABC"] = v.pop(k)
    elif r == 1:
        v[k]["notAnOption"] = 1
    elif r == 2:
        v[k] = {"geometry": "3D"}
    elif r == 3:
        v[k]["criticalBuckling"] = "yes"
    elif r == 4:
        v[k] = {"driverID": "AA"}  # neither geometry nor file location
    elif r == 5:
        v[k]["blockRepresentation"] = "Mean"
    elif r == 6:
        v[k]["validBlockTypes"] = "fuel"
    elif r == 7:
        v[k]["numInternalRings"] = "three"
    else:
        v = [v]
    return v


def gen_cycle(rng):
    c = {}
    if rng.random() < 0.7:
        c["name"] = rand_str(rng)
    mode = rng.randint(0, 2)
    if mode == 0:
        t, days = 0.0, []
        for _ in range(rng.randint(1, 6)):
            t += rng.choice([1, 0.5, rng.random() * 100 + 1e-3, rng.randint(1, 400)])
            days.append(int(t) if (float(t).is_integer() and rng.random() < 0.5) else t)
        c["cumulative days"] = days
    elif mode == 1:
        c["step days"] = [rng.choice([rng.randint(1, 50), rng.random() * 30, "%d*%d" % (rng.randint(1, 5), rng.randint(1, 30)), "7.5"]) for _ in range(rng.randint(1, 5))]
    else:
        if rng.random() < 0.8:
            c["cycle length"] = rng.choice([0, 0.0, 365.25, rng.random() * 500, rng.randint(1, 900), "180"])
        if rng.random() < 0.8 or "cycle length" not in c:
            c["burn steps"] = rng.choice([0, 1, rng.randint(0, 30), "4", 3.0])
    if rng.random() < 0.5:
        c["power fractions"] = [rng.choice([1, 0.5, rng.random(), "3*0.5", "1.0"]) for _ in range(rng.randint(1, 5))]
    if rng.random() < 0.5:
        c["availability factor"] = rng.choice([0, 1, 0.0, 1.0, rng.random(), "0.9"])
    return c


def gen_cycles(rng):
    return [gen_cycle(rng) for _ in range(rng.choice([0, 1, 1, 2, 3, 6]))]


def gen_cycles_bad(rng):
    v = gen_cycles(rng) or [gen_cycle(rng)]
    c = rng.choice(v)
    r = rng.randint(0, 9)
    if r == 0:
        c["cumulative days"] = [1, 2]
        c["step days"] = [1]
    elif r == 8:  # all three ways of giving the cycle history at once
        c["cumulative days"] = [10, 20, 30]
        c["step days"] = [10, "2R"]
        c["cycle length"] = 30.0
        c["burn steps"] = 3
    elif r == 9:  # two of the three
        for k in ("step days", "cumulative days", "cycle length", "burn steps"):
            c.pop(k, None)
        a_, b_ = rng.sample([("cumulative days", [1, 2, 3]), ("step days", [1, 1]), ("cycle length", 30.0)], 2)
        c[a_[0]], c[b_[0]] = a_[1], b_[1]
        if "cycle length" in c:
            c["burn steps"] = 2
    elif r == 1:
        for k in ("step days", "cycle length", "burn steps"):
            c.pop(k, None)
        c["cumulative days"] = [5, 3, 9]
    elif r == 2:
        c["availability factor"] = 1.5
    elif r == 3:
        c["unknown key"] = 1
    elif r == 4:
        for k in ("step days", "cumulative days"):
            c.pop(k, None)
        c["burn steps"] = -1
    elif r == 5:
        for k in ("step days", "cumulative days", "cycle length", "burn steps"):
            c.pop(k, None)
    elif r == 6:
        c["name"] = 5
    else:
        v = {"cycles": v}
    return v


def gen_tc(rng):
    return {rng.choice(["globalFlux", "thermalHydraulics", "fuelPerformance", rand_str(rng)]):
            {"parameter": rng.choice(["keff", "power", rand_str(rng)]), "convergence": rng.choice([1e-5, 1, "1e-3", rng.random(), 1e-300])}
            for _ in range(rng.choice([0, 1, 1, 2, 3]))}


def gen_tc_bad(rng):
    v = gen_tc(rng) or {"globalFlux": {"parameter": "keff", "convergence": 1e-5}}
    k = rng.choice(sorted(v, key=repr))
    r = rng.randint(0, 4)
    if r == 0:
        v[k] = {"parameter": "keff"}
    elif r == 1:
        v[k]["extra"] = 1
    elif r == 2:
        v[k]["convergence"] = "tight"
    elif r == 3:
        v[k]["parameter"] = 7
    else:
        v = ["globalFlux"]
    return v


def gen_module_verbosity(rng):
    return {rng.choice(["armi.settings", "armi.reactor.reactors", "c17.some.module", "armi"]): rng.choice(LOG_LEVELS + ["10", "20", "45"])
            for _ in range(rng.choice([0, 1, 2, 3]))}


def structured_values(name, rng, n):
    """[(label, value)] from the structured generators; validity is decided by the schema afterwards."""
    out = []
    if name == "crossSectionControl":
        spec = xs_spec()
        for _ in range(n):
            out.append(("xs/generated", gen_xs(rng, spec)))
            out.append(("xs/near-miss", gen_xs_bad(rng, spec)))
    elif name == "cycles":
        for _ in range(n):
            out.append(("cycles/generated", gen_cycles(rng)))
            out.append(("cycles/near-miss", gen_cycles_bad(rng)))
    elif name == "tightCouplingSettings":
        for _ in range(n):
            out.append(("tc/generated", gen_tc(rng)))
            out.append(("tc/near-miss", gen_tc_bad(rng)))
    return out


def in_domain(name, v):
    """Domain restriction: logging settings are applied to the process logger by loadFromString (documented level names only)."""
    if name in ("verbosity", "branchVerbosity"):
        return isinstance(v, str) and v in LOG_LEVELS
    if name == "moduleVerbosity":
        return isinstance(v, dict) and all(isinstance(k, str) and k and isinstance(x, str) and (x in LOG_LEVELS or x.isnumeric()) for k, x in v.items())
    return True


def candidates(name, s, rng, nrand, nstruct):
    c = base_pool()
    if s.options:
        for o in list(s.options):
            c.append(("option", o))
            if isinstance(o, str) and o:
                c += [("option-variant", o.lower()), ("option-variant", o.upper()), ("option-variant", o + " "), ("option-variant", " " + o),
                      ("option-variant", o[:-1]), ("option-variant", [o])]
    if name in ("verbosity", "branchVerbosity"):
        c += [("log-level", x) for x in LOG_LEVELS]
    if name == "moduleVerbosity":
        c += [("log-levels", gen_module_verbosity(rng)) for _ in range(8)]
    c += near_default_values(s.default)
    c += structured_values(name, rng, nstruct)
    c += [rand_labelled(rng) for _ in range(nrand)]
    return c


def near_default_values(d):
    """Values that differ from the default by as little as the type allows: "differs from the default" must stay exact (a
    tolerance, a case fold or a prefix test in the default detection would drop them from the short style)."""
    import math

    out = []
    if isinstance(d, bool) or d is None:
        return out
    if isinstance(d, float) and math.isfinite(d):
        out += [math.nextafter(d, math.inf), math.nextafter(d, -math.inf)]
        if d:
            out += [d * (1 + 1e-10), d * (1 - 1e-12), d * (1 + 1e-7), -d]
        else:
            out += [5e-324, 1e-12]
    elif isinstance(d, int):
        out += [d + 1, d - 1] + ([-d] if d else [])
    elif isinstance(d, str):
        out += [d + " ", d + "x", d[:-1], d.swapcase(), d.upper(), d.lower()]
    elif isinstance(d, (list, tuple)):
        d = list(d)
        out += [d + d[-1:], d[:-1], d[::-1], [copy.deepcopy(d)]] if d else [[d]]
        if d and all(isinstance(x, float) for x in d):
            out.append([math.nextafter(x, math.inf) for x in d])
    return [("near-default", v) for v in out if not _eq_default(v, d)]


# ----------------------------------------------------------------------------- the round trip and its oracles
def _eq_default(value, default):
    try:
        return bool(value == default)
    except Exception:
        return False


def yaml_settings(text):
    """Independent parse of the text the writer produced: {setting key: plain value}, or None when the text is not valid YAML."""
    from ruamel.yaml import YAML

    try:
        doc = YAML(typ="safe", pure=True).load(io.StringIO(text))
        return dict(doc["settings"])
    except Exception:
        return None


def yaml_keys(text):
    """Set of setting keys in the written text (independent parse), or None when the text is not valid YAML."""
    doc = yaml_settings(text)
    return None if doc is None else set(doc.keys())


def quiet_load(cs, text):
    from armi import runLog

    try:
        return cs.loadFromString(text)
    finally:
        runLog.setVerbosity("error")


def write(cs, style, setByUser=()):
    st = io.StringIO()
    cs.writeToYamlStream(st, style, list(setByUser))
    return st.getvalue()


class Ctx:
    """Per-shard state: pristine definitions, names, lazily probed set of settings whose explicit default is unreadable."""

    def __init__(self, rec):
        self.rec = rec
        self.D = defs()
        self.names = sorted(self.D)
        self._unreadable = None
        self._valid_cache = {}

    def first_valid(self, name):
        """A schema-admitted, non-default value for `name` (used for steering only)."""
        if name not in self._valid_cache:
            s = self.D[name]
            pick = None
            for lab, v in base_pool():
                if in_domain(name, v) and admits(s, v) and must_reject(s, v) is None:
                    try:
                        out = s.schema(copy.deepcopy(v))
                    except Exception:
                        continue
                    if not _eq_default(out, s.default):
                        pick = (lab, v)
                        break
            self._valid_cache[name] = pick
        p = self._valid_cache[name]
        return None if p is None else (p[0], copy.deepcopy(p[1]))

    def nth_valid(self, name, k):
        """The k-th (cyclically) distinct schema-admitted, non-default pool value for `name`: (label, value) or None."""
        key = ("nth", name)
        if key not in self._valid_cache:
            s = self.D[name]
            vals, seen = [], set()
            for lab, v in base_pool():
                if in_domain(name, v) and admits(s, v) and must_reject(s, v) is None:
                    try:
                        out = s.schema(copy.deepcopy(v))
                    except Exception:
                        continue
                    h = json.dumps(canon(out), sort_keys=True)
                    if not _eq_default(out, s.default) and h not in seen:
                        seen.add(h)
                        vals.append((lab, v))
                    if len(vals) >= 8:
                        break
            self._valid_cache[key] = vals
        vals = self._valid_cache[key]
        if not vals:
            return None
        lab, v = vals[k % len(vals)]
        return lab, copy.deepcopy(v)

    def unreadable_defaults(self, report=False):
        """Settings whose default, written explicitly by the real writer (medium style, listed as set by user), the real reader refuses.

        Observed through the round trip itself.  report=True (shard 'defaults') turns each into a verdict.
        """
        from armi import settings

        if self._unreadable is not None and not report:
            return self._unreadable
        bad = {}
        for n in self.names:
            src = settings.Settings()
            want = snapshot(src)
            try:
                text = write(src, "medium", [n])
            except Exception as e:
                if report:
                    self.rec.crash("write/medium/explicit-default", e, {"setting": n})
                continue
            tgt = settings.Settings()
            try:
                quiet_load(tgt, text)
            except Exception as e:
                bad[n] = "%s: %s" % (type(e).__name__, str(e)[:200])
                if report:
                    self.rec.hit("default.explicit")
                    self.rec.case(["default-explicit", n], nontrivial=True)
                    self.rec.violation(
                        "roundtrip/full-style/default-fails-own-schema/%s" % n,
                        "setting %s: its own default %r, once written explicitly (styles full / medium), is refused by the reader: %s; "
                        "untouched settings written with style='full' therefore cannot be read back" % (n, self.D[n].default, bad[n]),
                        {"setting": n, "default": show(self.D[n].default), "schema": show(self.D[n].schema), "text": text[:400], "error": bad[n]})
                continue
            if report:
                self.rec.hit("default.explicit")
                keys = yaml_keys(text)
                if keys is not None and keys != {n, "versions"}:
                    self.rec.violation("style/medium/explicit-default-keys", "medium style with settingsSetByUser=[%r] wrote keys %s" % (n, sorted(keys)), {"setting": n})
                got = snapshot(tgt)
                diff = [k for k in self.names if k != "versions" and got[k] != want[k]]
                if diff:
                    self.rec.violation("roundtrip/default-not-default/%s" % skind(self.D[diff[0]]),
                                       "default of %s written explicitly and read back: %s no longer default (%s)" % (n, diff, show(held(tgt, diff[0]))),
                                       {"setting": n, "changed": diff, "text": text[:400]})
                self.rec.case(["default-explicit", n], nontrivial=True, sample={"setting": n, "default": show(self.D[n].default), "text": text[:200]} if n in ("buGroups", "beta") else None)
        self._unreadable = bad
        return bad


def expected_keys(ctx, src, style, setByUser):
    nondef = {n for n, s in src.items() if not _eq_default(s.value, ctx.D[n].default)}
    if style == "short":
        exp = set(nondef)
    elif style == "medium":
        exp = nondef | (set(setByUser) & set(ctx.names))
    else:
        exp = set(live(src).keys())
    return exp | {"versions"}, nondef


def roundtrip(ctx, src, style, setByUser, changed, where, tgt=None, allnames=None, gen2=False):
    """Write `src` with the real writer, read with the real reader, compare every setting with the dict model.

    changed: {name: value-class label} of the settings the case assigned (for mechanism keys).
    gen2: when the first generation came back exactly (fresh target, no difference of any kind), write the loaded settings again
    with the same style: the second text has to name the same keys with the same values (independent parse of both texts).
    Returns the loaded Settings or None.
    """
    from armi import settings

    rec = ctx.rec
    names = allnames or ctx.names
    want = snapshot(src)
    wit = {"style": style, "where": where, "changed": {n: {"class": lab, "held": show(held(src, n))} for n, lab in list(changed.items())[:12]}}
    if style == "medium":
        wit["settingsSetByUser"] = sorted(setByUser)[:20]

    def mech(n):
        return "%s/%s" % (skind(ctx.D[n]) if n in ctx.D else "plugin", changed.get(n, "default"))

    try:
        text = write(src, style, setByUser)
    except Exception as e:
        if yaml_limit(ctx, src, list(changed), changed):
            return None
        culprit = _attribute(ctx, src, changed, "write")
        key = "roundtrip/write-raises/%s/%s" % (type(e).__name__, mech(culprit) if culprit else "combination")
        rec.violation(key, "writeToYamlStream(style=%r) raised %s: %s" % (style, type(e).__name__, str(e)[:300]), dict(wit, culprit=culprit))
        return None
    # --- which keys were written (independent parse) vs which the style promises
    exp, nondef = expected_keys(ctx, src, style, setByUser)
    doc1 = yaml_settings(text)
    keys = None if doc1 is None else set(doc1.keys())
    fresh_target = tgt is None
    nviol0 = sum(rec.viol_count.values())
    exact = True
    if keys is not None:
        rec.hit("style.keys")
        for n in sorted(exp - keys):
            k = "omits-nondefault" if n in nondef else "omits-user-set" if style == "medium" else "omits-setting"
            rec.violation("style/%s/%s" % (style, k), "style %r did not write %s (held %s, default %s)" % (style, n, show(held(src, n)), show(ctx.D[n].default) if n in ctx.D else "?"),
                          dict(wit, setting=n))
        for n in sorted(keys - exp, key=repr):
            k = "writes-default" if n in want else "writes-unknown-key"
            rec.violation("style/%s/%s" % (style, k), "style %r wrote %r although it is at its default / not requested" % (style, n), dict(wit, setting=n, text=text[:400]))
    # --- read back
    tgt = tgt if tgt is not None else settings.Settings()
    before = snapshot(tgt)
    try:
        reader = quiet_load(tgt, text)
    except Exception as e:
        if yaml_limit(ctx, src, list(changed), changed):
            return None
        culprit = _attribute(ctx, src, changed, "read")
        key = "roundtrip/read-raises/%s/%s" % (type(e).__name__, mech(culprit) if culprit else ("unparsable-text" if keys is None else "combination"))
        rec.violation(key, "%s-style text written by armi cannot be read back: %s: %s" % (style, type(e).__name__, str(e)[:300]),
                      dict(wit, culprit=culprit, text=text[:600]))
        return None
    rec.hit("roundtrip.compare")
    if reader.invalidSettings:
        rec.violation("roundtrip/reader-calls-written-key-invalid", "reader flagged %s as invalid settings in armi-written text" % sorted(reader.invalidSettings), wit)
    written = exp if keys is None else (keys & set(names)) | {"versions"}
    got = snapshot(tgt)
    for n in names:
        if n == "versions":
            continue
        expect = want[n] if n in written else before[n]
        if got[n] != expect:
            exact = False
            if n in changed and yaml_limit(ctx, src, [n], changed):
                continue
            if n in changed:
                key = "roundtrip/value-changed/%s" % mech(n)
                msg = "%s: held %s before write, %s after %s-style write/read" % (n, show(held(src, n)), show(held(tgt, n)), style)
            else:
                key = "roundtrip/default-not-default/%s" % (skind(ctx.D[n]) if n in ctx.D else "plugin")
                msg = "%s was not touched (value %s) but reads back as %s after %s-style write/read" % (n, show(held(src, n)), show(held(tgt, n)), style)
            rec.violation(key, msg, dict(wit, setting=n, text=text[:600]))
    # versions: the writer stamps {'armi': version}; documented normalisation = superset of what was set (key 'armi' excluded)
    wv, gv = want["versions"], got["versions"]
    if wv[0] == "d" and gv[0] == "d":
        gitems = {json.dumps(k, sort_keys=True): v for k, v in gv[1]}
        lost = [k for k, v in wv[1] if k != ["s", "armi"] and gitems.get(json.dumps(k, sort_keys=True)) != v]
        if lost and not yaml_limit(ctx, src, ["versions"], changed):
            rec.violation("roundtrip/versions-lost/%s" % changed.get("versions", "default"), "versions entries %s set before the write are missing/changed afterwards: %s" % (lost, show(held(tgt, "versions"))), wit)
        if not any(k == ["s", "armi"] for k, _v in gv[1]):
            rec.violation("roundtrip/versions-not-stamped", "versions read back without the 'armi' stamp", wit)
    else:
        rec.violation("roundtrip/versions-lost/not-a-dict", "versions is %s after the round trip" % show(held(tgt, "versions")), wit)
    if gen2 and fresh_target and exact and doc1 is not None and sum(rec.viol_count.values()) == nviol0:
        second_generation(ctx, tgt, style, setByUser, doc1, changed, wit, mech)
    return tgt


def second_generation(ctx, loaded, style, setByUser, doc1, changed, wit, mech):
    """write -> read -> write: the settings that were read back equal the ones written (just established by the caller), so the text
    written from them (same style, same settingsSetByUser) must name the same keys with the same values as the first text."""
    rec = ctx.rec
    try:
        text2 = write(loaded, style, setByUser)
    except Exception as e:
        rec.violation("roundtrip/second-generation/write-raises/%s" % type(e).__name__,
                      "settings read back from armi-written %s-style text cannot be written again: %s: %s" % (style, type(e).__name__, str(e)[:300]), wit)
        return
    doc2 = yaml_settings(text2)
    if doc2 is None:
        rec.violation("roundtrip/second-generation/unparsable-text", "second-generation %s-style text is not valid YAML although the first one was" % style, dict(wit, text=text2[:600]))
        return
    rec.hit("second.generation")
    k1, k2 = set(doc1), set(doc2)
    if k1 != k2:
        rec.violation("roundtrip/second-generation/keys-differ/%s" % style,
                      "write/read/write with style %r: second text lacks %s and adds %s" % (style, sorted(k1 - k2, key=repr)[:10], sorted(k2 - k1, key=repr)[:10]), wit)
    for n in sorted(k1 & k2, key=repr):
        if canon(doc1[n]) != canon(doc2[n]):
            if not yaml_library_regenerates(n, doc1[n]):
                rec.skip("second generation: value that ruamel.yaml itself re-emits differently after a round-trip load (control experiment without armi); class %s" % changed.get(n, "default"))
                lst = rec.notes.setdefault("yaml_library_second_generation_drift_samples", [])
                if len(lst) < 2:
                    lst.append({"setting": n, "first": show(doc1[n])[:200], "second": show(doc2[n])[:200]})
                continue
            rec.violation("roundtrip/second-generation/value-differs/%s" % (mech(n) if n in ctx.D else "unknown-key"),
                          "write/read/write with style %r: %s is written as %s the first time and as %s the second time" % (style, n, show(doc1[n]), show(doc2[n])), dict(wit, setting=n))


def _attribute(ctx, src, changed, phase):
    """Which single changed setting reproduces a write/read failure on its own (short style, fresh settings)?"""
    from armi import settings

    if len(changed) == 1:
        return next(iter(changed))
    for n in changed:
        cs = settings.Settings()
        try:
            cs[n] = copy.deepcopy(held(src, n))
        except Exception:
            continue
        try:
            text = write(cs, "short")
        except Exception:
            if phase == "write":
                return n
            continue
        if phase == "read":
            try:
                quiet_load(settings.Settings(), text)
            except Exception:
                return n
    return None


def apply_workaround(ctx, src, changed, style, setByUser):
    """Full/medium text contains explicit defaults; pre-assign the ones observed to be unreadable so the rest of the case is judged."""
    bad = ctx.unreadable_defaults()
    for n in bad:
        if n in changed:
            continue
        if style == "full" or (style == "medium" and n in setByUser):
            fv = ctx.first_valid(n)
            if fv is None:
                continue
            src[n] = fv[1]
            changed[n] = "workaround"
            ctx.rec.skip("default of %s not exercised in this %s-style case: its explicit default is unreadable (reported by shard 'defaults')" % (n, style))


# ----------------------------------------------------------------------------- rejection
def yaml_doc(name, value):
    """Harness-written settings file holding one key (the near-miss value); returns (text, value as an independent parser sees it)."""
    from ruamel.yaml import YAML

    st = io.StringIO()
    y = YAML()
    y.default_flow_style = False
    y.dump({"settings": {name: value}}, st)
    text = st.getvalue()
    parsed = YAML(typ="safe", pure=True).load(io.StringIO(text))["settings"][name]
    return text, parsed


def check_reject_assign(ctx, cs, name, label, bad, rule, how="cs[name]=v"):
    """cs[name] = bad must raise and keep the previous value."""
    rec = ctx.rec
    s = ctx.D[name]
    before = canon(held(cs, name))
    prev = show(held(cs, name))
    rec.hit("reject.assign")
    try:
        cs[name] = copy.deepcopy(bad)
    except Exception:
        after = canon(held(cs, name))
        if after != before:
            rec.violation("reject/old-value-lost/assign/%s" % skind(s), "%s = %s was refused but the previous value %s is now %s" % (name, show(bad), prev, show(held(cs, name))),
                          {"setting": name, "class": label, "bad": show(bad), "previous": prev})
        rec.reject("near-miss refused on assignment")
        return True
    rec.violation("reject/accepted-invalid/assign/%s" % skind(s),
                  "%s = %s (%s) was accepted: now holds %s; %s" % (name, show(bad), label, show(held(cs, name)), "rule: " + rule if rule else "its declared schema refuses this value"),
                  {"setting": name, "class": label, "bad": show(bad), "schema": show(s.schema), "how": how})
    return False


def check_reject_read(ctx, cs, name, label, bad, key=None):
    """A settings file holding `bad` for `name` (written under `key`, an old name of the setting, when given) must make the reader
    raise and keep the previous value."""
    rec = ctx.rec
    s = ctx.D[name]
    try:
        text, parsed = yaml_doc(key or name, bad)
    except Exception:
        rec.skip("near-miss value not expressible in YAML by the harness")
        return
    if admits(s, parsed) and must_reject(s, parsed) is None:
        rec.skip("near-miss becomes schema-admitted once it went through YAML (e.g. tuple -> list)")
        return
    before = canon(held(cs, name))
    prev = show(held(cs, name))
    rec.hit("reject.read" if key is None else "reject.read-under-old-name")
    try:
        quiet_load(cs, text)
    except Exception:
        if canon(held(cs, name)) != before:
            rec.violation("reject/old-value-lost/read/%s" % skind(s), "reading %s: %s was refused but the previous value %s is now %s" % (name, show(bad), prev, show(held(cs, name))),
                          {"setting": name, "class": label, "text": text[:300]})
        rec.reject("near-miss refused on read")
        return
    if canon(held(cs, name)) != before:
        rec.violation("reject/accepted-invalid/read/%s" % skind(s), "reading a file with %s: %s (%s) was accepted: now holds %s" % (name, show(bad), label, show(held(cs, name))),
                      {"setting": name, "class": label, "text": text[:300], "schema": show(s.schema)})
    else:
        rec.violation("reject/read-no-error/%s%s" % (skind(s), "/under-old-name" if key else ""), "reading a file with the invalid %s: %s raised nothing (value silently ignored)" % (key or name, show(bad)),
                      {"setting": name, "class": label, "text": text[:300]})


# ----------------------------------------------------------------------------- copies
def mutate_inplace(v, rng, depth=0):
    """In-place edit of a held container (what user code may do with cs[name] of its own copy). True if something was edited."""
    from armi.physics.neutronics.crossSectionSettings import XSModelingOptions

    if isinstance(v, XSModelingOptions):
        v.driverID = "c17-mutated"
        v.validBlockTypes = ["c17"]
        return True
    if isinstance(v, list):
        inner = [x for x in v if isinstance(x, (list, dict, XSModelingOptions))]
        if inner and depth < 3 and rng.random() < 0.6:
            if mutate_inplace(rng.choice(inner), rng, depth + 1):
                return True
        v.append("c17-mutated")
        return True
    if isinstance(v, dict):
        inner = [x for x in v.values() if isinstance(x, (list, dict, XSModelingOptions))]
        if inner and depth < 3 and rng.random() < 0.6:
            if mutate_inplace(rng.choice(inner), rng, depth + 1):
                return True
        v["c17-mutated"] = {"parameter": "x", "convergence": 1.0}
        return True
    return False


def check_copies(ctx, src, rng, changed, pick_valid, pick_invalid, where, instance=True):
    """duplicate / modified / pickle / deepcopy: equal values, schemas alive, and no aliasing in either direction."""
    from armi import settings

    rec = ctx.rec
    want = snapshot(src)
    wit = {"where": where, "changed": {n: show(held(src, n)) for n in list(changed)[:10]}}
    new = {}
    for _ in range(rng.randint(1, 5)):
        pv = pick_valid(rng)
        if pv:
            new[pv[0]] = pv[2]
    want_mod = dict(want)
    for n, v in new.items():
        ref = settings.Settings()
        try:
            ref[n] = copy.deepcopy(v)
            want_mod[n] = canon(held(ref, n))
        except Exception:
            new = {k: x for k, x in new.items() if k != n}
    makers = [("duplicate", lambda: src.duplicate(), want, {}), ("pickle", lambda: pickle.loads(pickle.dumps(src)), want, {}),
              ("deepcopy", lambda: copy.deepcopy(src), want, {}), ("modified", lambda: src.modified(newSettings=copy.deepcopy(new)), want_mod, {})]
    # modified() with its two other documented kinds of entry: a Setting INSTANCE as value (installed as a copy of that instance) and
    # keys the app does not define (a new Setting is made up for them), next to plain values.
    inst_new, want_inst, extra = _modified_instance_case(ctx, src, rng, pick_valid, new, want_mod) if instance else (None, None, None)
    if inst_new is not None:
        makers.append(("modified-instance", lambda: src.modified(newSettings=inst_new), want_inst, extra))
    keys0 = set(live(src).keys())
    for how, make, expect, extra_keys in makers:
        try:
            c = make()
        except Exception as e:
            rec.violation("copy/%s/raises/%s" % (how, type(e).__name__), "%s of a valid Settings object raised %s: %s" % (how, type(e).__name__, str(e)[:300]), wit)
            continue
        rec.hit("copy.equal")
        if how == "modified-instance":
            rec.hit("copy.modified-instance")
        got = snapshot(c)
        diff = [n for n in ctx.names if got.get(n) != expect[n]]
        if diff:
            n = diff[0]
            rec.violation("copy/%s/values-differ/%s" % (how, skind(ctx.D[n])), "%s copy: %s is %s, original holds %s%s" % (how, n, show(held(c, n)), show(held(src, n)),
                          " (newSettings %s)" % show(new.get(n)) if n in new else ""), dict(wit, differing=diff[:10]))
        # key sets: the copy defines what the original defines plus exactly the undefined keys it was given; the original gains nothing
        ckeys = set(live(c).keys())
        if ckeys != keys0 | set(extra_keys):
            rec.violation("copy/%s/key-set-differs" % how, "%s copy: lacks the keys %s and has the unexpected keys %s" % (how, sorted(((keys0 | set(extra_keys)) - ckeys))[:10], sorted(ckeys - keys0 - set(extra_keys))[:10]),
                          dict(wit, newSettings_keys=sorted(extra_keys)))
        for k, cv in extra_keys.items():
            if k in ckeys and canon(held(c, k)) != cv:
                rec.violation("copy/%s/values-differ/undefined-key" % how, "%s copy: the key %r the app does not define was given %s and holds %s" % (how, k, json.dumps(cv)[:100], show(held(c, k))), wit)
        if want != snapshot(src):
            rec.violation("copy/%s/making-the-copy-changed-original" % how, "original changed while being copied", wit)
        if set(live(src).keys()) != keys0:
            rec.violation("copy/%s/making-the-copy-changed-original/keys" % how, "making the %s copy changed the key set of the original: gained %s, lost %s"
                          % (how, sorted(set(live(src).keys()) - keys0)[:10], sorted(keys0 - set(live(src).keys()))[:10]), wit)
            return
        if extra_keys and rng.random() < 0.34:
            # a copy of the copy (duplicate goes through __setstate__, which documents app-undefined Setting entries) keeps keys and values
            try:
                c2 = c.duplicate()
                s1, s2 = snapshot(c), snapshot(c2)
                if s1 != s2:
                    d2 = [k for k in s1 if s2.get(k) != s1[k]] + [k for k in s2 if k not in s1]
                    rec.violation("copy/%s/duplicate-of-copy-differs" % how, "duplicate() of the %s copy differs in %s" % (how, d2[:10]), wit)
            except Exception as e:
                rec.violation("copy/%s/duplicate-of-copy-raises/%s" % (how, type(e).__name__), "duplicate() of the %s copy raised: %s" % (how, str(e)[:300]), wit)
        # the copy still validates (schemas rebuilt)
        pi = pick_invalid(rng)
        if pi:
            n, lab, bad, rule = pi
            prev = canon(held(c, n))
            try:
                c[n] = copy.deepcopy(bad)
                rec.violation("copy/%s/schema-not-enforced/%s" % (how, skind(ctx.D[n])), "%s copy accepted %s = %s (now %s); the original's schema refuses it" % (how, n, show(bad), show(held(c, n))),
                              dict(wit, setting=n, bad=show(bad)))
            except Exception:
                if canon(held(c, n)) != prev:
                    rec.violation("copy/%s/old-value-lost/%s" % (how, skind(ctx.D[n])), "%s copy refused %s = %s but lost the previous value" % (how, n, show(bad)), wit)
        pv = pick_valid(rng)
        if pv:
            n, lab, v = pv
            ref = settings.Settings()
            try:
                ref[n] = copy.deepcopy(v)
                c[n] = copy.deepcopy(v)
                if canon(held(c, n)) != canon(held(ref, n)):
                    rec.violation("copy/%s/coerces-differently/%s" % (how, skind(ctx.D[n])), "%s copy: %s = %s gives %s, a fresh Settings gives %s" % (how, n, show(v), show(held(c, n)), show(held(ref, n))), wit)
            except Exception:
                pass
            try:
                c[n] = copy.deepcopy(held(src, n))
            except Exception:
                pass
        # independence: edit the copy (in place, then by assignment), the original must not move
        rec.hit("copy.independent")
        edited = []
        for n in ctx.names:
            if n == "versions":
                continue
            if mutate_inplace(held(c, n), rng):
                edited.append(n)
        now = snapshot(src)
        moved = [n for n in ctx.names if now[n] != want[n]]
        if moved:
            n = moved[0]
            rec.violation("copy/%s/aliases-original/inplace/%s" % (how, skind(ctx.D[n])), "in-place edit of %s on the %s copy changed the original: %s -> %s" % (n, how, json.dumps(want[n])[:150], show(held(src, n))),
                          dict(wit, moved=moved[:10]))
            return
        for _ in range(5):
            pv = pick_valid(rng)
            if pv:
                try:
                    c[pv[0]] = copy.deepcopy(pv[2])
                except Exception:
                    pass
        now = snapshot(src)
        moved = [n for n in ctx.names if now[n] != want[n]]
        if moved:
            n = moved[0]
            rec.violation("copy/%s/aliases-original/assign/%s" % (how, skind(ctx.D[n])), "assigning on the %s copy changed %s of the original" % (how, n), dict(wit, moved=moved[:10]))
            return
    # reverse direction: edit the original in place, a copy taken before must not move
    try:
        c = rng.choice([lambda: src.duplicate(), lambda: pickle.loads(pickle.dumps(src)), lambda: src.modified(newSettings={})])()
    except Exception:
        return
    cw = snapshot(c)
    for n in ctx.names:
        if n != "versions":
            mutate_inplace(held(src, n), rng)
    rec.hit("copy.independent")
    moved = [n for n in ctx.names if snapshot(c)[n] != cw[n]] if snapshot(c) != cw else []
    if moved:
        n = moved[0]
        rec.violation("copy/reverse/aliases-copy/inplace/%s" % skind(ctx.D[n]), "in-place edit of %s on the original changed an earlier copy" % n, dict(wit, moved=moved[:10]))


UNDEFINED_KEY_VALUES = [3, "c17 text", 2.5, [1, 2], True, ["a", "b"], {"k": 1}, 0, ""]


def _modified_instance_case(ctx, src, rng, pick_valid, new, want_mod):
    """newSettings for Settings.modified holding one Setting instance with an edited value, one plain value of an undefined key, one
    Setting instance under an undefined key, plus the plain values of `new`.  Returns (newSettings, expected snapshot of the defined
    settings, {undefined key: expected canonical value}); (None, None, None) when no instance could be prepared."""
    from armi.settings.setting import Setting

    for _ in range(6):
        pv = pick_valid(rng)
        if not pv or pv[0] in new:
            continue
        n = pv[0]
        if type(ctx.D[n]).__name__ != "Setting":
            # XSSettingDef / TightCouplingSettingDef / FlagListSetting instances are judged by check_instance_subclass (value kept,
            # copy writable and readable); Setting.__copy__ used to build a plain Setting from them (finding setting-subclass-lost)
            ctx.rec.skip("modified(newSettings={name: Setting instance}) for a Setting subclass: not in this generator, judged by the monitor copy.modified-instance-subclass")
            continue
        try:
            inst = src.getSetting(n)  # documented: a copy of the Setting object
            inst.setValue(copy.deepcopy(pv[2]))
        except Exception:
            continue
        want_inst = dict(want_mod)
        want_inst[n] = canon(inst.value)  # taken before the call under test
        plain = copy.deepcopy(rng.choice(UNDEFINED_KEY_VALUES))
        sval = copy.deepcopy(rng.choice(UNDEFINED_KEY_VALUES))
        try:
            made = Setting("c17BrandNewSetting", default=copy.deepcopy(sval), description="Setting instance given to modified() under a key the app does not define")
        except Exception:
            continue
        d = copy.deepcopy(new)
        d[n] = inst
        d["c17BrandNew"] = plain
        d["c17BrandNewSetting"] = made
        return d, want_inst, {"c17BrandNew": canon(plain), "c17BrandNewSetting": canon(sval)}
    return None, None, None


def check_instance_subclass(ctx, name, label, value):
    """getSetting -> modified(newSettings={name: that Setting instance}) for a setting whose definition is a Setting SUBCLASS
    (XSSettingDef, TightCouplingSettingDef, FlagListSetting): the modified copy holds the same value and is a Settings object like
    any other, i.e. it can be written and read back."""
    from armi import settings

    rec = ctx.rec
    kind = type(ctx.D[name]).__name__
    cs = settings.Settings()
    try:
        cs[name] = copy.deepcopy(value)
        want = canon(held(cs, name))
        inst = cs.getSetting(name)
        m = cs.modified(newSettings={name: inst})
    except Exception as e:
        rec.crash("modified-instance/%s" % kind, e, {"setting": name, "value": show(value)})
        return
    rec.hit("copy.modified-instance-subclass")
    wit = {"setting": name, "definition": kind, "class": label, "value": show(value), "copied definition": type(live(m)[name]).__name__,
           "script": "cs[%r] = v; m = cs.modified(newSettings={%r: cs.getSetting(%r)}); m.writeToYamlStream(stream, 'short', [])" % (name, name, name)}
    if canon(held(m, name)) != want:
        rec.violation("copy/modified-instance/values-differ/%s" % kind, "modified(newSettings={%r: cs.getSetting(%r)}) holds %s, original %s" % (name, name, show(held(m, name)), show(held(cs, name))), wit)
        return
    if canon(held(cs, name)) != want:
        rec.violation("copy/modified-instance/making-the-copy-changed-original", "original changed while being copied", wit)
    try:
        text = write(m, "short")
        tgt = settings.Settings()
        quiet_load(tgt, text)
    except Exception as e:
        if not yaml_library_roundtrips(name, held(cs, name)):
            rec.skip("value that ruamel.yaml itself does not round-trip (control experiment without armi); class %s" % label)
            return
        rec.violation("copy/modified-instance/setting-subclass-lost",
                      "a Setting instance of type %s given to Settings.modified is installed as a plain Setting (Setting.__copy__ does not keep the subclass, so its dump() is lost): "
                      "the modified copy cannot be written/read back: %s: %s" % (kind, type(e).__name__, str(e)[:200]), wit)
        return
    if canon(held(tgt, name)) != want and yaml_library_roundtrips(name, held(cs, name)):
        rec.violation("copy/modified-instance/roundtrip-differs/%s" % kind, "modified copy written and read back: %s holds %s, original %s" % (name, show(held(tgt, name)), show(held(cs, name))), wit)


def check_getsetting(ctx, src, rng, name):
    """Settings.getSetting returns a copy of the Setting: editing it leaves the Settings object alone."""
    rec = ctx.rec
    want = canon(held(src, name))
    try:
        s = src.getSetting(name)
    except Exception as e:
        rec.crash("getSetting", e, {"setting": name})
        return
    rec.hit("copy.getSetting")
    if canon(s.value) != want:
        rec.violation("copy/getSetting/values-differ/%s" % skind(ctx.D[name]), "getSetting(%r).value is %s, settings hold %s" % (name, show(s.value), show(held(src, name))), {"setting": name})
    mutate_inplace(s.value, rng)
    fv = ctx.first_valid(name)
    if fv:
        try:
            s.setValue(fv[1])
        except Exception:
            pass
    if canon(held(src, name)) != want:
        rec.violation("copy/getSetting/aliases-original/%s" % skind(ctx.D[name]), "editing the Setting returned by getSetting(%r) changed the Settings object" % name, {"setting": name})


# ----------------------------------------------------------------------------- shard: defaults, renames
def do_defaults(spec, rec, rng):
    from armi import settings

    ctx = Ctx(rec)
    rec.note("n_settings", len(ctx.names))
    kinds = {}
    for n in ctx.names:
        kinds[skind(ctx.D[n])] = kinds.get(skind(ctx.D[n]), 0) + 1
    rec.note("setting_kinds", kinds)
    bad = ctx.unreadable_defaults(report=True)
    rec.note("settings_with_unreadable_explicit_default", sorted(bad))
    # pristine settings x 3 styles (then once more with the unreadable defaults pre-assigned so that the rest is judged)
    for style in STYLES:
        for user in ([], list(ctx.names)) if style == "medium" else ([],):
            src = settings.Settings()
            changed = {}
            hits_bad = bool(bad) and (style == "full" or (style == "medium" and user))
            if hits_bad:
                try:
                    text = write(src, style, user)
                    quiet_load(settings.Settings(), text)
                    rec.violation("roundtrip/explicit-default-unreadable-alone-but-readable-in-full", "inconsistent observation", {"style": style})
                except Exception as e:
                    for n in bad:
                        rec.violation("roundtrip/full-style/default-fails-own-schema/%s" % n,
                                      "untouched default settings written with style=%r cannot be read back (%s: %s); culprit %s: default %r refused by its own schema"
                                      % (style, type(e).__name__, str(e)[:120], n, ctx.D[n].default), {"style": style, "setting": n, "error": str(e)[:300]})
                rec.case(["pristine", style, bool(user), "as-is"], nontrivial=True)
                apply_workaround(ctx, src, changed, style, user)
            # gen2: write -> read -> write again, the second-generation text must name the same keys with the same values
            t = roundtrip(ctx, src, style, user, changed, "pristine", gen2=True)
            rec.case(["pristine", style, bool(user)], nontrivial=True, sample={"pristine": style, "user_set": len(user)})
            if t is not None and style == "short":
                check_copies(ctx, t, rng, {}, _picker(ctx, True), _picker(ctx, False), "pristine-loaded")
    src = settings.Settings()
    t1 = write(src, "short")
    if yaml_keys(t1) != {"versions"}:
        rec.violation("style/short/writes-default", "pristine settings, short style: keys %s" % sorted(yaml_keys(t1) or []), {"text": t1[:300]})
    # every setting changed from its default at once (k-th schema-admitted non-default pool value of each), all styles, second generation
    for k in range(3):
        for style in STYLES:
            src = settings.Settings()
            changed = {}
            for n in ctx.names:
                if n == "versions":
                    continue
                fv = ctx.nth_valid(n, k)
                if fv is None:
                    continue
                try:
                    src[n] = fv[1]
                    changed[n] = fv[0]
                except Exception:
                    rec.reject("assignment refused a value the declared schema admits (over-rejection, allowed)")
            rec.hit("all.changed", len(changed))
            roundtrip(ctx, src, style, [], changed, "all-changed", gen2=True)
            rec.case(["all-changed", k, style], nontrivial=True)
    do_renames(ctx, rec, rng, spec)
    for n in ctx.names:
        check_getsetting(ctx, settings.Settings(), rng, n)


def do_renames(ctx, rec, rng, spec, only=""):
    """Every ACTIVE oldName (expiry None or in the future, the rule SettingRenamer documents): an armi-written file whose key is
    renamed back to the old name must land on the new setting.  Expired old names are not applied by design: unjudged."""
    import datetime

    from armi import settings

    today = datetime.date.today()
    renames = []
    for n in ctx.names:
        if not n.startswith(only):
            continue
        for old, exp in ctx.D[n].oldNames:
            if exp is None or exp > today:
                renames.append((n, old))
            else:
                rec.skip("expired rename: not applied by design")
    rec.note("renames", ["%s->%s" % (o, n) for n, o in renames])
    per = 3 if spec.get("tier") == "quick" else 25
    for new, old in renames:
        s = ctx.D[new]
        vals = []
        bads = []
        for lab, v in base_pool() + [rand_labelled(rng) for _ in range(40)]:
            if admits(s, v) and must_reject(s, v) is None and in_domain(new, v):
                vals.append((lab, v))
            elif not admits(s, v) or must_reject(s, v) is not None:
                bads.append((lab, v))
        # a value the setting cannot hold is refused under the old name exactly as under the current one
        rng.shuffle(bads)
        for lab, v in bads[:4]:
            check_reject_read(ctx, settings.Settings(), new, lab, v, key=old)
        rng.shuffle(vals)
        done, seen = 0, set()
        for lab, v in vals:
            if done >= per:
                break
            src = settings.Settings()
            try:
                src[new] = copy.deepcopy(v)
            except Exception:
                continue
            h = canon(held(src, new))
            if _eq_default(held(src, new), s.default) or json.dumps(h) in seen:
                continue
            seen.add(json.dumps(h))
            try:
                text = write(src, "short")
            except Exception:
                continue
            text2, nsub = re.subn(r"(?m)^  %s:" % re.escape(new), "  %s:" % old, text)
            if nsub != 1:
                rec.skip("rename: key line of the new name not found exactly once in the written text")
                continue
            done += 1
            rec.hit("rename")
            wit = {"old": old, "new": new, "value": show(held(src, new)), "text": text2[:300]}
            tgt = settings.Settings()
            try:
                reader = quiet_load(tgt, text2)
            except Exception as e:
                rec.violation("rename/read-raises/%s" % type(e).__name__, "file using the old name %s raised %s: %s" % (old, type(e).__name__, str(e)[:200]), wit)
                rec.case(["rename", old, new, h], sample=wit if done == 1 else None)
                continue
            got = canon(held(tgt, new))
            if got != h and yaml_limit(ctx, src, [new], {new: lab}):
                pass
            elif got != h:
                if _eq_default(held(tgt, new), s.default):
                    rec.violation("rename/old-name-ignored", "a settings file that uses the old name %r (renamed to %r) is read without error but the value %s is dropped: %s stays at its default %r%s"
                                  % (old, new, show(held(src, new)), new, s.default, "; the reader lists the old name as an invalid setting" if old in reader.invalidSettings else ""), wit)
                else:
                    rec.violation("rename/landed-wrong-value", "old name %r -> %r: expected %s, holds %s" % (old, new, show(held(src, new)), show(held(tgt, new))), wit)
            others = [n for n in ctx.names if n not in (new, "versions") and canon(held(tgt, n)) != canon(ctx.D[n].default)]
            if others:
                rec.violation("rename/landed-elsewhere", "old name %r changed other settings: %s" % (old, others), wit)
            # the same file read into a settings object that already holds another (non-default) value for that setting - a case that
            # was modified, or loaded from another file before: what the file says wins, exactly as it does under the current name
            for lab2, v2 in vals:
                tgt2 = settings.Settings()
                try:
                    tgt2[new] = copy.deepcopy(v2)
                except Exception:
                    continue
                h2 = canon(held(tgt2, new))
                if h2 == h or _eq_default(held(tgt2, new), s.default):
                    continue
                rec.hit("rename.into-settings-holding-another-value")
                try:
                    quiet_load(tgt2, text2)
                    ref2 = settings.Settings()
                    ref2[new] = copy.deepcopy(v2)
                    quiet_load(ref2, text)  # the same file under the current name: the reference behaviour
                except Exception as e:
                    rec.violation("rename/read-raises/%s" % type(e).__name__, "old-name file read into a settings object holding %s raised %s" % (show(v2), type(e).__name__), wit)
                    break
                if canon(held(tgt2, new)) != canon(held(ref2, new)):
                    rec.violation("rename/old-name-entry-does-not-override-held-value", "settings held %s=%s; the file says %s: %s: afterwards %s (the same file with the current name gives %s)"
                                  % (new, show(v2), old, show(held(src, new)), show(held(tgt2, new)), show(held(ref2, new))), dict(wit, held=show(v2)))
                break
            rec.case(["rename", old, new, h], sample=wit if done == 1 else None)


def _picker(ctx, valid):
    """Random (name, label, value[, rule]) whose class (valid / near-miss) is decided by the pristine schema."""
    pool_cache = {}

    def pick(rng):
        for _ in range(30):
            n = rng.choice(ctx.names)
            if n == "versions":
                continue
            if n not in pool_cache:
                pool_cache[n] = base_pool()
            lab, v = rng.choice(pool_cache[n])
            if n in STRUCTURED and rng.random() < 0.7:
                lab, v = rng.choice(structured_values(n, rng, 1))
            if n == "moduleVerbosity" and rng.random() < 0.7:
                lab, v = "log-levels", gen_module_verbosity(rng)
            if n in ("verbosity", "branchVerbosity") and rng.random() < 0.7:
                lab, v = "log-level", rng.choice(LOG_LEVELS)
            v = copy.deepcopy(v)
            s = ctx.D[n]
            rule = must_reject(s, v)
            ok = admits(s, v) and rule is None
            if valid and ok and in_domain(n, v):
                return (n, lab, v)
            if not valid and not ok:
                return (n, lab, v, rule)
        return None

    return pick


# ----------------------------------------------------------------------------- shard: every setting x pool
def do_each(spec, rec, rng):
    from armi import settings

    ctx = Ctx(rec)
    quick = spec.get("tier") != "thorough"
    mine = ctx.names[spec["k"]::spec["of"]]
    nsample = 0
    no_invalid, few_valid = [], []
    for name in mine:
        s = ctx.D[name]
        rec.hit("setting.enumerated")
        r = random.Random("%s:%s" % (spec["rng"], name))
        cand = candidates(name, s, r, spec["nrand"], spec["nstruct"] if name in STRUCTURED else 0)
        valid, invalid = [], []
        for lab, v in cand:
            rule = must_reject(s, v)
            if admits(s, v) and rule is None:
                if in_domain(name, v):
                    valid.append((lab, v))
                else:
                    rec.skip("logging setting %s: value outside the documented level names (loading applies it to the process logger)" % name)
            else:
                invalid.append((lab, v, rule))
        if name in STRUCTURED:
            rec.hit("structured.value", sum(1 for lab, _v in valid if "/generated" in lab))
        # ---- valid class: must round trip
        seen = set()
        nvalid = 0
        for i, (lab, v) in enumerate(valid):
            src = settings.Settings()
            try:
                src[name] = copy.deepcopy(v)
            except Exception:
                rec.reject("assignment refused a value the declared schema admits (over-rejection, allowed)")
                continue
            h = json.dumps(canon(held(src, name)), sort_keys=True)
            if h in seen:
                continue
            seen.add(h)
            nvalid += 1
            nontriv = not _eq_default(held(src, name), s.default)
            styles = ["short"]
            if not quick:
                styles = list(STYLES)
            elif nvalid % 5 == 1:
                styles.append("full" if (nvalid // 5) % 2 == 0 else "medium")
            for style in styles:
                if style != "short":
                    src = settings.Settings()
                    src[name] = copy.deepcopy(v)
                changed = {name: lab}
                user = []
                if style == "medium":
                    user = r.sample(ctx.names, r.randint(0, 12)) + ["notASetting"]
                if style != "short":
                    apply_workaround(ctx, src, changed, style, user)
                t = roundtrip(ctx, src, style, user, changed, "each", gen2=(nvalid % (10 if quick else 3) == 1))
                nsample += 1
                rec.case(["each", name, h, style], nontrivial=nontriv,
                         sample={"setting": name, "class": lab, "assigned": show(v), "held": show(held(src, name)), "style": style} if nsample in (40, 41) else None)
                if t is not None and style == "short" and nvalid % 7 == 3:
                    check_copies(ctx, t, r, changed, _picker(ctx, True), _picker(ctx, False), "each-loaded", instance=(not quick or nvalid % 21 == 3))
            if nvalid % 5 == 2:
                src = settings.Settings()
                src[name] = copy.deepcopy(v)
                check_getsetting(ctx, src, r, name)
            if type(s).__name__ != "Setting" and nontriv and nvalid % 5 == 3 and nvalid < (30 if quick else 300):
                check_instance_subclass(ctx, name, lab, v)
        # ---- near-miss class: must raise and keep the previous value, on assignment and on read
        prevs = [None] + [v for _lab, v in valid[:40:7]]
        nread = 0
        for i, (lab, bad, rule) in enumerate(invalid):
            cs = settings.Settings()
            pv = prevs[i % len(prevs)]
            if pv is not None:
                try:
                    cs[name] = copy.deepcopy(pv)
                except Exception:
                    pass
            check_reject_assign(ctx, cs, name, lab, bad, rule)
            if not quick or i % 3 == 0 or nread < 4:
                nread += 1
                cs = settings.Settings()
                if pv is not None:
                    try:
                        cs[name] = copy.deepcopy(pv)
                    except Exception:
                        pass
                check_reject_read(ctx, cs, name, lab, bad)
            rec.case(["reject", name, lab, json.dumps(canon(bad), sort_keys=True)[:200]], nontrivial=True,
                     sample={"setting": name, "near-miss": show(bad), "class": lab} if (i == 0 and name in ("nCycles", "boundaries", "cycles")) else None)
        if not invalid:
            no_invalid.append(name)
        if nvalid < 3:
            few_valid.append("%s:%d" % (name, nvalid))
        rec.add("valid_values_roundtripped", nvalid)
        rec.add("near_miss_values", len(invalid))
    rec.note("settings_whose_schema_refuses_nothing", no_invalid)
    rec.note("settings_with_fewer_than_3_distinct_valid_values", few_valid)


# ----------------------------------------------------------------------------- shard: subsets of settings changed at once
def do_subsets(spec, rec, rng):
    from armi import settings

    ctx = Ctx(rec)
    pick_valid = _picker(ctx, True)
    pick_invalid = _picker(ctx, False)
    for i in range(spec["n"]):
        r = random.Random("%s:%d" % (spec["rng"], i))
        k = r.randint(1, 5) if r.random() < 0.35 else r.randint(6, 40)
        src = settings.Settings()
        changed = {}
        tries = 0
        while len(changed) < k and tries < 6 * k:
            tries += 1
            pv = pick_valid(r)
            if not pv:
                continue
            n, lab, v = pv
            try:
                src[n] = v
                changed[n] = lab
            except Exception:
                rec.reject("assignment refused a value the declared schema admits (over-rejection, allowed)")
        if r.random() < 0.2 and changed:  # some settings assigned and then put back to their default value
            n = r.choice(sorted(changed))
            try:
                src[n] = copy.deepcopy(ctx.D[n].default)
                changed[n] = "back-to-default"
            except Exception:
                pass
        style = r.choice(STYLES)
        user = []
        if style == "medium":
            user = r.sample(ctx.names, r.randint(0, 30)) + ["notASetting"]
        apply_workaround(ctx, src, changed, style, user)
        # target: fresh, or a Settings object that already holds other values
        tgt = None
        dirty = r.random() < 0.3
        if dirty:
            tgt = settings.Settings()
            for _ in range(r.randint(1, 15)):
                pv = pick_valid(r)
                if pv:
                    try:
                        tgt[pv[0]] = pv[2]
                    except Exception:
                        pass
        viaFile = (not dirty) and r.random() < 0.15 and "userPlugins" not in changed
        rec.hit("subset.case")
        sig = ["subset", style, dirty, viaFile, sorted((n, json.dumps(canon(held(src, n)), sort_keys=True)[:120]) for n in changed)]
        if viaFile:
            t = roundtrip_files(ctx, src, r, changed, i)
        else:
            t = roundtrip(ctx, src, style, user, changed, "subset", tgt=tgt, gen2=True)
        rec.case(sig, nontrivial=bool(changed), sample={"subset": sorted(changed), "style": style, "dirty_target": dirty, "via_files": viaFile} if i < 2 else None)
        # near-miss inside a larger file: the refused key keeps its value
        if t is not None and r.random() < 0.5:
            pi = pick_invalid(r)
            if pi:
                check_reject_assign(ctx, t, pi[0], pi[1], pi[2], pi[3])
                check_reject_read(ctx, t, pi[0], pi[1], pi[2])
        if r.random() < 0.5:
            check_copies(ctx, t if (t is not None and r.random() < 0.5) else src, r, changed, pick_valid, pick_invalid, "subset")


def roundtrip_files(ctx, src, r, changed, i):
    """File API: write A (medium) -> Settings(A) -> edit -> writeToYamlFile(B, 'medium', fromFile=A) -> load B."""
    from armi import settings

    rec = ctx.rec
    user = r.sample(ctx.names, r.randint(0, 10))
    ch = dict(changed)
    apply_workaround(ctx, src, ch, "medium", user)
    a, b = "c17_a_%d.yaml" % i, "c17_b_%d.yaml" % i
    want = snapshot(src)
    wit = {"where": "files", "changed": {n: show(held(src, n)) for n in list(ch)[:10]}, "explicit_defaults": user[:10]}
    try:
        with open(a, "w") as f:
            f.write(write(src, "medium", user))
        cs1 = settings.Settings()
        cs1.loadFromInputFile(a)
    except Exception as e:
        if yaml_limit(ctx, src, list(ch), ch):
            return None
        culprit = _attribute(ctx, src, ch, "read")
        rec.violation("roundtrip/read-raises/%s/%s" % (type(e).__name__, ("%s/%s" % (skind(ctx.D[culprit]), ch[culprit])) if culprit else "combination"),
                      "medium-style file written by armi cannot be loaded with loadFromInputFile: %s: %s" % (type(e).__name__, str(e)[:300]), dict(wit, culprit=culprit))
        return None
    finally:
        from armi import runLog

        runLog.setVerbosity("error")
    got = snapshot(cs1)
    diff = [n for n in ctx.names if n != "versions" and got[n] != want[n]]
    if diff and yaml_limit(ctx, src, [n for n in diff if n in ch], ch):
        return None
    if diff:
        n = diff[0]
        rec.violation("roundtrip/value-changed/%s/%s" % (skind(ctx.D[n]), ch.get(n, "default")), "file round trip: %s held %s, loaded %s" % (n, show(held(src, n)), show(held(cs1, n))), dict(wit, setting=n))
        return None
    rec.hit("roundtrip.compare")
    # edit and write 'medium' relative to file A: keys of A are preserved even when at default
    keysA = yaml_keys(open(a).read()) or set()
    pv = ctx.first_valid("comment")
    cs1["comment"] = "edited after load"
    want1 = snapshot(cs1)
    try:
        cs1.writeToYamlFile(b, style="medium", fromFile=a)
    except Exception as e:
        rec.crash("writeToYamlFile/medium", e, wit)
        return None
    if os.path.abspath(cs1.path) != os.path.abspath(b):
        rec.violation("files/path-not-updated", "writeToYamlFile did not move cs.path to the written file", wit)
    keysB = yaml_keys(open(b).read())
    nondef = {n for n, s in cs1.items() if not _eq_default(s.value, ctx.D[n].default)}
    expB = nondef | (keysA & set(ctx.names)) | {"versions"}
    if keysB is not None:
        rec.hit("style.keys")
        if keysB != expB:
            rec.violation("style/medium/file-keys", "medium style from file: wrote %s, expected the non-default ones plus those in the source file; missing %s extra %s"
                          % (len(keysB), sorted(expB - keysB), sorted(keysB - expB)), wit)
    try:
        cs2 = settings.Settings(b)
    except Exception as e:
        rec.violation("roundtrip/read-raises/%s/file-medium" % type(e).__name__, "medium-style file written relative to its source cannot be loaded: %s" % str(e)[:300], wit)
        return None
    finally:
        from armi import runLog

        runLog.setVerbosity("error")
    rec.hit("roundtrip.compare")
    got = snapshot(cs2)
    diff = [n for n in ctx.names if n != "versions" and got[n] != want1[n]]
    if diff and yaml_limit(ctx, cs1, [n for n in diff if n in ch], ch):
        return None
    if diff:
        n = diff[0]
        rec.violation("roundtrip/value-changed/%s/%s" % (skind(ctx.D[n]), ch.get(n, "default")), "second-generation file round trip: %s held %s, loaded %s" % (n, show(held(cs1, n)), show(held(cs2, n))), dict(wit, setting=n))
    for p in (a, b):
        try:
            os.remove(p)
        except OSError:
            pass
    return cs2


# ----------------------------------------------------------------------------- shard: plugin-contributed FlagListSetting, Options, Defaults
# What the test plugin contributes: (option, setting) and (new default, setting).  This spec - not the definitions armi builds from
# it - is the oracle's knowledge of which options exist and which value is the default.
C17_OPTIONS = [("c17Kernel", "neutronicsKernel"), ("c17KernelB", "neutronicsKernel"), ("C17Boundary", "boundaries"),
               ("c", "c17Choice"), ("late1", "c17Late"), ("late2", "c17Late")]
C17_DEFAULTS = [("c17Kernel", "neutronicsKernel"), ("b", "c17Choice"), ("late2", "c17Late"), ("c17 default comment", "comment"), (7, "burnSteps"),
                (["FUEL", "c17 flag"], "stationaryBlockFlags"), ([5, 50], "buGroups"), (0.875, "availabilityFactor")]
# (list-typed Defaults only for settings whose own default is a non-empty list: armi derives the element type check from the default
#  the setting was DEFINED with, and changeDefault keeps that schema; an empty -> non-empty change would make "the type" ambiguous.)
C17_OWN_OLD_DEFAULT = {"c17Choice": "a", "c17Late": ""}
C17_MODIFIED = sorted({n for _v, n in C17_OPTIONS} | {n for _v, n in C17_DEFAULTS})


def expected_options(name, stockD):
    """Option list of `name` once the plugin's Options are applied: the setting's own list extended, in order (from the spec)."""
    own = list(stockD[name].options or []) if name in stockD else {"c17Choice": ["a", "b"], "c17Late": []}[name]
    return own + [o for o, n in C17_OPTIONS if n == name]


def admits_expected(name, v, stockD):
    """Is v a value the modified setting holds by the statement?  Enforced option list -> membership; otherwise unchanged type rules."""
    if any(n == name for _o, n in C17_OPTIONS) or (name in stockD and stockD[name].options and stockD[name].enforcedOptions):
        return any(v == o and type(v) is type(o) for o in expected_options(name, stockD))
    return admits(stockD[name], v)


def check_contributions(ctx, rec, rng, stockD):
    """settings.Option / settings.Default contributed by a plugin (App.getSettings -> Setting.addOptions / changeDefault)."""
    from armi import settings

    # ---- the definitions themselves
    for name in sorted({n for _o, n in C17_OPTIONS}):
        rec.hit("plugin.option")
        exp = expected_options(name, stockD)
        if list(ctx.D[name].options or []) != exp:
            rec.violation("plugin/option/list-not-extended", "%s: options are %s, expected its own list extended by the contributed ones: %s" % (name, show(ctx.D[name].options), exp), {"setting": name})
        if list(live(settings.Settings())[name].options or []) != exp:
            rec.violation("plugin/option/list-not-extended", "%s in a new Settings object: options are %s, expected %s" % (name, show(live(settings.Settings())[name].options), exp), {"setting": name})
    newdef = {n: v for v, n in C17_DEFAULTS}
    for name, v in sorted(newdef.items()):
        rec.hit("plugin.default")
        if canon(ctx.D[name].default) != canon(v):
            rec.violation("plugin/default/definition-not-changed", "%s: a plugin contributed Default(%s) but the definition's default is %s" % (name, show(v), show(ctx.D[name].default)), {"setting": name})
        cs = settings.Settings()
        if canon(held(cs, name)) != canon(v):
            rec.violation("plugin/default/value-not-changed", "%s: a plugin contributed Default(%s) but a new Settings object holds %s" % (name, show(v), show(held(cs, name))), {"setting": name})
    # ---- pristine settings: the short style omits every (new) default
    cs = settings.Settings()
    try:
        doc = yaml_settings(write(cs, "short"))
        rec.hit("plugin.default")
        if doc is not None and set(doc) != {"versions"}:
            rec.violation("plugin/default/short-writes-new-default", "new Settings object, short style, wrote %s: the values contributed as Default are the defaults now" % sorted(set(doc) - {"versions"}),
                          {"written": {k: show(x) for k, x in doc.items() if k != "versions"}})
    except Exception as e:
        rec.crash("plugin/write-pristine", e, {})
    # ---- every option (own and contributed) is admitted and round-trips in every style; non-options stay refused
    for name in sorted({n for _o, n in C17_OPTIONS}):
        exp = expected_options(name, stockD)
        for o in exp:
            for style in STYLES:
                rec.hit("plugin.option")
                src = settings.Settings()
                try:
                    src[name] = copy.deepcopy(o)
                except Exception as e:
                    rec.violation("plugin/option/not-admitted", "%s = %r refused (%s): it is %s" % (name, o, type(e).__name__, "an option contributed by a plugin" if (o, name) in C17_OPTIONS else "one of the setting's own options"),
                                  {"setting": name, "option": o})
                    break
                if canon(held(src, name)) != canon(o):
                    rec.violation("plugin/option/holds-other-value", "%s = %r holds %s" % (name, o, show(held(src, name))), {"setting": name})
                changed = {name: "plugin-option" if (o, name) in C17_OPTIONS else "own-option"}
                apply_workaround(ctx, src, changed, style, [])
                roundtrip(ctx, src, style, [name] if style == "medium" else [], changed, "plugin-option", gen2=True)
                rec.case(["plugin-option", name, o, style], nontrivial=True, sample={"setting": name, "contributed option": o, "style": style} if (o, style) == ("c17KernelB", "short") else None)
        bads = []
        for o in exp:
            bads += [o + "x", o[:-1], o.upper() if o.upper() != o else o.lower(), " " + o, [o]]
        bads += ["", "notAnOption", None, 5, True, exp]
        for bad in bads:
            try:
                if admits_expected(name, bad, stockD):
                    continue
            except Exception:
                pass
            for prev in (None, exp[0], exp[-1]):
                cs = settings.Settings()
                if prev is not None:
                    try:
                        cs[name] = prev
                    except Exception:
                        continue
                check_reject_assign(ctx, cs, name, "plugin-non-option", bad, "not-an-option")
                check_reject_read(ctx, cs, name, "plugin-non-option", bad)
                rec.case(["plugin-non-option", name, show(bad), show(prev)], nontrivial=True)
    # ---- the OLD default is an ordinary non-default value now: the short style writes it, and it reads back
    for name, v in sorted(newdef.items()):
        old = stockD[name].default if name in stockD else C17_OWN_OLD_DEFAULT[name]
        if not admits_expected(name, old, stockD):
            rec.skip("old default of %s is not among the options once a plugin contributed some: not assignable" % name)
            continue
        for style in STYLES:
            rec.hit("plugin.default")
            src = settings.Settings()
            try:
                src[name] = copy.deepcopy(old)
            except Exception as e:
                rec.crash("plugin/assign-old-default", e, {"setting": name, "old default": show(old)})
                break
            try:
                doc = yaml_settings(write(src, style))
            except Exception as e:
                rec.crash("plugin/write-old-default", e, {"setting": name, "old default": show(old)})
                break
            if doc is not None and style == "short":
                if set(doc) != {name, "versions"}:
                    rec.violation("plugin/default/short-omits-old-default", "%s: default changed by a plugin from %s to %s; settings holding %s written in short style name the keys %s"
                                  % (name, show(old), show(v), show(old), sorted(doc)), {"setting": name})
                elif canon(doc[name]) != canon(old):
                    rec.violation("plugin/default/old-default-written-wrong", "%s = %s written as %s" % (name, show(old), show(doc[name])), {"setting": name})
            changed = {name: "old-default"}
            apply_workaround(ctx, src, changed, style, [])
            t = roundtrip(ctx, src, style, [], changed, "plugin-old-default", gen2=True)
            if t is not None and canon(held(t, name)) != canon(old):
                rec.violation("plugin/default/old-default-not-read-back", "%s = %s (the default before a plugin changed it to %s) reads back as %s after a %s-style write"
                              % (name, show(old), show(v), show(held(t, name)), style), {"setting": name})
            rec.case(["plugin-old-default", name, style], nontrivial=True, sample={"setting": name, "old default": show(old), "new default": show(v)} if (name, style) == ("comment", "short") else None)
    # copies keep the changed default: a copy of new settings is still entirely at default (short style writes nothing)
    for name, v in sorted(newdef.items()):
        src = settings.Settings()
        for how, make in (("duplicate", lambda: src.duplicate()), ("pickle", lambda: pickle.loads(pickle.dumps(src))), ("modified", lambda: src.modified(newSettings={}))):
            rec.hit("plugin.default")
            try:
                c = make()
                doc = yaml_settings(write(c, "short"))
            except Exception as e:
                rec.crash("plugin/copy-pristine/%s" % how, e, {})
                continue
            if canon(held(c, name)) != canon(v) or (doc is not None and set(doc) != {"versions"}):
                rec.violation("plugin/default/copy-loses-new-default/%s" % how, "%s copy of new settings: %s holds %s (Default contributed: %s); short style writes %s"
                              % (how, name, show(held(c, name)), show(v), sorted(doc or [])), {"setting": name})


def do_flags(spec, rec, rng):
    from armi import getApp, plugins, settings
    from armi.reactor.flags import Flags
    import datetime

    from armi.settings.setting import FlagListSetting, Setting

    from armi.settings.setting import Default, Option

    stockD = defs()  # definitions of the stock App, before the test plugin: source of the OLD defaults / option lists

    class C17FlagPlugin(plugins.ArmiPlugin):
        @staticmethod
        @plugins.HOOKIMPL
        def defineSettings():
            # Option / Default entries follow the spec in C17_OPTIONS / C17_DEFAULTS (fresh objects on every call).
            # c17Late: modifiers arrive BEFORE the setting is defined (cache path of App.getSettings); c17Choice and the framework
            # settings: modifiers arrive AFTER the definition (direct path); neutronicsKernel (stock: options=[], enforced) and
            # boundaries: whichever order pluggy calls the plugins in.
            out = [
                FlagListSetting("c17FlagsA", default=[], description="flag list contributed by the C17 test plugin"),
                FlagListSetting("c17FlagsB", default=[Flags.FUEL, Flags.GRID_PLATE], description="flag list with a non-empty default"),
                Setting("c17Renamed", default="", description="synthetic setting with a never-expiring, a future and an expired old name",
                        oldNames=[("c17OldActive", None), ("c17OldFuture", datetime.date(2999, 1, 1)), ("c17OldExpired", datetime.date(2000, 1, 1))]),
            ]
            out += [Option(copy.deepcopy(o), n) for o, n in C17_OPTIONS if n == "c17Late"]
            out += [Default(copy.deepcopy(v), n) for v, n in C17_DEFAULTS if n == "c17Late"]
            out += [
                Setting("c17Late", default=C17_OWN_OLD_DEFAULT["c17Late"], description="enforced options, none of its own (like neutronicsKernel)", options=[], enforcedOptions=True),
                Setting("c17Choice", default=C17_OWN_OLD_DEFAULT["c17Choice"], description="enforced options, two of its own", options=["a", "b"], enforcedOptions=True),
            ]
            out += [Option(copy.deepcopy(o), n) for o, n in C17_OPTIONS if n != "c17Late"]
            out += [Default(copy.deepcopy(v), n) for v, n in C17_DEFAULTS if n != "c17Late"]
            return out

    getApp().pluginManager.register(C17FlagPlugin)
    try:
        ctx = Ctx(rec)
        settings.Settings()
    except Exception as e:  # the contributions are well-formed: building the definitions must not fail
        rec.hit("plugin.option")
        rec.case(["plugin-definitions"], nontrivial=True)
        rec.crash("plugin/getSettings", e, {"options": C17_OPTIONS, "defaults": C17_DEFAULTS})
        return
    assert "c17FlagsA" in ctx.D and type(live(settings.Settings())["c17FlagsB"]).__name__ == "FlagListSetting"
    check_contributions(ctx, rec, rng, stockD)
    names = sorted(Flags.fields())  # public: {name: int value}
    members = [getattr(Flags, nm) for nm in names]
    rec.note("n_flag_members", len(members))
    stock = [n for n in ctx.names if not n.startswith("c17")]
    do_renames(ctx, rec, rng, spec, only="c17")  # synthetic active / future / expired old names in this shard's private plugin

    def gen_flag(r):
        k = r.choice([1, 1, 1, 2, 3])
        picks = r.sample(range(len(members)), k)
        f = members[picks[0]]
        for j in picks[1:]:
            f = f | members[j]
        as_str = " ".join(names[j] for j in picks)
        return f, as_str

    def gen_list(r):
        out, flags = [], []
        for _ in range(r.choice([0, 1, 1, 2, 3, 6])):
            f, sname = gen_flag(r)
            # strings name ONE member (how words combine in Flags.fromString is not this property); composites are given as Flags
            out.append(sname if (" " not in sname and r.random() < 0.5) else f)
            flags.append(int(f))
        return out, flags

    for i in range(spec["n"]):
        r = random.Random("%s:%d" % (spec["rng"], i))
        src = settings.Settings()
        changed = {}
        for n in ("c17FlagsA", "c17FlagsB"):
            if r.random() < 0.75:
                v, bits = gen_list(r)
                try:
                    src[n] = copy.deepcopy(v)
                    changed[n] = "flaglist"
                except Exception as e:
                    rec.crash("flaglist/assign", e, {"setting": n, "value": show(v)})
                    continue
                # what is held must be the flags that were given, in order (expected bits come from the generator's own member picks)
                if [int(f) for f in held(src, n)] != bits:
                    rec.violation("flaglist/assign-holds-other-flags", "%s = %s holds %s" % (n, show(v), show(held(src, n))), {"setting": n, "value": show(v)})
        style = r.choice(STYLES)
        user = r.sample(ctx.names, r.randint(0, 5)) if style == "medium" else []
        # settings modified by plugin Options / Defaults: a contributed option, a stock option, or the OLD default value
        for n in r.sample(C17_MODIFIED, r.randint(0, 3)):
            pool = expected_options(n, stockD)
            old_default = stockD[n].default if n in stockD else C17_OWN_OLD_DEFAULT[n]
            if admits_expected(n, old_default, stockD):
                pool.append(old_default)
            if not pool:
                continue
            v = copy.deepcopy(r.choice(pool))
            try:
                src[n] = v
                changed[n] = "plugin-option-or-old-default"
            except Exception as e:
                rec.violation("plugin/option/not-admitted", "%s = %s refused (%s) although it is an option / a value of the setting's type" % (n, show(v), type(e).__name__), {"setting": n, "value": show(v)})
        for _ in range(r.randint(0, 4)):
            n = r.choice(stock)
            fv = ctx.first_valid(n)
            if fv and n != "versions":
                try:
                    src[n] = fv[1]
                    changed[n] = fv[0]
                except Exception:
                    pass
        apply_workaround(ctx, src, changed, style, user)
        rec.hit("flaglist.roundtrip")
        t = roundtrip(ctx, src, style, user, changed, "flags", gen2=True)
        rec.case(["flags", style, sorted((n, json.dumps(canon(held(src, n)))[:200]) for n in changed)], nontrivial=bool(changed),
                 sample={"flag lists": {n: show(held(src, n)) for n in changed if n.startswith("c17")}, "style": style} if i < 2 else None)
        if r.random() < 0.4:
            check_copies(ctx, t if t is not None else src, r, changed, _picker(ctx, True), _picker(ctx, False), "flags")
        if i % 10 == 0:
            for n in ("c17FlagsA", "c17FlagsB"):
                if changed.get(n) == "flaglist":
                    check_instance_subclass(ctx, n, "flaglist", list(held(src, n)))
        # near-misses
        n = r.choice(["c17FlagsA", "c17FlagsB"])
        bad = r.choice(["FUEL", 5, None, [5], ["NOT_A_FLAG_NAME"], [["FUEL"]], {"FUEL": 1}, ["FUEL", None], [1.5], ("FUEL",)])
        cs = settings.Settings()
        if r.random() < 0.5:
            cs[n] = gen_list(r)[0]
        before = canon(held(cs, n))
        rec.hit("reject.assign")
        try:
            cs[n] = copy.deepcopy(bad)
            rec.violation("reject/accepted-invalid/assign/FlagListSetting", "%s = %s accepted (now %s)" % (n, show(bad), show(held(cs, n))), {"setting": n, "bad": show(bad)})
        except Exception:
            rec.reject("near-miss refused on assignment")
            if canon(held(cs, n)) != before:
                rec.violation("reject/old-value-lost/assign/FlagListSetting", "%s = %s refused, previous value lost" % (n, show(bad)), {"setting": n, "bad": show(bad)})
        if not isinstance(bad, (str, tuple)) and bad is not None:
            try:
                text, _p = yaml_doc(n, bad)
            except Exception:
                continue
            rec.hit("reject.read")
            try:
                quiet_load(cs, text)
                if canon(held(cs, n)) != before:
                    rec.violation("reject/accepted-invalid/read/FlagListSetting", "file with %s: %s accepted (now %s)" % (n, show(bad), show(held(cs, n))), {"setting": n, "text": text})
                else:
                    rec.violation("reject/read-no-error/FlagListSetting", "file with the invalid %s: %s raised nothing (value silently ignored)" % (n, show(bad)), {"setting": n, "text": text})
            except Exception:
                rec.reject("near-miss refused on read")
                if canon(held(cs, n)) != before:
                    rec.violation("reject/old-value-lost/read/FlagListSetting", "file with %s: %s refused, previous value lost" % (n, show(bad)), {"setting": n})
