"""C04 - a reactor saved to the database loads back observationally equal.

Oracle: vlib.obs.obs() - a depth-first observation of the model through public queries (class, name, serial number,
child order, grid constructor arguments, locator kind and indices/coordinates, material, temperatures, dimensions with
link targets, number densities, volume, mass, every persistent assigned parameter).  Laws:
   obs(r) == obs(load(write(r)));  obs(load#1) == obs(load#2);  obs(load(write(load(write(r))))) == obs(load(write(r))).
Workload: reactors from generated blueprints (hex third/full) and repo inputs (smallest, full test reactor, Cartesian,
c5g7 pin lattices), each taken through a random state history before the write.
"""
import copy
import os
import random

PROP = "C04"
LEVEL = "exploration"
RULE = (
    "reactor x state history: generated hex cores (third periodic / full; 2-4 rings; pin blocks with auto pin grids) and repo inputs; history of "
    "8-25 steps from {assign random persistent parameters of every class (scalar/str/bool/array/list kinds, on all or on a subset of objects), "
    "composition edits, temperature changes, block/assembly rotation, assembly swaps, discharge to the spent fuel pool, free-coordinate and "
    "multi-index pin locators}. A case = one (reactor, history) pair written and loaded; distinct by (reactor kind, history op multiset); every "
    "case is non-trivial (>= 1 state change before the write)."
)
TOLERANCES = {"recomputed_rel": 1e-9}
FLOORS = {"quick": {"law.roundtrip": 12, "law.load-twice": 12, "law.idempotent": 6, "law.roundtrip-later-node": 8, "nodes.compared": 3000},
          "thorough": {"law.roundtrip": 150, "law.load-twice": 150, "law.idempotent": 60, "law.roundtrip-later-node": 80, "nodes.compared": 60000}}
TIMEOUT = {"quick": 900, "thorough": 7200}


def plan(tier, seed):
    q = tier == "quick"
    out = [{"name": "gen%d" % i, "kind": "generated", "n": 3 if q else 25} for i in range(8)]
    out.append({"name": "smallest", "kind": "repo", "input": "smallestTestReactor/armiRunSmallest.yaml", "n": 3 if q else 20})
    out.append({"name": "cartesian", "kind": "repo", "input": "refTestCartesian.yaml", "n": 1 if q else 6, "settings": True})
    out.append({"name": "c5g7", "kind": "repo", "input": "c5g7/c5g7-settings.yaml", "n": 1 if q else 4})
    if not q:
        out += [{"name": "full%d" % i, "kind": "repo", "input": "armiRun.yaml", "n": 3} for i in range(3)]
    else:
        out.append({"name": "full0", "kind": "repo", "input": "armiRun.yaml", "n": 1})
    return out


def run_shard(spec, rec):
    from vlib import gen

    for i in range(spec["n"]):
        rng = random.Random("%s:%d" % (spec["rng"], i))
        w = {"shard": spec["name"], "case": i}
        try:
            if spec["kind"] == "generated":
                sym = rng.choice(["third periodic", "third periodic", "full"])
                cspec = gen.core_spec(rng, rings=rng.randint(2, 4), symmetry=sym, ndesigns=rng.randint(1, 3), nblocks=rng.randint(1, 4))
                r, cs, bp, text = gen.build_reactor(cspec, {"trackAssems": True} if rng.random() < .6 else None)
                w["reactor"] = {"symmetry": sym, "assemblies": len(r.core)}
                kind = "generated-" + sym.split()[0]
            else:
                r, cs, bp = load_repo(spec["input"])
                w["reactor"] = spec["input"]
                kind = spec["name"].rstrip("0123456789")
        except Exception as e:
            rec.crash("build/" + spec["kind"], e, w)
            continue
        try:
            hist = history(rec, rng, r, w)
        except Exception as e:
            rec.crash("history(harness?)", e, w)
            continue
        w["history"] = hist
        roundtrip(rec, rng, r, cs, bp, w, kind)
        rec.case([kind, sorted(set(h.split(":")[0] for h in hist)), len(hist)], sample=w if i == 0 else None)


def load_repo(inp):
    import io

    from armi import settings
    from armi.reactor import blueprints, reactors
    from armi.tests import TEST_ROOT
    from vlib.env import quiet

    fname = os.path.join(TEST_ROOT, inp)
    cs = settings.Settings(fName=fname)
    with quiet():
        bp = blueprints.loadFromCs(cs)
        r = reactors.factory(cs, bp)
    return r, cs, bp


# ----------------------------------------------------------------------------- state histories
def classes_of(r):
    groups = {}
    for o in [r] + r.getChildren(deep=True):
        groups.setdefault(type(o), []).append(o)
    return groups


def value_like(rng, pd, cur, n):
    """A list of n values of the kind this parameter already holds / its default suggests; None if the kind is unknown."""
    import numpy as np

    sample = cur if cur is not None else pd.default
    from armi.reactor import parameters

    if sample is parameters.NoDefault:
        sample = 0.0
    if isinstance(sample, bool):
        return [rng.random() < .5 for _ in range(n)]
    if isinstance(sample, (int, np.integer)):
        return [rng.randint(-5, 1000) for _ in range(n)]
    if isinstance(sample, (float, np.floating)):
        return [rng.choice([rng.uniform(-10, 10), rng.uniform(0, 1e6), 0.0, 1e-30]) for _ in range(n)]
    if isinstance(sample, str):
        return [rng.choice(["A", "xy", "fuel block", "", "Zr-10"]) for _ in range(n)]  # non-ASCII text is refused at write time (judged in C05)
    if isinstance(sample, np.ndarray) or isinstance(sample, list):
        ln = len(sample) if len(sample) else rng.randint(1, 4)
        same = rng.random() < .7
        twod = isinstance(sample, np.ndarray) and rng.random() < .35  # e.g. pin x group tables; often handed over as views / Fortran order
        vals = []
        for _ in range(n):
            m = ln if same else rng.randint(1, 4)
            if twod:
                g = rng.randint(2, 4)
                a = np.array([[rng.uniform(0, 100) for _ in range(g)] for _ in range(max(m, 2))])
                how = rng.randrange(4)
                a = [a, np.asfortranarray(a), np.ascontiguousarray(a.T).T, np.repeat(a, 2, axis=1)[:, ::2]][how]
                vals.append(a)
                continue
            v = [rng.uniform(0, 100) for _ in range(m)]
            vals.append(np.array(v) if isinstance(sample, np.ndarray) else v)
        return vals
    return None


SKIP_PARAMS = {"serialNum", "flags", "type", "numberDensities", "mult", "volume", "modArea", "height", "ztop", "zbottom", "z", "axMesh", "assemNum",
               "cycle", "timeNode", "orientation", "pinLocation", "topIndex", "percentBuByPin", "nPins", "xsType", "envGroup", "envGroupNum", "xsTypeNum",
               "area", "mergeWith", "customIsotopicsName", "temperatureInC", "axialExpTargetComponent", "maxAssemNum", "symmetry", "geomType",
               # mirrors of the case settings / blueprints, which the property holds fixed ("loaded with the same settings and blueprints"):
               # Core.processLoading and Database._assignBlueprintsParams re-apply them on load by design
               "jumpRing", "beta", "betaComponents", "betaDecayConstants", "pressureLossCoeffs", "crCurrentElevation", "crInsertedElevation", "crWithdrawnElevation", "nozzleType", "hotChannelFactors"}


def history(rec, rng, r, w):
    import math

    from armi.reactor import grids, parameters
    from armi.reactor.components import Component
    from armi.reactor.flags import Flags

    hist = []
    groups = classes_of(r)
    core = r.core
    nsteps = rng.randint(8, 25)
    for _ in range(nsteps):
        op = rng.choice(["param", "param", "param", "param-subset", "ndens", "temperature", "rotate-block", "swap", "discharge", "free-coordinate", "core-param", "table-param"])
        try:
            if op == "table-param":
                # physics results stored per block as tables (pin x group fluxes, group vectors): per-block shapes differ, some blocks
                # have none, and the arrays arrive as views / Fortran-ordered data of whatever produced them
                import numpy as np

                name = rng.choice(["pinMgFluxes", "pinMgFluxes", "mgFlux", "linPowByPin", "mgFluxGamma"])
                blks = [b for b in r.core.getBlocks() if name in b.p]
                if not blks:
                    continue
                ng = rng.randint(2, 5)
                for b in blks:
                    if rng.random() < .25:
                        continue
                    if name == "pinMgFluxes":
                        a = np.array([[rng.uniform(0, 1e3) for _ in range(ng)] for _ in range(rng.randint(2, 5))])
                        a = [a, np.asfortranarray(a), np.ascontiguousarray(a.T).T, np.repeat(a, 2, axis=1)[:, ::2]][rng.randrange(4)]
                    else:
                        a = np.array([rng.uniform(0, 1e3) for _ in range(rng.randint(1, 5))])
                        if rng.random() < .5:
                            a = np.repeat(a, 2)[::2]
                    b.p[name] = a
                hist.append("table-param:%s(%d blocks)" % (name, len(blks)))
                continue
            if op in ("param", "param-subset", "core-param"):
                cls = rng.choice([c for c in groups if c.__name__ in (("Core", "Reactor") if op == "core-param" else tuple(k.__name__ for k in groups))])
                objs = groups[cls]
                objs = [o for o in objs if o.parent is not None or type(o).__name__ == "Reactor"]
                if not objs:
                    continue
                defs = [pd for pd in objs[0].p.paramDefs if pd.saveToDB and pd.name not in SKIP_PARAMS and pd.name not in getattr(objs[0], "DIMENSION_NAMES", ())]
                if not defs:
                    continue
                pd = rng.choice(defs)
                sub = objs if op != "param-subset" else rng.sample(objs, max(1, len(objs) // 2))
                cur = sub[0].p.get(pd.name) if hasattr(sub[0].p, pd.fieldName) else None
                vals = value_like(rng, pd, cur, len(sub))
                if vals is None:
                    continue
                ok = 0
                for o, v in zip(sub, vals):
                    try:
                        o.p[pd.name] = v
                        ok += 1
                    except Exception:
                        break
                if ok:
                    hist.append("%s:%s.%s(%d/%d %s)" % (op, cls.__name__, pd.name, ok, len(objs), type(vals[0]).__name__))
            elif op == "ndens":
                comps = [c for c in r.core.iterComponents() if c.p.numberDensities]
                c = rng.choice(comps)
                nuc = rng.choice(sorted(c.p.numberDensities))
                c.setNumberDensity(nuc, c.getNumberDensity(nuc) * rng.uniform(.2, 3))
                if rng.random() < .3:
                    c.setNumberDensity(rng.choice(["PU239", "XE135", "AM241"]), rng.uniform(1e-8, 1e-3))
                hist.append("ndens")
            elif op == "temperature":
                comps = list(r.core.iterComponents())
                c = rng.choice(comps)
                told = c.temperatureInC
                try:
                    c.setTemperature(rng.uniform(300, 600))
                    c.getDimension(sorted(c.THERMAL_EXPANSION_DIMS)[0]) if c.THERMAL_EXPANSION_DIMS else None
                    c.parent.getVolume()
                    if any(x.getVolume() < 0 or x.getArea() < 0 for x in c.parent):
                        # e.g. a duct grown past the fixed outer pitch of the inter-assembly coolant: armi does not refuse it, but a
                        # component of negative area is not a valid model state (and DerivedShape treats it inconsistently)
                        raise ArithmeticError("negative component area")
                    hist.append("temperature")
                except (RuntimeError, ValueError, ArithmeticError):
                    # no expansion law, or the expansion made components overlap (negative derived area): not a valid state
                    c.setTemperature(told)
            elif op == "rotate-block":
                bs = [b for b in r.core.getBlocks() if hasattr(b, "rotate") and type(b).__name__ == "HexBlock"]
                if bs:
                    b = rng.choice(bs)
                    b.rotate(rng.randint(1, 5) * math.pi / 3)
                    hist.append("rotate-block")
            elif op == "swap":
                assems = list(core)
                if len(assems) >= 2:
                    a, b = rng.sample(assems, 2)
                    la, lb = a.spatialLocator, b.spatialLocator
                    a.moveTo(lb)
                    b.moveTo(la)
                    hist.append("swap")
            elif op == "discharge":
                assems = list(core)
                if len(assems) > 2:
                    a = rng.choice(assems[1:])
                    core.removeAssembly(a, discharge=True)
                    hist.append("discharge(trackAssems=%s)" % core._trackAssems)
                    groups = classes_of(r)
            elif op == "free-coordinate":
                bs = [b for b in r.core.getBlocks() if b.spatialGrid is not None]
                if bs:
                    b = rng.choice(bs)
                    cands = [c for c in b if isinstance(c.spatialLocator, grids.CoordinateLocation)]
                    if cands:
                        c = rng.choice(cands)
                        c.spatialLocator = grids.CoordinateLocation(rng.uniform(-2, 2), rng.uniform(-2, 2), 0.0, b.spatialGrid)
                        hist.append("free-coordinate")
        except Exception as e:
            rec.crash("history-op/" + op, e, dict(w, history=hist))
    if not hist:
        r.core.p.power = 1.0
        hist.append("core-param:Core.power")
    return hist


# ----------------------------------------------------------------------------- the round trip
RECOMPUTED_ON_LOAD = {"kgHM", "kgFis", "puFrac", "maxAssemNum", "volume", "area"}


def classify(key, msg, w):
    """mechanism keys for known classes of difference (None = within the documented tolerance for recomputed values)"""
    import re

    if key.startswith("loc/") and "'coord'" in msg and "'index'" in msg:
        return "locator/free-coordinate-becomes-index-location"
    parts = key.split("/")
    if parts[0] in ("param", "dimension") and parts[-1] == "modArea" and ("None" in msg and (" 0" in msg or "'0'" in msg)):
        return "unset-dimension-reads-zero/modArea"
    if parts[0] == "param" and parts[-1] in RECOMPUTED_ON_LOAD:
        m = re.search(r"differs: '([-+.e0-9]+)' vs '([-+.e0-9]+)'", msg)
        if m:
            a, b = float(m.group(1)), float(m.group(2))
            if abs(a - b) <= TOLERANCES["recomputed_rel"] * max(abs(a), abs(b)):
                return None
        return "param-recomputed-on-load/%s" % parts[-1]
    if parts[0] == "param" and "('raises', 'ParameterError')" in msg or parts[0] == "param" and "('unset',)" in msg:
        return "nodefault-param-partially-assigned-column-dropped"
    return key


def roundtrip(rec, rng, r, cs, bp, w, kind):
    from armi.bookkeeping.db import Database
    from vlib import obs

    r.p.cycle, r.p.timeNode = rng.randint(0, 3), rng.randint(0, 5)
    cyc, node = r.p.cycle, r.p.timeNode
    try:
        # documented normalisation: the database stores and restores the *sorted* child order.  Composite.sort() orders a
        # DerivedShape by its cached area, which may be stale right after a temperature edit, so bring the caches up to date
        # (one full observation) before sorting; otherwise the original would be left in an order sort() itself would not keep.
        obs.obs(r)
        r.sort()
        o0 = obs.obs(r)
        db = Database("c04-%d.h5" % rng.randrange(10 ** 9), "w")
        db.open()
        try:
            db.writeToDB(r)
            o0b = obs.obs(r)
            d = obs.diff(o0, o0b)
            rec.hit("law.write-does-not-change-model")
            for k, m in d[:5]:
                rec.violation("write-changed-the-model/" + k, m, w)
            r1 = db.load(cyc, node, cs=cs, bp=bp)
            r2 = db.load(cyc, node, cs=cs, bp=bp)
            o1, o2 = obs.obs(r1), obs.obs(r2)
            rec.hit("law.roundtrip")
            rec.hit("nodes.compared", len(o0))
            seen = set()
            for k, m in obs.diff(o0b, o1, limit=400):
                k = classify(k, m, w)
                if k is not None and k not in seen:
                    seen.add(k)
                    rec.violation("roundtrip/" + k, m, w)
            rec.hit("law.load-twice")
            for k, m in obs.diff(o1, o2)[:5]:
                rec.violation("load-twice-differs/" + k, m, w)
            if rng.random() < .7:
                # a later time node of the SAME in-memory reactor, after changes that touch grids: conversion to full core,
                # pitch change, block height (axial grid bounds) and a little more history
                post = []
                try:
                    if str(r.core.symmetry.domain).lower().startswith("third") and type(r.core.spatialGrid).__name__ == "HexGrid" and rng.random() < .6:
                        from armi.reactor.converters.geometryConverters import ThirdCoreHexToFullCoreChanger
                        from vlib.env import quiet as _q

                        with _q():
                            ThirdCoreHexToFullCoreChanger(cs).convert(r)
                        post.append("third->full")
                    if type(r.core.spatialGrid).__name__ == "HexGrid" and rng.random() < .5:
                        r.core.spatialGrid.changePitch(r.core.spatialGrid.pitch * rng.uniform(1.0, 1.1))
                        post.append("changePitch")
                    if rng.random() < .6:
                        a_ = rng.choice(list(r.core))
                        b_ = rng.choice(list(a_))
                        b_.setHeight(b_.getHeight() * rng.uniform(.8, 1.3))
                        post.append("setHeight")
                    for b_ in r.core.getBlocks()[:5]:
                        b_.p.power = rng.uniform(1, 100)
                    post.append("params")
                except Exception as e:
                    rec.crash("post-write-op", e, dict(w, post=post))
                r.p.timeNode = node + 2
                obs.obs(r)
                r.sort()
                oL = obs.obs(r)
                db.writeToDB(r)
                rL = db.load(cyc, node + 2, cs=cs, bp=bp)
                rec.hit("law.roundtrip-later-node")
                seen = set()
                for k, m in obs.diff(oL, obs.obs(rL), limit=200):
                    k = classify(k, m, w)
                    if k is not None and k not in seen:
                        seen.add(k)
                        rec.violation("roundtrip/" + k, m, dict(w, post=post, which="later node of the same in-memory reactor"))
                r.p.timeNode = node
            if rng.random() < .6:
                # save the loaded reactor under another time step and load again: same state
                r1.p.timeNode = node + 1
                db.writeToDB(r1)
                r3 = db.load(cyc, node + 1, cs=cs, bp=bp)
                r1.p.timeNode = node
                r3.p.timeNode = node
                o3 = obs.obs(r3)
                rec.hit("law.idempotent")
                seen = set()
                for k, m in obs.diff(o1, o3, limit=100, ignore_params=("timeNode",)):
                    k = classify(k, m, w)
                    if k is not None and k not in seen:
                        seen.add(k)
                        rec.violation("not-idempotent/" + k, m, w)
        finally:
            db.close()
            try:
                os.remove(db.fileName)
            except OSError:
                pass
    except Exception as e:
        rec.crash("roundtrip/" + kind, e, w)
