"""C14 - fuel shuffling conserves the inventory and keeps the core's lookups truthful.

Workload: seeded histories of real fuel-management calls (``FuelHandler.swapAssemblies / swapCascade /
dischargeSwap``, ``Core.add``, ``Core.removeAssembly``) on generated hex cores (third and full symmetry, own
spent-fuel-pool grid) and on the repo's full test reactor, under every ``stationaryBlockFlags`` class
(none / GRID_PLATE / two flags) x ``trackAssems`` on/off.

Monitors
  1. ambient hook (vlib.hooks.wrap) after Core.add, Core.removeAssembly, Assembly.moveTo,
     FuelHandler.swapAssemblies, FuelHandler.dischargeSwap - judged only at quiescent points (outermost hooked
     call): the three lookup tables against the child list, at most one assembly per location.  It also runs
     while armi builds the reactors (factory / loadTestReactor).
  2. conservation ledger kept by the harness (a dict model written from the documented effect of each
     operation): core and pool children == initial + charged - purged, each assembly where the operation put it.
  3. per-block content (type, height, every component's dimensions cold+hot, temperatures, number densities)
     and per-assembly block sequence before/after every operation; blocks designated stationary must stay at
     their core (i,j,k) / (x,y,z) and change owner.
  4. the PUBLIC lookups after every operation, against the same ledger: getAssemblyWithStringLocation(label) for
     every cell of the domain (label = "%03d-%03d" of the (ring, pos) the harness obtains by walking each hex ring
     counter-clockwise as drawn in the docstring; empty cells -> None), getAssemblyByName / getBlockByName for every
     core and pool member, the names of purged assemblies and blocks (KeyError / None / a present object that now
     carries that name are the only acceptable answers), getAssembly by number / location / name,
     getLocationContents (assembly and block level) for a sample of labels and, as its docstring allows, locators.
  5. the pool's cells: discharged assemblies occupy pairwise distinct cells of the pool grid.

The model never calls the code under test to obtain its expectation: positions come from the generator's own
cell list, the expected effect of an operation from its docstring, the content snapshot from plain reads.
"""
import random

PROP = "C14"
LEVEL = "exploration"
RULE = (
    "one case = one history of 10-150 operations drawn from {swapAssemblies over random location pairs (plus an all-pairs sweep on small "
    "cores), swapCascade of 3-6 (a quarter of them with None entries, which the cascade documents as skipped), dischargeSwap(fresh from "
    "blueprints | from the pool, outgoing), Core.add(fresh, free in-domain cell), "
    "Core.removeAssembly(discharge True/False)} on a generated hex core (rings 2-5, third/full, 2-3 designs, grid plate + random "
    "fuel/shield/control/plenum blocks; axial layout of the designs: one shared mesh | one design with two blocks merged into one (fewer "
    "blocks, conformal mesh) | one design with its own block count and heights under detailedAxialExpansion; pool grid empty, pre-filled, "
    "the default pool without a grid, or no pool at all) or on the full test reactor; settings cycle through "
    "stationaryBlockFlags in {[], [GRID_PLATE], [GRID_PLATE, PLENUM]} x trackAssems in {on, off}. distinct = (reactor class, symmetry, "
    "rings, settings, the sequence of (operation, cells, outcome)); non-trivial = at least one operation was accepted and moved an assembly."
)
TOLERANCES = {"stationary_xyz_rel_pitch": 1e-9, "stored_values": "exact (==, NaN==NaN)",
              "stationary_z": "judged for every stationary block of cores whose designs share one axial mesh, and for the bottom block (equal height in "
                              "every design) of the others; above it, index k of the 'merged' / 'detailed' design has another height or elevation than in "
                              "its swap partner, which swapAssemblies documents as outside its precondition (it only warns): x, y and (i, j, k) are judged"}
EXHAUSTIVE = {"quick": False, "thorough": False}
EXHAUSTIVE_PART = "all unordered location pairs of each small (2-3 ring) generated core in the 'allpairs' cases; everything else sampled"
FLOORS = {
    "quick": {"ledger.inventory": 3000, "ledger.location": 3000, "content.sequence": 3000, "content.block": 3000, "stationary.position": 1500,
              "stationary.exchanged": 300, "lookup.childrenByLocator": 4000, "lookup.assembliesByName": 4000, "lookup.blocksByName": 4000,
              "lookup.purged-not-returned": 4000, "op.swap.accepted": 800, "op.swap.refused-misaligned": 30, "op.cascade.accepted": 100,
              "op.dischargeSwap.fresh.accepted": 80, "op.dischargeSwap.sfp.accepted": 30, "op.add.accepted": 100, "op.remove.accepted": 100,
              "op.remove.to-sfp": 20, "op.remove.purged": 40, "tier.testreactor.ops": 300, "allpairs.swaps": 100,
              "add.to-an-occupied-location": 60, "hook:Core.add": 500, "hook:Core.removeAssembly": 200, "hook:Assembly.moveTo": 2000, "hook:FuelHandler.swapAssemblies": 1000,
              "hook:FuelHandler.dischargeSwap": 100,
              "public.getAssemblyWithStringLocation": 3000, "public.getAssemblyWithStringLocation.occupied": 45000,
              "public.getAssemblyWithStringLocation.empty": 40000, "public.getAssemblyByName": 60000, "public.getBlockByName": 250000,
              "public.purged-name-queries": 45000, "public.getAssembly": 25000, "public.getAssembly.pool-member": 1500,
              "public.getLocationContents.assemblies": 3000, "public.getLocationContents.blocks": 3000,
              "public.getLocationContents.empty-refused": 2800, "public.getLocationContents.locator-objects": 800,
              "ledger.pool-distinct-cells": 1300, "op.cascade.with-none": 70, "op.cascade.none-first": 12,
              "mesh.merged.ops": 400, "mesh.detailed.ops": 450, "mesh.swap-different-block-counts": 120, "nopool.ops": 400},
}
FLOORS["thorough"] = {k: v * 6 for k, v in FLOORS["quick"].items()}
TIMEOUT = {"quick": 900, "thorough": 3600}
ASSUMPTIONS = [
    "Flags.fromString / hasFlags (which blocks a stationaryBlockFlags entry designates) are trusted here",
    "initial state: Core.regenAssemblyLists() is called once after construction (as armi.testing.loadTestReactor does) so that assemblies the "
    "blueprint placed in the pool are registered; the gap before that call is recorded under observed, not judged",
    "generated reactors get a real Operator (operators.factory(cs) + initializeInterfaces(r)) for the FuelHandler",
    "location labels: an assembly's is '%03d-%03d' % (ring, pos) ('001-001' in the docstrings), a block's is that plus '-%03d' % axial index; "
    "(ring, pos) of a cell comes from the harness's own walk around the ring, never from armi",
    "a reactor without a pool is obtained as armi's own test does: del r.excore['sfp'] after reactors.factory (which always adds a default pool)",
]

SBF_CLASSES = {"none": [], "gridplate": ["GRID_PLATE"], "two": ["GRID_PLATE", "PLENUM"]}
COMBOS = [(s, t) for s in ("none", "gridplate", "two") for t in (True, False)]


def plan(tier, seed):
    q = tier == "quick"
    shards = []
    for i in range(11):
        shards.append({"name": "gen%d" % i, "kind": "gen", "shard": i, "cases": 14 if q else 90, "maxrings": 4 if q else 5, "maxops": 150})
    shards.append({"name": "pairs", "kind": "pairs", "shard": 0, "cases": 6 if q else 36})
    # the test reactor: one settings combination per shard (loading costs ~2 s)
    trc = [("gridplate", True), ("two", True), ("none", False), ("gridplate", False), ("two", False), ("none", True)]
    for i, (s, t) in enumerate([trc[(k + seed) % 6] for k in range(4)] if q else trc):
        shards.append({"name": "tr-%s-%s" % (s, "track" if t else "notrack"), "kind": "testreactor", "sbf": s, "track": t,
                       "cases": 3 if q else 14, "maxops": 120 if q else 150})
    return shards


# ------------------------------------------------------------------------------------------------ monitor state
class _Mon:
    rec = None
    depth = 0
    armed = {}  # id(core) -> Session
    reported = set()  # (key, subject) for un-armed cores


MON = _Mon()
_ALIASES = set()


def _core_of(label, a):
    from armi.reactor.cores import Core

    try:
        if label.startswith("Core."):
            c = a[0]
        elif label.startswith("Assembly."):
            c = a[0].parent
        else:
            c = a[0].r.core
    except Exception:
        return None
    return c if isinstance(c, Core) else None


def install_hooks(rec):
    from armi.physics.fuelCycle.fuelHandlers import FuelHandler
    from armi.reactor.assemblies import Assembly
    from armi.reactor.cores import Core
    from vlib import hooks

    MON.rec = rec

    def pre(a, kw):
        MON.depth += 1
        return None

    def onerror(tok, e, a, kw):
        MON.depth -= 1

    def mkpost(label):
        def post(tok, res, a, kw):
            MON.depth -= 1
            if MON.depth == 0:
                ambient(label, a)

        return post

    for owner, name in ((Core, "add"), (Core, "removeAssembly"), (Assembly, "moveTo"), (FuelHandler, "swapAssemblies"), (FuelHandler, "dischargeSwap")):
        hooks.wrap(owner, name, pre=pre, post=mkpost("%s.%s" % (owner.__name__, name)), onerror=onerror)


def table_findings(core, sfp, purged_a, purged_b, rec):
    """The lookup tables against the child lists.  Returns [(key, subject name, what, object)]."""
    out = []
    kids = list(core.getChildren())
    kidset = {id(a) for a in kids}
    cbl = core.childrenByLocator
    # 1. childrenByLocator == {a.spatialLocator: a for a in core}
    rec.hit("lookup.childrenByLocator")
    for a in kids:
        got = cbl.get(a.spatialLocator)
        if got is not a:
            out.append(("lookup/childrenByLocator/present-assembly-not-found-at-its-locator", a.getName(),
                        "childrenByLocator[%s] is %s, but %s has that locator" % (a.spatialLocator, got, a), a))
    for loc, a in list(cbl.items()):
        if id(a) not in kidset:
            out.append(("lookup/childrenByLocator/entry-for-absent-assembly", a.getName(), "childrenByLocator[%s] = %s which is not a child of the core" % (loc, a), a))
        elif a.spatialLocator != loc:
            out.append(("lookup/childrenByLocator/stale-key", a.getName(), "childrenByLocator[%s] = %s whose locator is %s" % (loc, a, a.spatialLocator), a))
    # 2. at most one assembly per location
    rec.hit("lookup.one-per-location")
    seen = {}
    for a in kids:
        loc = a.spatialLocator
        k = tuple(int(x) for x in loc.indices) if getattr(loc, "grid", None) is not None else None
        if k is None:
            out.append(("location/core-child-without-grid-location", a.getName(), "%s is a child of the core but its locator %r has no grid" % (a, loc), a))
        elif k in seen:
            out.append(("location/two-assemblies-one-location", a.getName(), "%s and %s both sit at %s" % (seen[k], a, k), a))
        else:
            seen[k] = a
    # 3. names -> every present assembly / block under its current name
    present = [("core", a) for a in kids] + ([("sfp", a) for a in sfp.getChildren()] if sfp is not None else [])
    rec.hit("lookup.assembliesByName")
    rec.hit("lookup.blocksByName")
    abn, bbn = core.assembliesByName, core.blocksByName
    for where, a in present:
        if abn.get(a.getName()) is not a:
            out.append(("lookup/assembliesByName/present-assembly-not-found/%s" % where, a.getName(),
                        "assembliesByName.get(%r) is %s but %s is in the %s" % (a.getName(), abn.get(a.getName()), a, where), a))
        for b in a:
            if bbn.get(b.getName()) is not b:
                out.append(("lookup/blocksByName/present-block-not-found/%s" % where, b.getName(),
                            "blocksByName.get(%r) is %s but that block is in %s in the %s" % (b.getName(), bbn.get(b.getName()), a, where), b))
    # 4. never a purged one
    if purged_a is not None:
        rec.hit("lookup.purged-not-returned")
        for n, b in bbn.items():
            if n != b.getName() and id(b) not in purged_b and (n, id(b)) not in _ALIASES:
                _ALIASES.add((n, id(b)))
                rec.add("observed (unjudged): blocksByName keys that are a former name of a block still present", 1)
        for n, a in abn.items():
            if id(a) in purged_a:
                out.append(("lookup/assembliesByName/returns-purged/under-%s-name" % ("current" if n == a.getName() else "former"), n,
                            "assembliesByName[%r] returns the purged %s" % (n, a), a))
        for n, b in bbn.items():
            if id(b) in purged_b:
                out.append(("lookup/blocksByName/returns-purged/under-%s-name" % ("current" if n == b.getName() else "former"), n,
                            "blocksByName[%r] returns a block of a purged assembly (%s, current name %s)" % (n, b, b.getName()), b))
    return out


def ambient(label, a):
    rec = MON.rec
    core = _core_of(label, a)
    if core is None:
        return
    sess = MON.armed.get(id(core))
    if sess is not None and sess.muted:
        return
    if sess is not None:
        # the hook fires inside the harness call, before the model is advanced: what this very operation purges is announced in sess.pending
        fnd = table_findings(core, sess.sfp, sess.purged_a | sess.pending[0], sess.purged_b | sess.pending[1], rec)
        reported, wit = sess.reported, sess.witness
    else:
        # armi's own construction: only the core-level tables are meaningful (the pool is registered later)
        fnd = table_findings(core, None, None, None, rec)
        reported, wit = MON.reported, lambda: {"phase": "reactor construction / unarmed core", "n_children": len(core)}
    for key, subject, what, obj in fnd:
        if (key, subject) in reported:  # a lingering inconsistency is reported where it first appears
            continue
        reported.add((key, subject))
        if label == "Assembly.moveTo":
            # a bare moveTo is not one of the listed fuel-management operations (DESIGN C14 limits)
            rec.skip("bare Assembly.moveTo (not a fuel-management operation) left: " + key)
            continue
        if sess is not None:
            key = sess.classify(key, obj)
        if key == NOPOOL_KEY:
            if (key, None) not in reported:
                reported.add((key, None))
                rec.violation(key, what, dict(wit(), subject=subject, seen_after=label))
        elif key.endswith("under-former-name"):
            # appears at whichever later operation purges the owner; the mechanism is the alias, so no operation suffix
            rec.violation(key, what, dict(wit(), subject=subject, seen_after=label))
        else:
            rec.violation("%s/after-%s" % (key, label), what, dict(wit(), subject=subject))


def _tb(e):
    import traceback

    return "".join(traceback.format_tb(e.__traceback__))


# ------------------------------------------------------------------------------------------------ content
def _num(x):
    if isinstance(x, float) and x != x:
        return "nan"
    return x


def block_content(b):
    """Plain reads of what the property calls an assembly's contents, for one block."""
    comps = []
    for c in b:
        dims = []
        for d in c.DIMENSION_NAMES:
            try:
                dims.append((d, _num(c.getDimension(d, cold=True)), _num(c.getDimension(d))))
            except Exception as e:  # unresolved dimension: stable marker
                dims.append((d, "err", type(e).__name__))
        nd = tuple(sorted((k, _num(v)) for k, v in c.getNumberDensities().items()))
        comps.append((c.name, type(c).__name__, c.material.name, _num(c.inputTemperatureInC), _num(c.temperatureInC), tuple(dims), nd))
    return (b.getType(), int(b.p.flags), _num(b.p.height), _num(b.getHeight()), tuple(comps))


def content_diff(old, new):
    if old[:4] != new[:4]:
        return "block type/flags/height %r -> %r" % (old[:4], new[:4])
    if len(old[4]) != len(new[4]):
        return "number of components %d -> %d" % (len(old[4]), len(new[4]))
    for co, cn in zip(old[4], new[4]):
        if co != cn:
            if co[:5] != cn[:5]:
                return "component %s header %r -> %r" % (co[0], co[:5], cn[:5])
            if co[5] != cn[5]:
                return "component %s dimensions %r -> %r" % (co[0], [x for x, y in zip(co[5], cn[5]) if x != y], [y for x, y in zip(co[5], cn[5]) if x != y])
            return "component %s number densities changed (%d -> %d nuclides)" % (co[0], len(co[6]), len(cn[6]))
    return "?"


# ------------------------------------------------------------------------------------------------ location labels
def ringpos_walk(maxring):
    """(i, j) -> (ring, pos), by walking: ring r starts at (r-1, 0) (upper right in the flats-up picture of
    HexGrid.getIndicesFromRingAndPos) and is numbered counter-clockwise, r-1 cells per side: over the top (0, r-1), the upper left
    (-(r-1), r-1), the lower left (-(r-1), 0), the bottom (0, -(r-1)), the lower right (r-1, -(r-1)) and back."""
    table = {(0, 0): (1, 1)}
    for ring in range(2, maxring + 1):
        i, j, pos = ring - 1, 0, 1
        for di, dj in ((-1, 1), (-1, 0), (0, -1), (1, -1), (1, 0), (0, 1)):
            for _ in range(ring - 1):
                table[(i, j)] = (ring, pos)
                pos += 1
                i, j = i + di, j + dj
        assert (i, j) == (ring - 1, 0) and pos == 6 * (ring - 1) + 1
    return table


def cell_label(ringpos):
    return "%03d-%03d" % ringpos  # the "001-001" of the docstrings


# ------------------------------------------------------------------------------------------------ session (ledger model)
class Session:
    def __init__(self, rec, r, cs, o, cells, sbf_names, track, info, pitch):
        from armi.physics.fuelCycle import fuelHandlers
        from armi.reactor.flags import Flags

        self.rec, self.r, self.cs, self.o = rec, r, cs, o
        self.core, self.sfp = r.core, r.excore.get("sfp")
        self.fh = fuelHandlers.FuelHandler(o)
        self.cells = list(cells)  # generator's own in-domain cells (i, j)
        self.sbf = [Flags.fromString(s) for s in sbf_names]
        self.track = track
        self.sfp_usable = self.sfp is not None and self.sfp.spatialGrid is not None
        self.info = info
        self.pitch = pitch
        self.history = []
        self.reported = set()
        self.muted = False
        self.dead = False
        self.keep = []  # strong references: ids must not be recycled
        self.purged_a, self.purged_b = set(), set()
        self.at, self.in_sfp, self.seq, self.bcontent, self.stat = {}, [], {}, {}, {}
        self.moved_any = False
        self.fresh_given_away = set()
        self.nchecks = 0
        self.pending = (set(), set())
        self.purged_names = []  # (assembly name when it was purged, assembly, [(block name, block)])
        self.crashed = set()
        self.mesh = info.get("mesh", "shared")
        self.nopool_tracked = self.sfp is None and track
        self.lost = set()  # ids of assemblies/blocks sent to a pool that does not exist (announced before the call, like pending)
        for a in self.core.getChildren():
            ij = tuple(int(x) for x in a.spatialLocator.indices[:2])
            self.at[ij] = a
            self.register(a)
            self.note_stationary(ij, a)
        if self.sfp is not None:
            for a in self.sfp.getChildren():
                self.in_sfp.append(a)
                self.register(a)
        # labels of every cell an assembly can be at in this session: the domain cells (Core.add targets) and the initial positions (swap targets)
        everycell = sorted(set(self.cells) | set(self.at))
        rp = ringpos_walk(max(max(abs(c[0]), abs(c[1]), abs(c[0] + c[1])) for c in everycell) + 1)
        self.labels = {c: cell_label(rp[c]) for c in everycell}
        MON.armed[id(self.core)] = self

    # -- bookkeeping
    def witness(self):
        return dict(self.info, history=self.history[-40:], n_ops=len(self.history))

    def is_stat(self, b):
        return any(b.hasFlags(f) for f in self.sbf)

    def register(self, a):
        self.keep.append(a)
        self.seq[id(a)] = list(a.getChildren())
        for b in a:
            self.keep.append(b)
            self.bcontent[id(b)] = block_content(b)

    def note_stationary(self, ij, a):
        for k, b in enumerate(self.seq[id(a)]):
            if self.is_stat(b):
                self.stat[ij + (k,)] = (b, tuple(float(x) for x in b.spatialLocator.getGlobalCoordinates()))

    def ks(self, a):
        return [k for k, b in enumerate(self.seq[id(a)]) if self.is_stat(b)]

    def pos(self, a):
        for ij, x in self.at.items():
            if x is a:
                return ij
        raise KeyError(a)

    def free_cells(self):
        return [c for c in self.cells if c not in self.at]

    def viol(self, key, what, subject=None, **extra):
        base = key.split("/after-")[0]  # a lingering disagreement is reported once, with the operation after which it first appeared
        if (base, subject) in self.reported:
            return
        self.reported.add((base, subject))
        self.rec.violation(key, what, dict(self.witness(), subject=subject, **extra))

    def classify(self, key, obj):
        """Name the input class of a table finding from what the harness itself did (never from armi's state)."""
        if key.startswith("lookup/blocksByName/present-block-not-found") and id(obj) in self.fresh_given_away:
            return key + "/stationary-block-of-fresh-incoming-handed-to-outgoing"
        if self.nopool_tracked and "/returns-purged" in key and id(obj) in self.lost:
            # one mechanism, seen through both tables and every public getter: trackAssems is on, the reactor has no pool, the discharged
            # assembly (discharge=True; not a purge) therefore went nowhere - and is still answered by name
            return NOPOOL_KEY
        return key

    def leave(self, a, p, to_sfp):
        """Model: assembly a leaves core position p (its current blocks go with it)."""
        del self.at[p]
        if to_sfp:
            self.in_sfp.append(a)
        else:
            self.purged_a.add(id(a))
            self.purged_b.update(id(b) for b in self.seq[id(a)])
            self.purged_names.append((a.getName(), a, [(b.getName(), b) for b in self.seq[id(a)]]))

    # -- full check of the real state against the model
    def check(self, opname, involved=None):
        """involved: assemblies the operation touched - their block contents are re-read every time; everybody's contents every 8th check and
        at the end of a history (block sequence, locators, inventory, positions: always, for everybody)."""
        rec, core, sfp = self.rec, self.core, self.sfp
        self.nchecks += 1
        everybody = involved is None or self.nchecks % 8 == 0
        touched = {id(x) for x in involved} if involved is not None else set()
        # (2a) inventory
        rec.hit("ledger.inventory")
        kids = list(core.getChildren())
        pool = list(sfp.getChildren()) if sfp is not None else []
        want_core = {id(a): a for a in self.at.values()}
        want_pool = {id(a): a for a in self.in_sfp}
        resync = False
        for label, have, want in (("core", kids, want_core), ("sfp", pool, want_pool)):
            ids = [id(a) for a in have]
            if len(ids) != len(set(ids)):
                dup = sorted({a.getName() for a in have if ids.count(id(a)) > 1})
                self.viol("ledger/%s/assembly-duplicated/after-%s" % (label, opname), "%s holds %s more than once" % (label, dup), dup[0])
                resync = True
            lost = [want[i].getName() for i in want if i not in set(ids)]
            extra = [a.getName() for a in have if id(a) not in want]
            if lost or extra:
                self.viol("ledger/%s/inventory-differs-from-model/after-%s" % (label, opname),
                          "%s: expected-but-absent %s, present-but-unexpected %s (model = initial + charged - purged)" % (label, lost, extra), (lost + extra)[0])
                resync = True
        both = {id(a) for a in kids} & {id(a) for a in pool}
        if both:
            self.viol("ledger/assembly-in-core-and-pool/after-%s" % opname, "%d assemblies are children of both the core and the pool" % len(both))
            resync = True
        # (2b) each assembly where the operation put it
        rec.hit("ledger.location")
        for ij, a in self.at.items():
            loc = a.spatialLocator
            ok = a.parent is core and getattr(loc, "grid", None) is core.spatialGrid and tuple(int(x) for x in loc.indices) == ij + (0,)
            if not ok:
                self.viol("location/assembly-not-where-the-operation-put-it/after-%s" % opname,
                          "%s expected at %s of the core grid; parent=%s locator=%r grid-is-core-grid=%s" % (a.getName(), ij, a.parent, loc, getattr(loc, "grid", None) is core.spatialGrid), a.getName())
                resync = True
        for a in self.in_sfp:
            if a.parent is not sfp or getattr(a.spatialLocator, "grid", None) is not sfp.spatialGrid:
                self.viol("location/discharged-assembly-not-in-pool-grid/after-%s" % opname, "%s parent=%s locator=%r" % (a.getName(), a.parent, a.spatialLocator), a.getName())
        if self.sfp_usable and len(pool) >= 2:
            # (2c) the pool is a grid of storage cells: whatever cell the operation chose, it holds one assembly
            rec.hit("ledger.pool-distinct-cells")
            cellsof = {}
            for a in pool:
                loc = a.spatialLocator
                if getattr(loc, "grid", None) is sfp.spatialGrid:
                    cellsof.setdefault(tuple(int(x) for x in loc.indices), []).append(a.getName())
            shared = {c: n for c, n in cellsof.items() if len(n) > 1}
            if shared:
                c = sorted(shared)[0]
                self.viol("location/two-assemblies-one-pool-location/after-%s" % opname,
                          "pool cell %s holds %s (%d pool cells are shared in all)" % (c, shared[c], len(shared)))
        # (3) contents
        rec.hit("content.sequence")
        rec.hit("content.block")
        for a in list(self.at.values()) + list(self.in_sfp):
            have = list(a.getChildren())
            want = self.seq[id(a)]
            if [id(b) for b in have] != [id(b) for b in want]:
                self.viol("content/block-sequence-changed/after-%s" % opname,
                          "%s: blocks %s, expected %s" % (a.getName(), [b.getName() for b in have], [b.getName() for b in want]), a.getName())
                self.seq[id(a)] = have
                for b in have:
                    if id(b) not in self.bcontent:
                        self.keep.append(b)
                        self.bcontent[id(b)] = block_content(b)
                resync = True
            for k, b in enumerate(have):
                if b.parent is not a or int(b.spatialLocator.k) != k or getattr(b.spatialLocator, "grid", None) is not a.spatialGrid:
                    self.viol("content/block-locator-disagrees-with-its-index/after-%s" % opname,
                              "%s[%d]=%s: parent=%s locator=%r grid-is-owner-grid=%s" % (a.getName(), k, b.getName(), b.parent, b.spatialLocator, getattr(b.spatialLocator, "grid", None) is a.spatialGrid), a.getName())
                if not (everybody or id(a) in touched):
                    continue
                rec.hit("content.block-reads")
                new = block_content(b)
                old = self.bcontent[id(b)]
                if new != old:
                    self.viol("content/block-altered/after-%s" % opname, "%s[%d] %s: %s" % (a.getName(), k, b.getName(), content_diff(old, new)), a.getName())
                    self.bcontent[id(b)] = new
        # (3b) stationary blocks keep their core position
        if self.stat:
            rec.hit("stationary.position")
        tol = TOLERANCES["stationary_xyz_rel_pitch"] * self.pitch
        for ijk, (b, xyz) in list(self.stat.items()):
            a = self.at.get(ijk[:2])
            if a is None:
                continue
            have = a.getChildren()
            if ijk[2] >= len(have) or have[ijk[2]] is not b:
                self.viol("stationary/block-left-its-core-position/after-%s" % opname,
                          "core position %s held stationary block %s; now holds %s (owner %s)" % (ijk, b.getName(), have[ijk[2]].getName() if ijk[2] < len(have) else None, a.getName()), b.getName())
                resync = True
                continue
            now = tuple(float(x) for x in b.spatialLocator.getGlobalCoordinates())
            if self.mesh != "shared" and ijk[2] > 0:
                now = now[:2] + xyz[2:]  # index k > 0 may have another height / elevation in the other owner (TOLERANCES.stationary_z)
            if any(abs(u - v) > tol for u, v in zip(now, xyz)):
                self.viol("stationary/global-coordinates-moved/after-%s" % opname, "stationary block %s at %s: (x,y,z) %r -> %r" % (b.getName(), ijk, xyz, now), b.getName())
                self.stat[ijk] = (b, now)
        if resync:
            self.resync()
        else:
            self.public_lookups(opname, [x for x in (involved or []) if x is not None])

    # -- (4) the public lookups against the ledger ---------------------------------------------------------------------
    def ask(self, where, f, *a, **kw):
        """-> ("ok", value) | ("keyerror", exc) | ("crash", exc).  KeyError is how these getters say 'nothing there'."""
        try:
            return "ok", f(*a, **kw)
        except KeyError as e:
            return "keyerror", e
        except Exception as e:
            if where not in self.crashed:
                self.crashed.add(where)
                self.rec.crash(where, e, self.witness())
            return "crash", e

    def rotating(self, items, n, salt=0):
        """n members of items chosen by the check counter (not by the case rng: the workload does not depend on the monitors)."""
        if not items:
            return []
        m = len(items)
        out = []
        for t in range(n):
            x = items[(self.nchecks * (7 + 4 * t) + 3 * t + salt) % m]
            if not any(x is y for y in out):
                out.append(x)
        return out

    def public_lookups(self, opname, touched):
        rec, core = self.rec, self.core
        sfx = "/after-%s" % opname
        present = {id(a): a for a in list(self.at.values()) + list(self.in_sfp)}
        present_b = {id(b) for a in present.values() for b in self.seq[id(a)]}
        # (4a) by location label: every cell of the domain, occupied or empty
        rec.hit("public.getAssemblyWithStringLocation")
        nocc = nemp = 0
        for ij in self.cells:
            want = self.at.get(ij)
            st, got = self.ask("getAssemblyWithStringLocation", core.getAssemblyWithStringLocation, self.labels[ij])
            if st == "crash":
                break
            if st == "keyerror":
                got = None
            if want is None:
                nemp += 1
            else:
                nocc += 1
            if got is not want:
                kind = "present-assembly-not-found" if got is None else ("assembly-returned-for-empty-location" if want is None else "wrong-assembly")
                self.viol("lookup/getAssemblyWithStringLocation/%s%s" % (kind, sfx), "getAssemblyWithStringLocation(%r) [cell %s] is %s; that cell holds %s"
                          % (self.labels[ij], ij, got, want.getName() if want is not None else "nothing"))
        rec.hit("public.getAssemblyWithStringLocation.occupied", nocc)
        rec.hit("public.getAssemblyWithStringLocation.empty", nemp)
        # (4b) by name: every member of the core and the pool, every block of theirs
        na = nb = 0
        for a in present.values():
            where = "core" if a.parent is core else "sfp"
            st, got = self.ask("getAssemblyByName", core.getAssemblyByName, a.getName())
            na += 1
            if st != "crash" and (st == "keyerror" or got is not a):
                self.viol("lookup/getAssemblyByName/%s/%s%s" % ("present-assembly-not-found" if st == "keyerror" or got is None else "wrong-object", where, sfx),
                          "getAssemblyByName(%r) -> %s, but %s is in the %s" % (a.getName(), got if st == "ok" else "KeyError", a, where))
            for b in self.seq[id(a)]:
                st, got = self.ask("getBlockByName", core.getBlockByName, b.getName())
                nb += 1
                if st != "crash" and (st == "keyerror" or got is not b):
                    key = "lookup/getBlockByName/%s/%s" % ("present-block-not-found" if st == "keyerror" or got is None else "wrong-object", where)
                    if id(b) in self.fresh_given_away:
                        key += "/stationary-block-of-fresh-incoming-handed-to-outgoing"
                    self.viol(key + sfx, "getBlockByName(%r) -> %s, but that block is in %s in the %s" % (b.getName(), got if st == "ok" else "KeyError", a, where))
        rec.hit("public.getAssemblyByName", na)
        rec.hit("public.getBlockByName", nb)
        # (4c) names of the purged: KeyError, None, or a present object that now carries the name
        if self.purged_names:
            n = len(self.purged_names)
            nq = 0
            for t in sorted({n - 1, max(0, n - 2), max(0, n - 3), (self.nchecks * 7) % n, (self.nchecks * 13 + 1) % n, 0}):
                name, a, blks = self.purged_names[t]
                for getter, f, kw in (("getAssemblyByName", core.getAssemblyByName, {}), ("getAssembly", core.getAssembly, {"assemblyName": name})):
                    st, got = self.ask(getter, f, *(() if kw else (name,)), **kw)
                    nq += 1
                    if st == "ok" and got is not None and not (id(got) in present and got.getName() == name):
                        key = "lookup/%s/returns-purged" % getter if got is a else "lookup/%s/returns-object-neither-in-core-nor-pool" % getter
                        self.viol(self.classify(key, got) if key.endswith("returns-purged") else key, "%s(%r) returns %s, %s" % (getter, name, got,
                                  "which was purged" if got is a else "the name belonged to a purged assembly"), None if self.nopool_tracked else getter)
                for bname, b in blks[:2] + blks[-1:]:
                    st, got = self.ask("getBlockByName", core.getBlockByName, bname)
                    nq += 1
                    if st == "ok" and got is not None and not (id(got) in present_b and got.getName() == bname):
                        key = "lookup/getBlockByName/returns-purged" if got is b else "lookup/getBlockByName/returns-object-neither-in-core-nor-pool"
                        self.viol(self.classify(key, got) if key.endswith("returns-purged") else key, "getBlockByName(%r) returns %s (current name %s) of the purged %s"
                                  % (bname, got, got.getName(), name), None if self.nopool_tracked else "getBlockByName")
            rec.hit("public.purged-name-queries", nq)
        # (4d) getAssembly by number / location / name: the assemblies the operation touched and a rotating few
        here = list(self.at.items())
        # the calls that sort or walk the whole core: every check on the generated cores, every other check on the test reactor's 80 assemblies
        heavy = len(here) <= 40 or self.nchecks % 2 == 0
        incore = [(ij, a) for ij, a in here if any(a is x for x in touched)][:4]
        ntouched = len(incore)
        for ij, a in self.rotating(here, 2):
            if not any(a is x for _, x in incore):
                incore.append((ij, a))
        ng = 0
        for t, (ij, a) in enumerate(incore):
            # by name: everybody sampled; by location (a sort of the core per call): three of the touched and one other; by number: one of each
            hows = [("assemblyName", {"assemblyName": a.getName()})]
            if (t < 3 or t == ntouched) and (heavy or t == 0):
                hows.append(("locationString", {"locationString": self.labels[ij]}))
            if t in (0, ntouched) and heavy:
                hows.append(("assemNum", {"assemNum": a.getNum()}))
            for how, kw in hows:
                st, got = self.ask("getAssembly", core.getAssembly, **kw)
                ng += 1
                if st != "crash" and (st == "keyerror" or got is not a):
                    self.viol("lookup/getAssembly/by-%s/%s%s" % (how, "present-assembly-not-found" if st == "keyerror" or got is None else "wrong-assembly", sfx),
                              "getAssembly(%s) -> %s; %s sits at %s %s" % (kw, got if st == "ok" else "KeyError", a.getName(), self.labels[ij], ij))
        free = self.free_cells()
        for c in self.rotating(free, 1 if heavy else 0):
            st, got = self.ask("getAssembly", core.getAssembly, locationString=self.labels[c])
            ng += 1
            if st == "ok" and got is not None:
                self.viol("lookup/getAssembly/by-locationString/assembly-returned-for-empty-location" + sfx, "getAssembly(locationString=%r) [cell %s, empty] -> %s" % (self.labels[c], c, got))
        rec.hit("public.getAssembly", ng)
        for p in self.rotating(self.in_sfp, 1 if heavy else 0):
            rec.hit("public.getAssembly.pool-member")
            for how, kw in (("assemblyName", {"assemblyName": p.getName()}), ("assemNum+includeSFP", {"assemNum": p.getNum(), "includeSFP": True})):
                st, got = self.ask("getAssembly", core.getAssembly, **kw)
                if st != "crash" and (st == "keyerror" or got is not p):
                    self.viol("lookup/getAssembly/by-%s/pool-member-%s%s" % (how, "not-found" if st == "keyerror" or got is None else "wrong-assembly", sfx),
                              "getAssembly(%s) -> %s; %s is in the pool" % (kw, got if st == "ok" else "KeyError", p.getName()))
        # (4e) getLocationContents: labels (assemblies, blocks), an empty cell, locator objects
        occ = incore[:5]
        if occ:
            labels = [self.labels[ij] for ij, _ in occ]
            wanta = [a for _, a in occ]
            rec.hit("public.getLocationContents.assemblies")
            st, got = self.ask("getLocationContents", core.getLocationContents, list(labels), assemblyLevel=True)
            if st != "crash" and (st == "keyerror" or len(got) != len(wanta) or any(g is not w for g, w in zip(got, wanta))):
                self.viol("lookup/getLocationContents/assemblies/%s%s" % ("present-assembly-not-found" if st == "keyerror" else "wrong-assemblies", sfx),
                          "getLocationContents(%s, assemblyLevel=True) -> %s; those cells hold %s" % (labels, got if st == "ok" else "KeyError %s" % got, [a.getName() for a in wanta]))
            ks = [(self.nchecks + t) % len(self.seq[id(a)]) for t, a in enumerate(wanta)]
            blabels = ["%s-%03d" % (lab, k) for lab, k in zip(labels, ks)]
            wantb = [self.seq[id(a)][k] for a, k in zip(wanta, ks)]
            if heavy:
                rec.hit("public.getLocationContents.blocks")
            st, got = self.ask("getLocationContents", core.getLocationContents, list(blabels)) if heavy else ("crash", None)
            if st != "crash" and (st == "keyerror" or len(got) != len(wantb) or any(g is not w for g, w in zip(got, wantb))):
                self.viol("lookup/getLocationContents/blocks/%s%s" % ("present-block-not-found" if st == "keyerror" else "wrong-blocks", sfx),
                          "getLocationContents(%s) -> %s; those places hold %s" % (blabels, got if st == "ok" else "KeyError %s" % got, [b.getName() for b in wantb]))
            if self.nchecks % 4 == 1:
                rec.hit("public.getLocationContents.locator-objects")
                locs = [core.spatialGrid[ij[0], ij[1], 0] for ij, _ in occ]
                st, got = self.ask("getLocationContents", core.getLocationContents, locs, assemblyLevel=True)
                if st == "keyerror":
                    self.viol("lookup/getLocationContents/location-objects-never-found", "getLocationContents([%s], assemblyLevel=True) raises %r although %s sits there; "
                              "the docstring takes 'location objects or strings'" % (locs[0], got, wanta[0].getName()))
                elif st == "ok" and (len(got) != len(wanta) or any(g is not w for g, w in zip(got, wanta))):
                    self.viol("lookup/getLocationContents/location-objects/wrong-assemblies" + sfx, "getLocationContents(%s, assemblyLevel=True) -> %s; those cells hold %s" % (locs, got, [a.getName() for a in wanta]))
        for c in self.rotating(free, 1 if heavy else 0, salt=5):
            st, got = self.ask("getLocationContents", core.getLocationContents, [self.labels[c]], assemblyLevel=True)
            if st == "keyerror":
                rec.hit("public.getLocationContents.empty-refused")
            elif st == "ok" and any(g is not None for g in got):
                self.viol("lookup/getLocationContents/assemblies/object-returned-for-empty-location" + sfx, "getLocationContents([%r], assemblyLevel=True) [cell %s, empty] -> %s" % (self.labels[c], c, got))

    def resync(self):
        """After a reported disagreement take the real state as the new model so one defect is reported once."""
        self.at = {}
        for a in self.core.getChildren():
            loc = a.spatialLocator
            if getattr(loc, "grid", None) is None:
                self.dead = True
                return
            self.at[tuple(int(x) for x in loc.indices[:2])] = a
            if id(a) not in self.seq:
                self.register(a)
        self.in_sfp = list(self.sfp.getChildren()) if self.sfp is not None else []
        for a in self.in_sfp:
            if id(a) not in self.seq:
                self.register(a)
        for a in list(self.at.values()) + self.in_sfp:
            self.seq[id(a)] = list(a.getChildren())
        self.stat = {}
        for ij, a in self.at.items():
            self.note_stationary(ij, a)

    # -- operations ------------------------------------------------------------------------------------------
    def fresh(self, rng, design=None):
        designs = sorted(self.r.blueprints.assemDesigns.keys())
        design = design or rng.choice(designs)
        if rng.random() < 0.5:
            a = self.core.createAssemblyOfType(design, cs=self.cs)
            how = "createAssemblyOfType"
        else:
            a = self.r.blueprints.constructAssem(self.cs, name=design)
            how = "constructAssem"
        self.register(a)
        return a, design, how

    def op_swap(self, a, b, tag="swap"):
        rec = self.rec
        pa, pb = self.pos(a), self.pos(b)
        ka, kb = self.ks(a), self.ks(b)
        desc = {"op": "swapAssemblies", "a": list(pa), "b": list(pb)}
        self.history.append(desc)
        try:
            self.fh.swapAssemblies(a, b)
        except ValueError as e:
            if ka != kb and "stationary" in str(e):
                desc["outcome"] = "refused"
                rec.reject("swapAssemblies refused: stationary blocks not aligned")
                rec.hit("op.swap.refused-misaligned")
                self.check("refused-swapAssemblies", [a, b])
                return False
            rec.crash("swapAssemblies", e, self.witness())
            self.dead = True
            return False
        except Exception as e:
            rec.crash("swapAssemblies", e, self.witness())
            self.dead = True
            return False
        desc["outcome"] = "done"
        if ka != kb:
            self.viol("stationary/misaligned-swap-accepted/swapAssemblies", "stationary indices %s vs %s but the swap was performed" % (ka, kb))
            self.resync()
            return True
        self.at[pa], self.at[pb] = b, a
        sa, sb = self.seq[id(a)], self.seq[id(b)]
        for k in ka:
            sa[k], sb[k] = sb[k], sa[k]
        if ka:
            rec.hit("stationary.exchanged")
        rec.hit("op.swap.accepted")
        if len(sa) != len(sb):
            rec.hit("mesh.swap-different-block-counts")
        self.moved_any = True
        self.check("swapAssemblies", [a, b])
        return True

    def op_cascade(self, given):
        """given may contain None: 'Skipping level .. in the cascade because it is None' - the cascade then runs over the others; with None in
        the first place every swap of the cascade has a None partner and swapAssemblies documents 'Cannot swap None assemblies ... Skipping'."""
        rec = self.rec
        none_at = [x for x, a in enumerate(given) if a is None]
        chain = [a for a in given if a is not None]
        if none_at and none_at[0] == 0:
            chain = chain[:1]  # nothing moves
        ps = [self.pos(a) for a in chain]
        kss = [self.ks(a) for a in chain]
        aligned = all(k == kss[0] for k in kss)
        desc = {"op": "swapCascade", "cells": [list(self.pos(a)) if a is not None else None for a in given]}
        self.history.append(desc)
        if none_at:
            rec.hit("op.cascade.with-none")
            if none_at[0] == 0:
                rec.hit("op.cascade.none-first")
        raised = None
        try:
            self.fh.swapCascade(list(given))
        except ValueError as e:
            raised = e
            if aligned or "stationary" not in str(e):
                rec.crash("swapCascade", e, self.witness())
                self.dead = True
                return
        except Exception as e:
            rec.crash("swapCascade", e, self.witness())
            self.dead = True
            return
        if aligned:
            desc["outcome"] = "done"
            # documented: the first assembly is exchanged with each later one in turn; for distinct members the net effect is
            # chain[i+1] -> position of chain[i], chain[0] -> position of chain[-1]. Stationary blocks stay where they are.
            n = len(chain)
            posof = {id(a): p_ for a, p_ in zip(chain, ps)}
            for lvl in range(1, n):
                x, y = chain[0], chain[lvl]
                posof[id(x)], posof[id(y)] = posof[id(y)], posof[id(x)]
            for a in chain:
                p_ = posof[id(a)]
                self.at[p_] = a
                for k in kss[0]:
                    self.seq[id(a)][k] = self.stat[p_ + (k,)][0]
            if kss[0] and n > 1:
                rec.hit("stationary.exchanged")
            if n > 1:
                rec.hit("op.cascade.accepted")
                self.moved_any = True
            self.check("swapCascade", chain)
            return
        if raised is None:
            desc["outcome"] = "done-misaligned"
            self.viol("stationary/misaligned-swap-accepted/swapCascade", "stationary indices of the chain %s differ but no swap was refused" % kss)
            self.resync()
            return
        # refused part-way: where each member ended up is not specified; everything else still is.
        desc["outcome"] = "refused-partway"
        rec.reject("swapCascade refused part-way: stationary blocks not aligned")
        rec.hit("op.cascade.refused-partway")
        members = {id(a) for a in chain}
        landed = {}
        for a in chain:
            loc = a.spatialLocator
            ij = tuple(int(x) for x in loc.indices[:2]) if getattr(loc, "grid", None) is self.core.spatialGrid else None
            landed[id(a)] = ij
        if sorted(p for p in landed.values() if p is not None) != sorted(set(ps)):  # a member may be named twice
            self.viol("location/refused-cascade-left-members-outside-their-cells", "members %s of a refused cascade over %s" % (landed, ps))
            self.resync()
            return
        for a in chain:
            self.at[landed[id(a)]] = a
        for a in chain:
            p = landed[id(a)]
            for (i, j, k), (b, _) in self.stat.items():
                if (i, j) == p and k < len(self.seq[id(a)]):
                    # the block that stays at p; the one it displaced stays at its own cell likewise
                    self.seq[id(a)][k] = b
        assert members
        self.check("refused-swapCascade", chain)

    def op_discharge(self, rng, incoming_from, outgoing):
        rec = self.rec
        p = self.pos(outgoing)
        if incoming_from == "sfp":
            inc = rng.choice(self.in_sfp)
            desc = {"op": "dischargeSwap", "incoming": "from-sfp", "out": list(p)}
        else:
            inc, design, how = self.fresh(rng)
            desc = {"op": "dischargeSwap", "incoming": "fresh:%s:%s" % (design, how), "out": list(p)}
        ki, ko = self.ks(inc), self.ks(outgoing)
        self.history.append(desc)
        if incoming_from == "fresh" and ki == ko:
            self.fresh_given_away.update(id(self.seq[id(inc)][k]) for k in ki)  # known before the call: the ambient hook classifies with it
        if ki == ko and not (self.track and self.sfp is not None):
            leaving = [self.seq[id(inc)][k] if k in ko else b for k, b in enumerate(self.seq[id(outgoing)])]
            self.pending = ({id(outgoing)}, {id(b) for b in leaving})
            if self.nopool_tracked:
                self.lost |= self.pending[0] | self.pending[1]
        try:
            try:
                self.fh.dischargeSwap(inc, outgoing)
            finally:
                self.pending = (set(), set())
        except ValueError as e:
            if ki != ko and "stationary" in str(e):
                desc["outcome"] = "refused"
                rec.reject("dischargeSwap refused: stationary blocks not aligned")
                rec.hit("op.dischargeSwap.refused-misaligned")
                self.check("refused-dischargeSwap", [inc, outgoing])
                return
            rec.crash("dischargeSwap.%s" % incoming_from, e, self.witness())
            self.dead = True
            return
        except Exception as e:
            where = "dischargeSwap.%s" % incoming_from
            if self.track and self.sfp is not None and not self.sfp_usable and "_updateNumberOfColumns" in _tb(e):
                where = "Core.removeAssembly.to-default-sfp-without-grid"  # dischargeSwap discharges through Core.removeAssembly
            rec.crash(where, e, self.witness())
            self.dead = True
            return
        desc["outcome"] = "done"
        if ki != ko:
            self.viol("stationary/misaligned-swap-accepted/dischargeSwap", "stationary indices %s vs %s but the discharge swap was performed" % (ki, ko))
            self.resync()
            return
        if incoming_from == "sfp":
            self.in_sfp = [x for x in self.in_sfp if x is not inc]
        si, so = self.seq[id(inc)], self.seq[id(outgoing)]
        for k in ko:
            si[k], so[k] = so[k], si[k]
        to_sfp = self.track and self.sfp is not None
        self.leave(outgoing, p, to_sfp)
        self.at[p] = inc
        if ko:
            rec.hit("stationary.exchanged")
        rec.hit("op.dischargeSwap.%s.accepted" % incoming_from)
        rec.hit("op.dischargeSwap.outgoing-%s" % ("to-sfp" if to_sfp else "purged"))
        self.moved_any = True
        self.check("dischargeSwap.%s" % incoming_from, [inc, outgoing])

    def op_add(self, rng, cell):
        rec = self.rec
        a, design, how = self.fresh(rng)
        desc = {"op": "Core.add", "fresh": "%s:%s" % (design, how), "cell": list(cell)}
        self.history.append(desc)
        try:
            self.core.add(a, self.core.spatialGrid[cell[0], cell[1], 0])
        except Exception as e:
            rec.crash("Core.add", e, self.witness())
            self.dead = True
            return
        desc["outcome"] = "done"
        self.at[cell] = a
        self.note_stationary(cell, a)
        rec.hit("op.add.accepted")
        self.moved_any = True
        self.check("Core.add", [a])

    def op_remove(self, a, discharge):
        rec = self.rec
        p = self.pos(a)
        desc = {"op": "Core.removeAssembly", "cell": list(p), "discharge": discharge}
        self.history.append(desc)
        to_sfp = discharge and self.track and self.sfp is not None
        if not to_sfp:
            self.pending = ({id(a)}, {id(b) for b in self.seq[id(a)]})
            if self.nopool_tracked and discharge:
                self.lost |= self.pending[0] | self.pending[1]
        try:
            try:
                self.core.removeAssembly(a, discharge=discharge)
            finally:
                self.pending = (set(), set())
        except Exception as e:
            where = "Core.removeAssembly"
            if to_sfp and not self.sfp_usable and "_updateNumberOfColumns" in _tb(e):
                where = "Core.removeAssembly.to-default-sfp-without-grid"
            rec.crash(where, e, self.witness())
            self.dead = True
            return
        desc["outcome"] = "done"
        for k in self.ks(a):
            self.stat.pop(p + (k,), None)
        self.leave(a, p, to_sfp)
        rec.hit("op.remove.accepted")
        rec.hit("op.remove.to-sfp" if to_sfp else "op.remove.purged")
        self.moved_any = True
        self.check("Core.removeAssembly", [a])

    def step(self, rng, weights):
        """One randomly chosen valid-usage operation."""
        here = list(self.at.values())
        kinds = ["swap"] * weights[0] + ["cascade"] * weights[1] + ["dfresh"] * weights[2] + ["dsfp"] * weights[3] + ["add"] * weights[4] + ["remove"] * weights[5]
        kind = rng.choice(kinds)
        if kind == "swap" and len(here) >= 2:
            a, b = rng.sample(here, 2)
            if rng.random() < 0.06:
                # a search that returns the same assembly for both roles: an exchange with itself changes nothing
                self.rec.hit("op.swap.with-itself")
                self.op_swap(a, a)
                return
            if rng.random() < 0.5:
                # prefer a partner with the same stationary layout so that most swaps are accepted
                same = [x for x in here if x is not a and self.ks(x) == self.ks(a)]
                if same:
                    b = rng.choice(same)
            self.op_swap(a, b)
        elif kind == "cascade" and len(here) >= 3:
            n = min(len(here), rng.randint(3, 6))
            first = rng.choice(here)
            pool = [x for x in here if x is not first and (self.ks(x) == self.ks(first) or rng.random() < 0.15)]
            if len(pool) < n - 1:
                pool = [x for x in here if x is not first]
            chain = [first] + rng.sample(pool, n - 1)
            if rng.random() < 0.12:
                # an assembly named twice (swapCascade warns and goes on: it is the documented sequence of pairwise swaps)
                self.rec.hit("op.cascade.member-named-twice")
                chain.insert(rng.randint(1, len(chain)), rng.choice(chain))
            if rng.random() < 0.25:
                # None entries (a findAssembly that found nothing): mostly further down, sometimes in the first place
                for _ in range(rng.choice([1, 1, 2])):
                    chain.insert(rng.randint(1, len(chain)), None)
                if rng.random() < 0.2:
                    chain.insert(0, None)
            self.op_cascade(chain)
        elif kind == "dfresh" and here:
            self.op_discharge(rng, "fresh", rng.choice(here))
        elif kind == "dsfp" and here and self.in_sfp:
            self.op_discharge(rng, "sfp", rng.choice(here))
        elif kind == "add":
            free = self.free_cells()
            if free:
                self.op_add(rng, rng.choice(free))
        elif kind == "remove" and len(here) > 3:
            self.op_remove(rng.choice(here), rng.random() < 0.6)

    # -- misuse probes: executed, recorded, never judged (they end the life of this reactor) -----------------------
    def probes(self, rng):
        rec, core = self.rec, self.core
        here = list(self.at.values())
        free = self.free_cells()
        if here and free:
            a = rng.choice(here)
            c = rng.choice(free)
            nkeys = len(core.childrenByLocator)
            try:
                a.moveTo(core.spatialGrid[c[0], c[1], 0])  # ambient hook records what it sees as unjudged
                stale = len(core.childrenByLocator) - nkeys
                rec.skip("misuse probe: bare Assembly.moveTo to an empty cell -> %s" % ("old key left in childrenByLocator" if stale else "tables consistent"))
            except Exception as e:
                rec.skip("misuse probe: bare Assembly.moveTo to an empty cell -> raised %s" % type(e).__name__)
        self.muted = True
        if here:
            tgt = rng.choice(here)
            new, _, _ = self.fresh(rng)
            n0 = len(core)
            # Core.add documents a refusal for a location that is already filled: judged (each location holds at most one assembly)
            rec.hit("add.to-an-occupied-location")
            try:
                core.add(new, tgt.spatialLocator)
                rec.violation("location/add-to-an-occupied-location-accepted", "Core.add put %s on %s, which holds %s: the core now has %d children on that cell" % (
                    new.getName(), tgt.getLocation(), tgt.getName(), sum(1 for x in core if x.spatialLocator == tgt.spatialLocator)), self.witness())
            except Exception as e:
                rec.reject("Core.add to an occupied location refused (%s)" % type(e).__name__)
                if len(core) != n0:
                    rec.violation("location/refused-add-left-a-second-assembly", "Core.add to an occupied cell raised %s but the child list grew by %d" % (type(e).__name__, len(core) - n0), self.witness())
        self.dead = True

    def close(self):
        MON.armed.pop(id(self.core), None)


# ------------------------------------------------------------------------------------------------ reactors
KIND2TYPE = {"fuel": "fuel", "shield": "axial shield", "control": "control", "plenum": "plenum", "reflector": "reflector"}


def make_spec(rng, rings, symmetry, sfp_mode, mesh="shared"):
    """gen.core_spec with block types that carry flags (grid plate at k=0 of most designs) and an explicit pool grid.

    mesh: "shared"   - every design has the same block count and heights (gen.core_spec);
          "merged"   - the last design has two neighbouring blocks above the bottom one merged into one of the summed height (fewer blocks, block
                       tops still on the reference mesh, 2 axial mesh points in the merged block);
          "detailed" - the last design has its own block count (one fewer or one more), heights and mesh points: needs detailedAxialExpansion."""
    from vlib import gen

    nd = rng.choice([2, 2, 3])
    spec = gen.core_spec(rng, rings=rings, symmetry=symmetry, ndesigns=nd, holes=rng.choice([0.1, 0.25, 0.4]), nblocks=rng.randint(3, 5),
                         kinds=["fuel", "fuel", "shield", "control", "plenum", "plenum"], sfp=False)
    ren = {}
    layout = {}
    for d, (dname, ad) in enumerate(spec["assemblies"].items()):
        no_gp = d == nd - 1 and rng.random() < 0.3  # sometimes one design has no grid plate: swaps with it are refused
        types = []
        for k, bn in enumerate(ad["blocks"]):
            typ = KIND2TYPE[spec["blocks"][bn]["kind"]]
            if k == 0 and not no_gp:
                typ = "grid plate"
            ren[bn] = "%s %d %d" % (typ, d, k)
            types.append(typ)
        layout[ad["specifier"]] = types
        ad["blocks"] = [ren[b] for b in ad["blocks"]]
    spec["blocks"] = {ren[k]: v for k, v in spec["blocks"].items()}
    specs = [a["specifier"] for a in spec["assemblies"].values()]
    for ad in spec["assemblies"].values():  # gen.core_spec shares one heights list between the designs
        for f in ("height", "axial mesh points", "xs types", "blocks"):
            ad[f] = list(ad[f])
    if mesh != "shared":
        ad = list(spec["assemblies"].values())[-1]
        types = layout[ad["specifier"]]
        n = len(ad["blocks"])
        if mesh == "merged":
            k = rng.randint(1, n - 2)
            for f in ("blocks", "xs types", "axial mesh points"):
                ad[f].pop(k + 1)
            types.pop(k + 1)
            ad["height"][k] = round(ad["height"][k] + ad["height"].pop(k + 1), 6)
            ad["axial mesh points"][k] = 2
        else:
            if n > 2 and rng.random() < 0.5:
                k = rng.randint(1, n - 1)
                for f in ("blocks", "xs types"):
                    ad[f].pop(k)
                types.pop(k)
            else:
                k = rng.randint(1, n - 1)
                for f in ("blocks", "xs types"):
                    ad[f].insert(k, ad[f][k])
                types.insert(k, types[k])
            # the bottom block (the grid plate of most designs) keeps the common height: 'both assemblies have the same number and same
            # height of stationary blocks' is the documented precondition of a swap
            ad["height"] = ad["height"][:1] + [round(rng.uniform(8, 40), 3) for _ in ad["blocks"][1:]]
            ad["axial mesh points"] = [rng.choice([1, 1, 2, 3]) for _ in ad["blocks"]]
    if sfp_mode not in ("default", "none"):
        spec["systems"] = {"core": {"grid name": "core", "origin": (0.0, 0.0, 0.0)},
                           "Spent Fuel Pool": {"type": "sfp", "grid name": "sfp", "origin": (5000.0, 5000.0, 6000.0)}}
        n0 = 0 if sfp_mode == "empty" else rng.randint(1, 4)
        ncol = rng.randint(1, 3)
        spec["grids"]["sfp"] = {"geom": "cartesian", "symmetry": "full", "lattice pitch": (50.0, 50.0),
                                "contents": {(i % ncol, i // ncol): rng.choice(specs) for i in range(n0)}}
    spec["nuclide flags"] = gen.nuclide_flags_for(spec)
    text = gen.render_blueprint(spec)  # an empty pool grid is rendered without a contents key
    return spec, text, layout


def domain_cells(rings, symmetry):
    from vlib import gen

    cells = gen.hex_cells(rings)
    if symmetry.startswith("third"):
        cells = [c for c in cells if gen.in_first_third(*c)]
    return cells


def build_generated(rec, rng, rings, symmetry, sbf, track, sfp_mode, mesh="shared"):
    from armi import operators
    from vlib import gen
    from vlib.env import quiet

    spec, text, layout = make_spec(rng, rings, symmetry, sfp_mode, mesh)
    over = {"trackAssems": track, "stationaryBlockFlags": list(SBF_CLASSES[sbf])}
    if mesh == "detailed":
        over["detailedAxialExpansion"] = True  # 'If you want to run a case with non-uniform axial mesh, activate the detailedAxialExpansion setting'
    with quiet():
        r, cs, bp, _ = gen.build_reactor(text, over)
        o = operators.factory(cs)
        o.initializeInterfaces(r)
    if sfp_mode == "none":
        # a reactor without any pool (armi's own test_removeAssemblyNoSfp makes one the same way); reactors.factory always adds a default one
        del r.excore["sfp"]
    sfp = r.excore.get("sfp")
    if sfp is not None and len(sfp):
        missing = [a.getName() for a in sfp if a.getName() not in r.core.assembliesByName]
        if missing:
            rec.add("initial-state: pool assemblies built from blueprints absent from assembliesByName before regenAssemblyLists (unjudged)", len(missing))
    r.core.regenAssemblyLists()
    return r, cs, o, spec, layout


WEIGHTS = (40, 10, 14, 8, 14, 14)
NOPOOL_KEY = "lookup/names/returns-purged/tracked-discharge-from-a-reactor-without-pool"


def run_history(rec, sess, rng, nops, sig, sample=False, probes=True):
    n0 = len(sess.history)
    for _ in range(nops):
        if sess.dead:
            break
        sess.step(rng, WEIGHTS)
    if not sess.dead:
        sess.check("end-of-history")
    outcome_sig = [(h["op"], h.get("a"), h.get("b"), h.get("cells"), h.get("cell"), h.get("out"), h.get("incoming", "")[:5], h.get("discharge"), h.get("outcome")) for h in sess.history]
    rec.case(sig + [outcome_sig], nontrivial=sess.moved_any, sample=dict(sess.info, first_ops=sess.history[n0:n0 + 8]) if sample else None)
    sess.moved_any = False
    if probes and not sess.dead:
        sess.probes(rng)


def gen_case(rec, spec, i):
    rng = random.Random("%s:%d" % (spec["rng"], i))
    random.seed("%s:%d:armi-global" % (spec["rng"], i))  # armi draws placeholder assembly numbers from the global generator; replays only
    sbf, track = COMBOS[(i + spec["shard"]) % len(COMBOS)]
    symmetry = rng.choice(["third periodic", "full"])
    rings = rng.randint(2, spec["maxrings"] if symmetry.startswith("third") else max(2, spec["maxrings"] - 1))
    sfp_mode = {0: "default", 7: "default", 3: "none", 10: "none"}.get((i + spec["shard"]) % 12) or rng.choice(["filled", "filled", "empty"])
    mesh = ("shared", "merged", "shared", "detailed", "shared")[(i + 2 * spec["shard"]) % 5]
    nops = rng.choice([rng.randint(10, 40), rng.randint(40, spec["maxops"])])
    info = {"reactor": "generated", "case_rng": "%s:%d" % (spec["rng"], i), "symmetry": symmetry, "rings": rings, "stationaryBlockFlags": SBF_CLASSES[sbf],
            "trackAssems": track, "sfp": sfp_mode, "mesh": mesh}
    try:
        r, cs, o, bspec, layout = build_generated(rec, rng, rings, symmetry, sbf, track, sfp_mode, mesh)
    except Exception as e:
        rec.crash("build-generated-reactor", e, info)
        return
    info["designs"] = layout
    info["initial_cells"] = sorted(list(c) for c in bspec["grids"]["core"]["contents"])
    sess = Session(rec, r, cs, o, domain_cells(rings + 1, symmetry), SBF_CLASSES[sbf], track, info, bspec["pitch"])
    try:
        if [int(f) for f in r.core.stationaryBlockFlagsList] != [int(f) for f in sess.sbf] or bool(r.core._trackAssems) != track:
            rec.violation("settings/fuel-cycle-options-not-applied-to-core", "core has %s / %s" % (r.core.stationaryBlockFlagsList, r.core._trackAssems), info)
        sess.check("construction")
        run_history(rec, sess, rng, nops, ["gen", symmetry, rings, sbf, track, sfp_mode, mesh], sample=i < 1)
        if mesh != "shared":
            rec.hit("mesh.%s.ops" % mesh, len(sess.history))
        if sfp_mode == "none":
            rec.hit("nopool.ops", len(sess.history))
    finally:
        sess.close()


def pairs_case(rec, spec, i):
    """Every unordered pair of occupied cells of a small core, each swapped once (in a seeded order)."""
    rng = random.Random("%s:pairs:%d" % (spec["rng"], i))
    random.seed("%s:pairs:%d:armi-global" % (spec["rng"], i))
    sbf, track = COMBOS[i % len(COMBOS)]
    symmetry = ["third periodic", "full"][i % 2]
    rings = 4 if symmetry.startswith("third") else 3
    info = {"reactor": "generated", "case_rng": "%s:pairs:%d" % (spec["rng"], i), "symmetry": symmetry, "rings": rings, "stationaryBlockFlags": SBF_CLASSES[sbf],
            "trackAssems": track, "sfp": "filled", "mode": "all-pairs", "mesh": ("shared", "merged", "detailed")[(i // 2) % 3]}
    try:
        r, cs, o, bspec, layout = build_generated(rec, rng, rings, symmetry, sbf, track, "filled", info["mesh"])
    except Exception as e:
        rec.crash("build-generated-reactor", e, info)
        return
    info["designs"] = layout
    sess = Session(rec, r, cs, o, domain_cells(rings + 1, symmetry), SBF_CLASSES[sbf], track, info, bspec["pitch"])
    try:
        cells = sorted(sess.at)
        pairs = [(p, q) for x, p in enumerate(cells) for q in cells[x + 1:]]
        rng.shuffle(pairs)
        for p, q in pairs:
            if sess.dead:
                break
            sess.op_swap(sess.at[p], sess.at[q])
            rec.hit("allpairs.swaps")
        rec.case(["pairs", symmetry, rings, sbf, track, info["mesh"], len(pairs), [h.get("outcome") for h in sess.history]], nontrivial=sess.moved_any)
        rec.add("allpairs.cores-swept-completely", 0 if sess.dead else 1)
    finally:
        sess.close()


def testreactor_shard(rec, spec):
    from armi.testing import loadTestReactor
    from vlib.env import quiet

    random.seed("%s:armi-global" % spec["rng"])
    sbf, track = spec["sbf"], spec["track"]
    info = {"reactor": "armi.testing.loadTestReactor()", "stationaryBlockFlags": SBF_CLASSES[sbf], "trackAssems": track, "shard_rng": spec["rng"]}
    try:
        with quiet():
            o, r = loadTestReactor(customSettings={"trackAssems": track, "stationaryBlockFlags": list(SBF_CLASSES[sbf])})
    except Exception as e:
        rec.crash("loadTestReactor", e, info)
        return
    cs = o.cs
    nrings = 9
    sess = Session(rec, r, cs, o, domain_cells(nrings + 1, "third periodic"), SBF_CLASSES[sbf], track, info, float(r.core.getAssemblyPitch()))
    try:
        if [int(f) for f in r.core.stationaryBlockFlagsList] != [int(f) for f in sess.sbf] or bool(r.core._trackAssems) != track:
            rec.violation("settings/fuel-cycle-options-not-applied-to-core", "core has %s / %s" % (r.core.stationaryBlockFlagsList, r.core._trackAssems), info)
        sess.check("construction")
        for i in range(spec["cases"]):
            if sess.dead:
                break
            rng = random.Random("%s:%d" % (spec["rng"], i))
            info["case_rng"] = "%s:%d (histories run back to back on one reactor)" % (spec["rng"], i)
            nops = rng.randint(max(10, spec["maxops"] // 3), spec["maxops"])
            n0 = len(sess.history)
            last = i == spec["cases"] - 1
            run_history(rec, sess, rng, nops, ["testreactor", sbf, track, i], sample=i == 0, probes=last)
            rec.hit("tier.testreactor.ops", len(sess.history) - n0)
            if not last:
                sess.history = sess.history[-10:]
    finally:
        sess.close()


def run_shard(spec, rec):
    install_hooks(rec)
    if spec["kind"] == "gen":
        for i in range(spec["cases"]):
            gen_case(rec, spec, i)
    elif spec["kind"] == "pairs":
        for i in range(spec["cases"]):
            pairs_case(rec, spec, i)
    else:
        testreactor_shard(rec, spec)
