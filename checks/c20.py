"""C20 - XS groups partition the blocks; representative blocks are true averages.

Workload
  labels : every admissible XS type label (52 single letters, 52x52 two-letter labels) through
           getXSTypeNumberFromLabel / getXSTypeLabelFromNumber and through the xsType / xsTypeNum parameter setters.
  core*  : generated hex cores (vlib.gen) with random xs types, burnups (many exactly on a group boundary), fuel
           temperatures, burnup / temperature group boundaries and per-type cross-section settings (one type often a
           1D cylinder, half of them ductHeterogeneous, its block design repeated at a second elevation); the real
           CrossSectionGroupManager groups them, creates the representatives, and groups them once more.
  rep*   : sets of 1-12 generated blocks put into the real block collections (Average, FluxWeightedAverage, Median,
           ComponentAverage1DCylinder, its duct-heterogeneous variant, ComponentAverage1DSlab on generated plate
           blocks; by-component on/off; valid-block-type filters; weighting parameter all-zero / all-positive /
           mixed) followed by the metamorphic variants (every member duplicated, all weights rescaled).
Oracles are a few numpy lines written from the property statement; they read only leaf data of the member blocks
(component number densities, volumes, areas, temperatures, block parameters) and never call the collection methods.
"""
import bisect
import copy
import random
import string

PROP = "C20"
LEVEL = "exploration"
RULE = (
    "labels: all 52 single-letter and 2704 two-letter labels over string.ascii_letters (exhaustive). core: vlib.gen hex cores "
    "(2-4 rings and 2-5 blocks per assembly in quick, 2-5 rings and 2-7 blocks in thorough, 1-3 designs) with xs types drawn from ascii_letters (two-letter types only when there is a single "
    "environment group), burnups drawn from {0, group bounds exactly, bounds +- small, random}, fuel temperatures from {temperature "
    "bounds exactly, random}, 0-5 burnup bounds x 0-3 temperature bounds (<= 52 groups), per-type settings (representation, "
    "validBlockTypes, averageByComponent, xsTempIsotope). rep: 1-12 blocks, layouts shared / mixed / one member lacking the outer "
    "component, random heights, component temperatures, number densities (some zero, some nuclides only in a few members), burnup, "
    "massHmBOL, weighting parameter all-zero / all-positive / mixed, filters over block types {fuel, igniter fuel, feed fuel, "
    "control, shield, plenum, reflector}; all six representation options: Median, Average, FluxWeightedAverage, ComponentAverage1DCylinder, "
    "the same with ductHeterogeneous (nuclide temperatures from the components inside the duct only) and ComponentAverage1DSlab (Cartesian blocks of 1-5 rectangular "
    "plates of pairwise distinct thickness, optional zero-area void lattice component, some members in reverse plate order, one member sometimes inconsistent). "
    "Median: the member at sorted position n//2 or (n-1)//2 of the weighted burnups is accepted, i.e. for an even number of candidates either middle "
    "element passes and only an odd count decides the member uniquely (counted separately as rep.median-odd). core: after createRepresentativeBlocks() the "
    "environment group of every block of a represented group must be the one judged before, blocks of unrepresented groups may only be re-labelled to a "
    "represented group of their type (documented in _modifyUnrepresentedXSIDs), and the partition is judged again on a second makeCrossSectionGroups(). A case = one grouping of one core or one representative of one member set; distinct = "
    "(representation, by-component, layout mode, #members, #candidates, weighting class, filter, agreeing members); non-trivial = "
    ">= 2 candidates with differing weights or values (rep), >= 2 groups (core)."
)
TOLERANCES = {"mean_rel": 1e-9, "mean_abs_scale": 1e-12, "common_rel": 1e-12, "metamorphic_rel": 1e-9, "helper_temperature_rel": 1e-9,
              "agree_spread_rel": 1e-13}
EXHAUSTIVE = {"quick": False, "thorough": False}
EXHAUSTIVE_PART = "label <-> number conversion is enumerated over all 2756 admissible labels in both tiers; grouping and representatives are sampled"
_FLOOR_Q = {"label.roundtrip": 2000, "label.param-setter": 2000, "label.collision": 2000, "group.core": 200, "group.block": 4000, "group.boundary-exact-burnup": 1000,
            "group.boundary-exact-temperature": 200, "group.temperature-helper": 2000, "core.rep": 1000, "core.unchanged": 4000, "rep.nd-block-mean": 500,
            "rep.nd-component-mean": 250, "rep.cylinder-component-mean": 200, "rep.nuclide-temperature": 1200, "rep.component-temperature": 1500, "rep.minmax": 2000,
            "rep.common-value": 150, "rep.duplicate": 400, "rep.rescale": 400, "rep.collection-reused": 400, "rep.burnup": 800, "rep.median": 300, "rep.median-odd": 200, "rep.unchanged": 3000,
            "rep.filter-active": 350, "rep.fallback-expected": 40,
            # duct-heterogeneous cylinder, slab, environment groups after createRepresentativeBlocks(), second grouping (smallest count over seeds 0-5 in brackets)
            "rep.ducthet-component-mean": 150, "rep.ducthet-nuclide-temperature": 150, "rep.ducthet-differs-from-whole-block": 120,  # [365, 365, 334]
            "rep.slab-component-mean": 130, "rep.slab-reversed-member": 50, "rep.component-temperature-exact": 1500,  # [327, 141, 3686]
            "core.rep-cylinder": 100, "core.rep-ducthet": 40, "core.rep-ducthet-differing-weights": 12,  # [288, 112, 36]
            "core.envgroup-kept": 3000, "core.envgroup-unrepresented": 800, "core.envgroup-relabel-seen": 25,  # [7170, 2209, 68]
            "group.core-after-representatives": 200, "group.block-after-representatives": 4000, "group.boundary-exact-burnup-after-representatives": 1000,  # [280 by plan, 9661, 2725]
            "group.boundary-exact-temperature-after-representatives": 200, "group.temperature-helper-after-representatives": 2000}  # [560, 5537]
FLOORS = {"quick": _FLOOR_Q, "thorough": {k: (v if k.startswith("label.") else 15 * v) for k, v in _FLOOR_Q.items()}}
TIMEOUT = {"quick": 900, "thorough": 7200}
ASSUMPTIONS = [
    "member values are read with Component.getVolume/getArea/temperatureInC/p.numberDensities and Block.getSymmetryFactor (judged by C02/C03/C08, trusted here)",
    "the block temperature used for temperature grouping is read with armi's getBlockNuclideTemperature helper (cross-checked to 1e-9 against "
    "the independent atom-weighted mean) so that a value exactly on a boundary is classified from the same float armi sees",
    "nuclide temperature reference = sum_b w_b sum_c N'_c V_c T_c / sum_b w_b sum_c N'_c V_c (formula in calcAvgNuclideTemperatures' docstring, "
    "N' = trace where a listed nuclide is present with zero density; the trace value is armi.utils.units.TRACE_NUMBER_DENSITY)",
    "duct-heterogeneous reference: the components inside the duct are all but `duct` and `intercoolant`, read off the generator's own block layout "
    "(vlib.gen.pin_block_spec lists pins, coolant, duct, intercoolant); the block weights remain those of the whole block",
    "slab reference: plates are matched by the slab position the generator wrote into the component name (a member may list them in reverse); exactly equal "
    "plate areas are a documented precondition of the class, so a member with a hotter or missing plate may be refused",
]

LETTERS = string.ascii_uppercase + string.ascii_lowercase  # written here from the statement, compared with armi's list at run time
REPR_CLASS = {"Median": "MedianBlockCollection", "Average": "AverageBlockCollection", "FluxWeightedAverage": "FluxWeightedAverageBlockCollection",
              "ComponentAverage1DCylinder": "CylindricalComponentsAverageBlockCollection",
              "ComponentAverage1DCylinderDuctHet": "CylindricalComponentsDuctHetAverageBlockCollection",  # ComponentAverage1DCylinder + ductHeterogeneous: true
              "ComponentAverage1DSlab": "SlabComponentsAverageBlockCollection"}
CYLINDER_KINDS = ("ComponentAverage1DCylinder", "ComponentAverage1DCylinderDuctHet")
COMPONENT_KINDS = CYLINDER_KINDS + ("ComponentAverage1DSlab",)
# vlib.gen.pin_block_spec lists [pins..., coolant, duct, intercoolant]: everything but these two names lies inside the duct
OUTSIDE_DUCT = ("duct", "intercoolant")
TYPE_POOL = {"fuel": ["fuel", "fuel", "igniter fuel", "feed fuel"], "control": ["control"], "shield": ["shield"], "plenum": ["plenum"], "reflector": ["reflector"]}
FILTERS = [None, None, ["fuel"], ["fuel"], ["feed fuel"], ["igniter fuel", "control"], ["shield", "reflector"], ["control"], ["fuel", "plenum"]]
FLUIDS = {"Sodium", "Lead", "LeadBismuth", "Void"}


def plan(tier, seed):
    q = tier == "quick"
    out = [{"name": "labels", "kind": "labels"}]
    out += [{"name": "core%d" % i, "kind": "cores", "n": 40 if q else 500, "max_rings": 4 if q else 5, "max_blocks": 5 if q else 7} for i in range(7)]
    out += [{"name": "rep%d" % i, "kind": "reps", "n": 300 if q else 4500} for i in range(8)]
    return out


def run_shard(spec, rec):
    {"labels": do_labels, "cores": do_cores, "reps": do_reps}[spec["kind"]](spec, rec)


# ============================================================================= small helpers
def close(a, b, scale=0.0, rel=None):
    rel = TOLERANCES["mean_rel"] if rel is None else rel
    return abs(a - b) <= rel * max(abs(a), abs(b)) + TOLERANCES["mean_abs_scale"] * scale


def words(t):
    return set(t.lower().split())


def is_candidate(type_words, valid):
    """Eligible member: no filter, or the block's type words contain every word of at least one listed type."""
    return (not valid) or any(words(v) <= type_words for v in valid)


def aw(nuc):
    from armi.nucDirectory import nuclideBases

    return nuclideBases.byName[nuc].weight


def table(b):
    """Leaf data of one block: per component volume (actual, i.e. reduced by the symmetry factor), area, temperature, densities."""
    sym = b.getSymmetryFactor()
    comps = [{"name": c.name, "V": c.getVolume() / sym, "A": c.getArea(), "T": c.temperatureInC, "nd": dict(c.p.numberDensities)} for c in b]
    for x in comps:
        x["m"] = sum(n * x["V"] * aw(k) for k, n in x["nd"].items())  # proportional to the component's mass
    return {"V": sum(x["V"] for x in comps), "comps": comps, "by": {x["name"]: x for x in comps}, "h": b.getHeight(), "sym": sym}


def weight_of(b, t, wp):
    p = b.p[wp] if wp else 0.0
    return (p or 1.0) * (t["V"] or 1.0)


def block_nd(t, nucs):
    return [sum(x["nd"].get(n, 0.0) * x["V"] for x in t["comps"]) / t["V"] for n in nucs]


def nuc_terms(t, nucs, trace):
    """(sum_c N' V T, sum_c N' V) per nuclide for one block, N' = trace where present with zero density."""
    import numpy as np

    nvt, nv = np.zeros(len(nucs)), np.zeros(len(nucs))
    for x in t["comps"]:
        for i, n in enumerate(nucs):
            if n in x["nd"]:
                d = (x["nd"][n] or trace) * x["V"]
                nv[i] += d
                nvt[i] += d * x["T"]
    return nvt, nv


def norm(v):
    import numpy as np

    if isinstance(v, np.ndarray):
        return ("nd", v.shape, str(v.dtype), v.tobytes())
    if isinstance(v, float):
        return "nan" if v != v else v
    if isinstance(v, (int, str, bool, type(None))):
        return v
    if isinstance(v, (list, tuple)):
        return tuple(norm(x) for x in v)
    if isinstance(v, dict):
        return tuple(sorted((repr(k), norm(x)) for k, x in v.items()))
    return repr(v)


GROUP_BOOKKEEPING = ("envGroup", "envGroupNum")  # documented to be refreshed by grouping; judged separately


def obs_block(b, light=False):
    """Observation of a block: every parameter, and per component name/temperature/number densities/(parameters)."""
    P = {}
    for pd in b.p.paramDefs:
        if pd.name in GROUP_BOOKKEEPING:
            continue
        try:
            P[pd.name] = norm(b.p[pd.name])
        except Exception as e:  # parameter without value
            P[pd.name] = "unset:" + type(e).__name__
    comps = []
    for c in b:
        cp = None
        area, volume = norm(c.getArea()), norm(c.getVolume())  # first: p.volume is documented to be unset until getVolume() is called
        if not light:
            cp = {}
            for pd in c.p.paramDefs:
                try:
                    cp[pd.name] = norm(c.p[pd.name])
                except Exception as e:
                    cp[pd.name] = "unset:" + type(e).__name__
        comps.append((id(c), c.name, norm(c.temperatureInC), norm(c.inputTemperatureInC), tuple(sorted(c.p.numberDensities.items())), cp, area, volume))
    return {"params": P, "comps": comps, "name": b.name, "parent": id(b.parent), "n": len(b), "height": b.getHeight()}


def diff_obs(a, b):
    out = []
    for k in ("name", "parent", "n", "height"):
        if a[k] != b[k]:
            out.append(k)
    for k in a["params"]:
        if a["params"][k] != b["params"].get(k, "missing"):
            out.append("param:" + k)
    if len(a["comps"]) != len(b["comps"]):
        out.append("component-count")
    else:
        for ca, cb in zip(a["comps"], b["comps"]):
            if ca[0] != cb[0]:
                out.append("component-identity:" + ca[1])
            if ca[2] != cb[2] or ca[3] != cb[3]:
                out.append("component-temperature:" + ca[1])
            if ca[4] != cb[4]:
                out.append("component-numberDensities:" + ca[1])
            if ca[5] != cb[5]:
                out.append("component-params:" + ca[1] + ":" + ",".join(sorted(k for k in (ca[5] or {}) if (cb[5] or {}).get(k) != ca[5][k]))[:80])
            if ca[6] != cb[6] or ca[7] != cb[7]:
                out.append("component-geometry:" + ca[1])
    return out


# ============================================================================= labels
def do_labels(spec, rec):
    from armi.physics.neutronics import crossSectionGroupManager as xsgm
    from armi.reactor import blocks

    allow = getattr(xsgm, "_ALLOWABLE_XS_TYPE_LIST", None)
    rec.note("armi_allowable_list_equals_ascii_letters", allow is not None and sorted(allow) == sorted(LETTERS))
    if allow is None or sorted(allow) != sorted(LETTERS):
        rec.violation("label-number/allowable-list-differs", "_ALLOWABLE_XS_TYPE_LIST is not the 52 ASCII letters", {"list": allow})
    labels = list(LETTERS) + [a + b for a in LETTERS for b in LETTERS]
    numbers = {}
    bad_single, bad_two = [], {}
    donor, receiver = blocks.HexBlock("donor"), blocks.HexBlock("receiver")

    def classify(lab):
        if len(lab) == 1:
            return "lowercase-single-letter" if lab.islower() else "uppercase-single-letter"
        return ("two-letter-lowercase-first" if lab[0].islower() else "two-letter-uppercase-first")

    def report(lab, how, got):
        cls = classify(lab)
        if cls == "lowercase-single-letter":
            bad_single.append((lab, how, got))
        elif cls == "two-letter-lowercase-first":
            bad_two.setdefault(lab[0], []).append((lab, how, got))
        else:
            rec.violation("label-number/" + cls, "label %r: %s -> %r" % (lab, how, got), {"label": lab, "how": how, "got": got})

    for lab in labels:
        rec.hit("label.roundtrip")
        try:
            num = xsgm.getXSTypeNumberFromLabel(lab)
        except Exception as e:
            rec.crash("getXSTypeNumberFromLabel", e, {"label": lab})
            continue
        if not isinstance(num, int):
            rec.violation("label-number/number-not-int", "getXSTypeNumberFromLabel(%r) = %r" % (lab, num), {"label": lab})
        numbers.setdefault(num, []).append(lab)
        try:
            back = xsgm.getXSTypeLabelFromNumber(num)
            if back != lab:
                report(lab, "getXSTypeLabelFromNumber(%d)" % num, back)
        except Exception as e:
            report(lab, "getXSTypeLabelFromNumber(%d)" % num, "raises %s" % type(e).__name__)
        # the same conversion as users meet it: the xsType / xsTypeNum block parameters (what a database round trip does)
        rec.hit("label.param-setter")
        try:
            donor.p.xsType = lab
            stored = donor.p.xsTypeNum
            try:
                receiver.p.xsTypeNum = stored
                if receiver.p.xsType != lab:
                    report(lab, "b.p.xsTypeNum = %r" % stored, receiver.p.xsType)
            except Exception as e:
                report(lab, "b.p.xsTypeNum = %r" % stored, "raises %s" % type(e).__name__)
        except Exception as e:
            rec.crash("xsType-setter", e, {"label": lab})
        rec.case(["label", lab], nontrivial=True, sample={"label": lab, "number": num} if lab in ("A", "z", "Zd") else None)
    for num, labs in numbers.items():
        rec.hit("label.collision")
        if len(labs) > 1:
            rec.violation("label-number/collision", "labels %s share the number %d" % (labs, num), {"labels": labs, "number": num})
    for lab, how, got in bad_single:
        if how.startswith("get"):
            rec.violation("label-number/lowercase-single-letter", "label %r does not convert back: %s -> %r" % (lab, how, got),
                          {"label": lab, "number": ord(lab), "got": got, "reproduce": "getXSTypeLabelFromNumber(getXSTypeNumberFromLabel(%r))" % lab})
    for first, lst in sorted(bad_two.items()):
        fn = [x for x in lst if x[1].startswith("get")]
        if fn:
            rec.violation("label-number/two-letter-lowercase-first", "%d of 52 two-letter labels starting with %r do not convert back, e.g. %r: %s -> %r" % (
                len(fn), first, fn[0][0], fn[0][1], fn[0][2]), {"first": first, "failing": [x[0] for x in fn][:60], "example": fn[0]})
    rec.note("labels_failing_single", sorted({x[0] for x in bad_single}))
    rec.note("labels_failing_two_letter_first_letters", sorted(bad_two))
    rec.note("labels_failing_two_letter_count", sum(len({x[0] for x in v}) for v in bad_two.values()))
    rec.note("labels_failing_through_parameter_setter", len({x[0] for x in bad_single if not x[1].startswith("get")}) + sum(len({x[0] for x in v if not x[1].startswith("get")}) for v in bad_two.values()))
    # micro suffix convention for the labels: one letter -> type+env; two letters -> the label itself, only with env group A
    b = blocks.HexBlock("suffix")
    for lab in list(LETTERS) + ["AB", "zq", "Za"]:
        for env in ("A", "C", "b"):
            rec.hit("label.microsuffix")
            b.p.xsType, b.p.envGroup = lab, env
            try:
                got = b.getMicroSuffix()
            except ValueError:
                if len(lab) == 2 and env != "A":
                    rec.reject("two-letter xs type with a non-default environment group")
                    continue
                rec.violation("microsuffix/refused", "getMicroSuffix refused xsType %r env %r" % (lab, env), {"xsType": lab, "env": env})
                continue
            exp = lab + env if len(lab) == 1 else lab
            if got != exp or (len(lab) == 2 and env != "A"):
                rec.violation("microsuffix/wrong", "xsType %r env %r -> %r, expected %r" % (lab, env, got, exp), {"xsType": lab, "env": env})
    # environment group letter <-> number (block parameter pair), the documented 52 letters
    nb = blocks.HexBlock("env")
    for i, ch in enumerate(LETTERS):
        rec.hit("label.envgroup")
        nb.p.envGroupNum = i
        a = nb.p.envGroup
        nb.p.envGroup = ch
        if a != ch or nb.p.envGroupNum != i:
            rec.violation("envgroup-number/%s" % ("lowercase" if ch.islower() else "uppercase"), "envGroupNum %d <-> envGroup %r: got %r / %r" % (i, ch, a, nb.p.envGroupNum), {"index": i})
    try:
        nb.p.envGroupNum = 52
        rec.note("envGroupNum_52_observed", "accepted, envGroup=%r (index 52 is one past the 52 letters; unjudged)" % nb.p.envGroup)
        rec.skip("envGroupNum = 52 (one past the documented 52 letters) is accepted and maps to %r; the generator keeps cores at <= 52 groups" % nb.p.envGroup)
    except Exception as e:
        rec.note("envGroupNum_52_observed", "refused: " + type(e).__name__)


# ============================================================================= reference for representatives
class Cfg:
    def __init__(self, representation, by_component=False, valid=None, wp=None):
        self.representation, self.by_component, self.valid, self.wp = representation, by_component, valid, wp

    def sig(self):
        return [self.representation, self.by_component, self.valid, self.wp]


def sorted_names(b):
    return [c.name for c in sorted(b.getComponents())]


def count_blind(orders):
    """Candidates whose sorted component names agree position by position but whose component COUNTS differ
    (one layout is a prefix of the other): not the same layout, so block-level averaging is expected."""
    m = min(len(o) for o in orders)
    return len({len(o) for o in orders}) > 1 and all(o[:m] == orders[0][:m] for o in orders)


def judge_representative(rec, cfg, members, cands, rep, avgT, nucs, w, where, exact_comp_temperature=True):
    """Compare one representative with the reference computed from the candidate members. Returns a dict of the
    representative's judged values (for the metamorphic comparisons)."""
    import numpy as np
    from armi.utils.units import TRACE_NUMBER_DENSITY

    out = {}
    if any(rep is b for b in members):
        rec.violation("representative/is-a-member-not-a-copy/%s" % cfg.representation, "%s: the representative is one of the member blocks itself" % where, w)
        return out
    member_comp_ids = {id(c) for b in members for c in b}
    if any(id(c) in member_comp_ids for c in rep):
        rec.violation("representative/shares-components-with-a-member/%s" % cfg.representation, "%s: the representative holds a component object of a member" % where, w)
    tabs = [table(b) for b in cands]
    wts = np.array([weight_of(b, t, cfg.wp) for b, t in zip(cands, tabs)], dtype=float)
    rt = table(rep)
    out["burnup"] = rep.p.percentBu
    out["avgT"] = dict(avgT)

    # ---------------------------------------------------------------- nuclide temperatures (all representations)
    def flush_seen():
        if seen.pop("minmax", False):
            rec.hit("rep.minmax")
        if seen.pop("common", False):
            rec.hit("rep.common-value")

    seen = {}

    def nuclide_temperatures(tabs_, wts_, tag, alt=None):
        try:
            return nuclide_temperatures_(tabs_, wts_, tag, alt)
        finally:
            flush_seen()

    def nuclide_temperatures_(tabs_, wts_, tag, alt=None):
        """alt = (mechanism key, description, tables): a second, WRONG reference; a mismatch it explains is reported under its own key."""
        terms = [nuc_terms(t, nucs, TRACE_NUMBER_DENSITY) for t in tabs_]
        num = sum(w_ * t_[0] for w_, t_ in zip(wts_, terms))
        den = sum(w_ * t_[1] for w_, t_ in zip(wts_, terms))
        rec.hit("rep.nuclide-temperature")
        for i, n in enumerate(nucs):
            if n not in avgT:
                rec.violation("nuclide-temperature/missing/%s" % cfg.representation, "%s: no average temperature reported for %s" % (where, n), dict(w, nuclide=n))
                break
            exp = 0.0 if den[i] == 0.0 else float(num[i] / den[i])
            got = float(avgT[n])
            if not close(got, exp, scale=1000.0):
                if alt is not None:
                    at = [nuc_terms(t, nucs, TRACE_NUMBER_DENSITY) for t in alt[2]]
                    an, ad = sum(w_ * t_[0] for w_, t_ in zip(wts_, at)), sum(w_ * t_[1] for w_, t_ in zip(wts_, at))
                    if ad[i] > 0 and close(got, an[i] / ad[i], scale=1000.0):
                        rec.violation(alt[0], "%s: T(%s)=%r, atom-and-weight-normalised mean of the candidates %r; %s gives %r" % (where, n, got, exp, alt[1], float(an[i] / ad[i])),
                                      dict(w, nuclide=n, got=got, expected=float(exp), weights=wts_.tolist(), symmetry_factors=[t["sym"] for t in tabs_]))
                        break
                rec.violation("nuclide-temperature/not-the-weighted-mean/%s" % tag, "%s: T(%s)=%r, atom-and-weight-normalised mean of the candidates %r" % (where, n, got, exp),
                              dict(w, nuclide=n, got=got, expected=exp, weights=wts_.tolist()))
                break
            vals = [t_[0][i] / t_[1][i] for t_ in terms if t_[1][i] > 0]
            if vals:
                seen["minmax"] = True
                lo, hi = min(vals), max(vals)
                if not (lo - 1e-9 * abs(lo) - 1e-9 <= got <= hi + 1e-9 * abs(hi) + 1e-9):
                    rec.violation("nuclide-temperature/outside-min-max/%s" % tag, "%s: T(%s)=%r outside members' [%r, %r]" % (where, n, got, lo, hi), dict(w, nuclide=n))
                    break
                if hi - lo <= TOLERANCES["agree_spread_rel"] * abs(hi) and len(vals) > 1:
                    seen["common"] = True
                    if not close(got, lo, rel=TOLERANCES["common_rel"], scale=1.0):
                        rec.violation("nuclide-temperature/common-value-not-kept/%s" % tag, "%s: members agree on T(%s)=%r, representative says %r" % (where, n, lo, got), dict(w, nuclide=n))
                        break

    if cfg.representation == "Median":
        return judge_median(rec, cfg, members, cands, tabs, wts, rep, rt, avgT, nucs, w, where, out, nuclide_temperatures)

    if cfg.representation == "ComponentAverage1DSlab":
        # the slab representation documents no nuclide temperatures (its helper is not implemented): nothing is reported, nothing judged
        if avgT:
            rec.add("slab_reports_nuclide_temperatures")
        rec.skip("1D-slab representation reports no nuclide temperatures (none documented); only its densities and burnup are judged")
    elif cfg.representation == "ComponentAverage1DCylinderDuctHet":
        # documented: "average nuclide temperatures based only on the components that are inside of the duct"; block weights as ever
        inner = [dict(t, comps=[x for x in t["comps"] if x["name"] not in OUTSIDE_DUCT]) for t in tabs]
        rec.hit("rep.ducthet-nuclide-temperature")
        whole = [nuc_terms(t, nucs, TRACE_NUMBER_DENSITY) for t in tabs]
        part = [nuc_terms(t, nucs, TRACE_NUMBER_DENSITY) for t in inner]
        nw, dw = sum(w_ * t_[0] for w_, t_ in zip(wts, whole)), sum(w_ * t_[1] for w_, t_ in zip(wts, whole))
        np_, dp = sum(w_ * t_[0] for w_, t_ in zip(wts, part)), sum(w_ * t_[1] for w_, t_ in zip(wts, part))
        if any(dw[k] > 0 and dp[k] > 0 and abs(nw[k] / dw[k] - np_[k] / dp[k]) > 1e-3 for k in range(len(nucs))):
            rec.hit("rep.ducthet-differs-from-whole-block")  # the case can tell the two documented temperature rules apart
        alt = None
        if any(t["sym"] != 1 for t in tabs):
            # the same sum with the FULL component volumes of a member that the core's symmetry cuts (its block volume and weight are the reduced ones)
            alt = ("nuclide-temperature/duct-heterogeneous/symmetry-reduced-member-counted-with-full-volume",
                   "counting the members cut by the core symmetry (factors %s) with their full instead of their actual volume" % [t["sym"] for t in tabs],
                   [dict(t, comps=[dict(x, V=x["V"] * t["sym"]) for x in t["comps"]]) for t in inner])
        nuclide_temperatures(inner, wts, cfg.representation, alt)
    else:
        nuclide_temperatures(tabs, wts, cfg.representation)

    # ---------------------------------------------------------------- number densities
    def mean_check(member_vals, weights, got_vals, names, key, what, exact_key=None):
        try:
            return mean_check_(member_vals, weights, got_vals, names, key, what, exact_key)
        finally:
            flush_seen()

    def mean_check_(member_vals, weights, got_vals, names, key, what, exact_key=None):
        """member_vals: (n_members x n_values); got_vals: n_values."""
        M = np.array(member_vals, dtype=float)
        exp = np.average(M, axis=0, weights=weights)  # the numpy one-liner
        for j, nm in enumerate(names):
            col = M[:, j]
            scale = float(np.max(np.abs(col))) if len(col) else 0.0
            g = float(got_vals[j])
            if not close(g, float(exp[j]), scale=scale):
                rec.violation(exact_key or key + "/not-the-weighted-mean", "%s: %s %s = %r, weight-normalised mean of the candidates %r%s" % (
                    where, what, nm, g, float(exp[j]), " (candidates with differing component counts were averaged by component position)" if exact_key else ""),
                              dict(w, value=nm, got=g, expected=float(exp[j]), member_values=col.tolist()[:12], weights=list(map(float, weights))[:12]))
                return False
            seen["minmax"] = True
            lo, hi = float(col.min()), float(col.max())
            if not (lo - 1e-9 * abs(lo) - 1e-12 * scale <= g <= hi + 1e-9 * abs(hi) + 1e-12 * scale):
                rec.violation(key + "/outside-min-max", "%s: %s %s = %r outside members' [%r, %r]" % (where, what, nm, g, lo, hi), dict(w, value=nm))
                return False
            if len(col) > 1 and hi - lo <= TOLERANCES["agree_spread_rel"] * abs(hi):
                if hi != 0.0:
                    seen["common"] = True
                if not close(g, lo, rel=TOLERANCES["common_rel"], scale=0.0) and not (lo == 0.0 and g == 0.0):
                    rec.violation(key + "/common-value-not-kept", "%s: members agree on %s %s = %r, representative has %r" % (where, what, nm, lo, g), dict(w, value=nm))
                    return False
        return True

    orders = [sorted_names(b) for b in cands]
    same_layout = all(o == orders[0] for o in orders)
    out["by_component_expected"] = False
    if cfg.representation in COMPONENT_KINDS:
        # per matching component, weight = block weight x component area (docstring of _getAverageComponentNucs)
        if cfg.representation == "ComponentAverage1DSlab":
            # plates are matched by their position in the slab, which the generator wrote into the component name; a member may list
            # them in reverse order; the zero-area void lattice component is documented to be dropped from the representative
            rep_order = [c.name for c in rep]
            plates = [sorted(x["name"] for x in t["comps"] if x["name"].startswith("plate")) for t in tabs]
            if any(p != plates[0] for p in plates) or sorted(n for n in rep_order if n.startswith("plate")) != plates[0]:
                rec.skip("1D-slab representative accepted for candidates whose plates differ; not judged")
                return out
            rep_order = [n for n in rep_order if n.startswith("plate")]
            rec.hit("rep.slab-component-mean")
        else:
            rep_order = sorted_names(rep)
            if not same_layout or rep_order != orders[0]:
                rec.skip("1D-cylinder representative accepted for candidates whose sorted component names differ; not judged")
                return out
            rec.hit("rep.cylinder-component-mean")
            if cfg.representation == "ComponentAverage1DCylinderDuctHet":
                rec.hit("rep.ducthet-component-mean")
        out["comp_nd"] = {}
        for pos, cname in enumerate(rep_order):
            xs = [t["by"][cname] for t in tabs]
            cn = sorted({n for x in xs for n in x["nd"]})
            if not cn:
                continue
            cw = np.array([w_ * x["A"] for w_, x in zip(wts, xs)])
            if cw.sum() <= 0:
                continue
            got = [rt["by"][cname]["nd"].get(n, 0.0) for n in cn]
            out["comp_nd"][cname] = dict(zip(cn, got))
            if not mean_check([[x["nd"].get(n, 0.0) for n in cn] for x in xs], cw, got, cn,
                              "slab-component-density" if cfg.representation == "ComponentAverage1DSlab" else "cylinder-component-density", "component %s N" % cname):
                break
    else:
        by_comp = cfg.by_component and same_layout
        out["by_component_expected"] = by_comp
        if cfg.by_component and not same_layout:
            rec.hit("rep.fallback-expected")
        if by_comp:
            rec.hit("rep.nd-component-mean")
            rep_order = sorted_names(rep)
            if rep_order != orders[0]:
                rec.violation("average/by-component/representative-layout-differs", "%s: representative components %s, candidates %s" % (where, rep_order, orders[0]), w)
                return out
            out["comp_nd"], out["comp_T"] = {}, {}
            ok = True
            for cname in rep_order:
                xs = [t["by"][cname] for t in tabs]
                got = [rt["by"][cname]["nd"].get(n, 0.0) for n in nucs]
                out["comp_nd"][cname] = dict(zip(nucs, got))
                if not mean_check([[x["nd"].get(n, 0.0) for n in nucs] for x in xs], wts, got, nucs, "average/by-component/density", "component %s N" % cname):
                    ok = False
                    break
                extra = {n: v for n, v in rt["by"][cname]["nd"].items() if n not in nucs and v}
                if extra:
                    rec.violation("average/by-component/unlisted-nuclide-kept", "%s: component %s of the representative keeps %s" % (where, cname, sorted(extra)), w)
                # component temperature: block weight (without its volume) x component mass
                gotT = float(rt["by"][cname]["T"])
                out["comp_T"][cname] = gotT
                Ts = [x["T"] for x in xs]
                rec.hit("rep.component-temperature")
                lo, hi = min(Ts), max(Ts)
                if not (lo - 1e-9 * abs(lo) - 1e-9 <= gotT <= hi + 1e-9 * abs(hi) + 1e-9):
                    rec.violation("average/by-component/temperature/outside-min-max", "%s: component %s T=%r outside members' [%r, %r]" % (where, cname, gotT, lo, hi), dict(w, component=cname))
                    ok = False
                    break
                if hi - lo <= TOLERANCES["agree_spread_rel"] * abs(hi) and not close(gotT, lo, rel=TOLERANCES["common_rel"], scale=1.0):
                    rec.violation("average/by-component/temperature/common-value-not-kept", "%s: component %s members agree on T=%r, representative %r" % (where, cname, lo, gotT), dict(w, component=cname))
                    ok = False
                    break
                cw = np.array([w_ / t["V"] * x["m"] for w_, t, x in zip(wts, tabs, xs)])
                if exact_comp_temperature and cw.sum() > 0:
                    rec.hit("rep.component-temperature-exact")
                    expT = float(np.average(np.array(Ts), weights=cw))
                    if not close(gotT, expT, scale=1000.0):
                        rec.violation("average/by-component/temperature/not-the-mass-weighted-mean", "%s: component %s T=%r, (weight/volume x component mass)-normalised mean %r" % (
                            where, cname, gotT, expT), dict(w, component=cname, member_T=Ts, weights=cw.tolist()))
                        ok = False
                        break
            if not ok:
                return out
        else:
            rec.hit("rep.nd-block-mean")
            got = block_nd(rt, nucs)
            out["block_nd"] = dict(zip(nucs, got))
            blind = cfg.by_component and count_blind(orders)
            mean_check([block_nd(t, nucs) for t in tabs], wts, got, nucs, "average/block-density", "block N",
                       exact_key="average/by-component/similarity-ignores-component-count" if blind else None)

    # ---------------------------------------------------------------- burnup: heavy-metal weighted mean over the eligible members
    def hm_mean(blocks_):
        ws = np.array([b.p.massHmBOL * ((b.p[cfg.wp] if cfg.wp else 0.0) or 1.0) for b in blocks_], dtype=float)
        if ws.sum() <= 0:
            return None
        return float(np.average(np.array([b.p.percentBu for b in blocks_], dtype=float), weights=ws))

    exp = hm_mean(cands)
    if exp is None:
        rec.skip("averaged burnup with zero total heavy-metal weight among the candidates (mean undefined)")
    else:
        rec.hit("rep.burnup")
        got = float(rep.p.percentBu)
        if not close(got, exp, scale=100.0):
            alt = hm_mean(members)
            if len(members) > len(cands) and alt is not None and close(got, alt, scale=100.0):
                rec.violation("average/burnup/includes-non-candidate-members", "%s: representative burnup %r is the heavy-metal mean over ALL %d members (%r); over the %d eligible members it is %r" % (
                    where, got, len(members), alt, len(cands), exp), dict(w, got=got, over_candidates=exp, over_all=alt))
            else:
                rec.violation("average/burnup/not-the-heavy-metal-mean", "%s: representative burnup %r, heavy-metal-weighted mean of the candidates %r" % (where, got, exp),
                              dict(w, got=got, expected=exp, bu=[b.p.percentBu for b in cands], hm=[b.p.massHmBOL for b in cands]))
    return out


def judge_median(rec, cfg, members, cands, tabs, wts, rep, rt, avgT, nucs, w, where, out, nuclide_temperatures):
    import numpy as np

    rec.hit("rep.median")
    vals = [b.p.percentBu * w_ for b, w_ in zip(cands, wts)]
    srcs = [b for b in cands if b.getName() == rep.getName()]
    if not srcs:
        rec.violation("median/not-a-copy-of-a-candidate", "%s: representative %r is not named after an eligible member" % (where, rep.getName()), w)
        return out
    ro = obs_block(rep, light=True)
    skip = ("component-identity", "parent", "param:serialNum")
    diffs = [[x for x in diff_obs(obs_block(b, light=True), ro) if not x.startswith(skip)] for b in srcs]
    best = min(range(len(srcs)), key=lambda k: len(diffs[k]))
    src, d = srcs[best], diffs[best]
    i = [k for k, b in enumerate(cands) if b is src][0]
    s = sorted(vals)
    n = len(s)
    if n % 2:
        rec.hit("rep.median-odd")
    okv = {s[(n - 1) // 2], s[n // 2]}  # either middle element of an even-sized set is accepted
    if not any(close(vals[i], m, rel=TOLERANCES["common_rel"]) for m in okv):
        rec.violation("median/not-the-median-member", "%s: representative copies the member with weighted burnup %r; sorted values %s (n=%d)" % (where, vals[i], s, n),
                      dict(w, chosen=vals[i], sorted_values=s))
    if d:
        rec.violation("median/copy-differs-from-member", "%s: the median representative differs from its member in %s" % (where, d[:6]), dict(w, differs=d[:20]))
    out["block_nd"] = dict(zip(nucs, block_nd(rt, nucs)))
    nuclide_temperatures([tabs[i]], np.array([1.0]), "Median")
    return out


def compare_metamorphic(rec, base, other, key, where, w):
    tol = TOLERANCES["metamorphic_rel"]

    def same(a, b, scale):
        return abs(a - b) <= tol * max(abs(a), abs(b)) + 1e-12 * scale

    for k in ("block_nd", "avgT"):
        if k in base and k in other:
            for n, v in base[k].items():
                if n in other[k] and not same(float(v), float(other[k][n]), 1000.0 if k == "avgT" else max(abs(float(x)) for x in base[k].values()) or 0.0):
                    rec.violation("%s/%s" % (key, k), "%s: %s of %s changed %r -> %r" % (where, k, n, v, other[k][n]), dict(w, value=n))
                    return
    for k in ("comp_nd",):
        if k in base and k in other:
            for c, d in base[k].items():
                for n, v in d.items():
                    if c in other[k] and n in other[k][c] and not same(v, other[k][c][n], max(d.values()) if d else 0.0):
                        rec.violation("%s/%s" % (key, k), "%s: component %s N(%s) changed %r -> %r" % (where, c, n, v, other[k][c][n]), dict(w, component=c, value=n))
                        return
    if "comp_T" in base and "comp_T" in other:
        for c, v in base["comp_T"].items():
            if c in other["comp_T"] and not same(v, other["comp_T"][c], 1000.0):
                rec.violation("%s/comp_T" % key, "%s: component %s temperature changed %r -> %r" % (where, c, v, other["comp_T"][c]), dict(w, component=c))
                return
    if "burnup" in base and "burnup" in other and not same(float(base["burnup"]), float(other["burnup"]), 100.0):
        rec.violation("%s/burnup" % key, "%s: burnup changed %r -> %r" % (where, base["burnup"], other["burnup"]), w)


# ============================================================================= representatives on generated block sets
def perturbed_spec(rng, spec, agree_T=None):
    s = copy.deepcopy(spec)
    for c in s["components"]:
        if c["material"] in FLUIDS:
            T = agree_T[c["name"]] if agree_T else rng.uniform(350, 550)
            c["Tinput"] = c["Thot"] = T
        else:
            c["Thot"] = agree_T[c["name"]] if agree_T else rng.uniform(300, 800)
    return s


def make_set(rng):
    from vlib import gen

    n = rng.choice([1, 2, 2, 3, 3, 3, 4, 5, 5, 6, 7, 8, 9, 12])
    mode = rng.choice(["shared", "shared", "shared", "mixed", "prefix"])
    agree = mode == "shared" and rng.random() < .18
    pitch = rng.uniform(9, 16)
    npins = rng.choice(gen.HEX_PIN_COUNTS[:5])
    base = gen.pin_block_spec(rng, kind="fuel", pitch=pitch, npins=npins)
    agree_T = {c["name"]: (rng.uniform(350, 550) if c["material"] in FLUIDS else rng.uniform(300, 800)) for c in base["components"]} if agree else None
    agree_f = None
    extra_nuc = rng.random() < .3
    zero_flux = rng.random()
    wclass = "all-zero" if zero_flux < .25 else ("mixed" if zero_flux < .35 and n > 1 else "all-positive")
    blocks, types, specs = [], [], []
    short = rng.randrange(n)
    for i in range(n):
        if mode == "mixed":
            kind = rng.choice(["fuel", "fuel", "control", "shield", "plenum"])
            sp = perturbed_spec(rng, gen.pin_block_spec(rng, kind=kind, pitch=pitch, npins=npins))
            typ = rng.choice(TYPE_POOL[kind])
        else:
            kind = "fuel"
            sp = perturbed_spec(rng, base, agree_T)
            if mode == "prefix" and i == short and n > 1:
                sp["components"] = [c for c in sp["components"] if c["name"] != "intercoolant"]
            typ = rng.choice(TYPE_POOL[rng.choice(["fuel", "fuel", "fuel", "control", "shield"])])
        if rng.random() < .5:
            # the child order of a block need not be the dimension-sorted one (fresh assemblies built from blueprints keep the
            # YAML order; only reactors.factory sorts): members are built in a random component order
            sp = dict(sp, components=rng.sample(sp["components"], len(sp["components"])))
        b = gen.build_block(sp, rng.uniform(5, 60), name="blk%02d" % i)
        b.name = "M%03d" % i
        b.setType(typ)
        b.p.xsType = "A"
        # compositions
        for c in b:
            nd = dict(c.p.numberDensities)
            if not nd:
                continue
            if agree:
                if agree_f is None:
                    agree_f = {}
                f = agree_f.setdefault(c.name, {k: rng.uniform(.3, 1.7) for k in nd})
                new = {k: v * f[k] for k, v in nd.items()}
            else:
                new = {k: (0.0 if rng.random() < .04 else v * rng.uniform(.3, 1.7)) for k, v in nd.items()}
            c.setNumberDensities(new)
        if extra_nuc and not agree and rng.random() < .5:
            fc = [c for c in b if c.name in ("fuel", "control", "shield")]
            if fc:
                fc[0].setNumberDensity("PU239", rng.uniform(1e-6, 1e-3))
        b.p.percentBu = rng.choice([0.0, 0.0, rng.uniform(0, 40), rng.uniform(0, 40), float(rng.randint(0, 5))])
        b.p.massHmBOL = rng.choice([0.0, rng.uniform(100, 5000), rng.uniform(100, 5000), rng.uniform(100, 5000)])
        if wclass == "all-zero":
            fl = 0.0
        elif wclass == "mixed":
            fl = 0.0 if i % 2 else 10 ** rng.uniform(10, 16)
        else:
            fl = 10 ** rng.uniform(10, 16)
        b.p.flux = fl
        b.p.power = fl * 1e-9
        blocks.append(b)
        types.append(typ)
        specs.append(sp)
    return {"blocks": blocks, "types": types, "mode": mode, "agree": agree, "wclass": wclass, "n": n}


PLATE_MATERIALS = ["UZr", "UO2", "HT9", "Sodium", "Zr", "B4C", "Graphite", "Inconel600", "UZr", "Sodium"]


def make_slab_set(rng):
    """Slab-like members for ComponentAverage1DSlab: Cartesian blocks of 1-5 rectangular plates (pairwise distinct thickness, shared
    width, multiplicity and temperature per plate position: the class demands exactly equal plate areas), an optional zero-area void
    `lattice` component, some members listing their plates in reverse order (documented to be recognised), compositions, heights,
    burnups and weights as in make_set. Mode `slab-inconsistent`: one member has a hotter plate or lacks a plate."""
    from armi.reactor import blocks as ablocks
    from armi.reactor.components import basicShapes

    n = rng.choice([1, 2, 2, 3, 3, 3, 4, 5, 5, 6, 7, 8, 9, 12])
    nplates = rng.choice([1, 2, 3, 3, 4, 5])
    width = rng.uniform(3, 8)
    mats = [rng.choice(PLATE_MATERIALS) for _ in range(nplates)]
    if not any(m in ("UZr", "UO2") for m in mats):
        mats[rng.randrange(nplates)] = rng.choice(["UZr", "UO2"])
    thick = sorted(rng.sample(range(20, 220), nplates))  # pairwise distinct -> a reversed member can never pass the forward comparison
    rng.shuffle(thick)
    thick = [t / 100.0 + rng.uniform(0, 0.004) for t in thick]
    mult = rng.choice([1, 1, 2])
    temps = [rng.uniform(350, 550) if m in FLUIDS else rng.uniform(300, 800) for m in mats]
    lattice = rng.random() < .7
    inconsistent = n > 1 and rng.random() < .15
    mode = "slab-inconsistent" if inconsistent else "slab"
    odd = rng.randrange(n) if inconsistent else None
    odd_how = rng.choice(["hotter-plate", "missing-plate"]) if nplates > 1 else "hotter-plate"
    agree = (not inconsistent) and rng.random() < .18
    agree_f = {}
    extra_nuc = rng.random() < .3
    zero_flux = rng.random()
    wclass = "all-zero" if zero_flux < .25 else ("mixed" if zero_flux < .35 and n > 1 else "all-positive")
    blocks, types, reversed_members = [], [], 0
    for i in range(n):
        b = ablocks.CartesianBlock("M%03d" % i)
        comps = []
        for k in range(nplates):
            if i == odd and odd_how == "missing-plate" and k == nplates - 1:
                continue
            T = temps[k] + (150.0 if (i == odd and odd_how == "hotter-plate" and k == 0) else 0.0)
            Tin = T if mats[k] in FLUIDS else 25.0
            comps.append(basicShapes.Rectangle("plate%d" % k, mats[k], Tin, T, lengthOuter=thick[k], lengthInner=0.0, widthOuter=width, widthInner=0.0, mult=mult))
        if lattice and nplates > 1 and rng.random() < .3:
            comps.reverse()
            reversed_members += 1
        if lattice:
            comps.append(basicShapes.Rectangle("lattice", "Void", 25.0, 25.0, lengthOuter=sum(thick), lengthInner=sum(thick), widthOuter=width, widthInner=width, mult=1))
        for c in comps:
            b.add(c)
        b.setHeight(rng.uniform(5, 60))
        typ = rng.choice(TYPE_POOL[rng.choice(["fuel", "fuel", "fuel", "control", "shield"])])
        b.setType(typ)
        b.p.xsType = "A"
        for c in b:
            nd = dict(c.p.numberDensities)
            if not nd:
                continue
            if agree:
                f = agree_f.setdefault(c.name, {k: rng.uniform(.3, 1.7) for k in nd})
                new = {k: v * f[k] for k, v in nd.items()}
            else:
                new = {k: (0.0 if rng.random() < .04 else v * rng.uniform(.3, 1.7)) for k, v in nd.items()}
            c.setNumberDensities(new)
        if extra_nuc and not agree and rng.random() < .5:
            # a nuclide only a few members hold; AM241 is not among the nuclides the class requires to be present consistently
            b.getComponentByName("plate0").setNumberDensity("AM241", rng.uniform(1e-6, 1e-3))
        b.p.percentBu = rng.choice([0.0, 0.0, rng.uniform(0, 40), rng.uniform(0, 40), float(rng.randint(0, 5))])
        b.p.massHmBOL = rng.choice([0.0, rng.uniform(100, 5000), rng.uniform(100, 5000), rng.uniform(100, 5000)])
        if wclass == "all-zero":
            fl = 0.0
        elif wclass == "mixed":
            fl = 0.0 if i % 2 else 10 ** rng.uniform(10, 16)
        else:
            fl = 10 ** rng.uniform(10, 16)
        b.p.flux = fl
        b.p.power = fl * 1e-9
        blocks.append(b)
        types.append(typ)
    return {"blocks": blocks, "types": types, "mode": mode, "agree": agree, "wclass": wclass, "n": n, "odd": odd, "odd_how": odd_how if inconsistent else None,
            "reversed": reversed_members, "lattice": lattice, "nplates": nplates}


def make_collection(cfg, nucs):
    from armi.physics.neutronics import crossSectionGroupManager as xsgm

    cls = {"Median": xsgm.MedianBlockCollection, "Average": xsgm.AverageBlockCollection, "FluxWeightedAverage": xsgm.FluxWeightedAverageBlockCollection,
           "ComponentAverage1DCylinder": xsgm.CylindricalComponentsAverageBlockCollection,
           "ComponentAverage1DCylinderDuctHet": xsgm.CylindricalComponentsDuctHetAverageBlockCollection,
           "ComponentAverage1DSlab": xsgm.SlabComponentsAverageBlockCollection}[cfg.representation]
    bc = cls(list(nucs), validBlockTypes=cfg.valid, averageByComponent=cfg.by_component)
    if cfg.representation != "FluxWeightedAverage":
        bc.weightingParam = cfg.wp
    return bc


REP_KINDS = ["Average", "Average", "FluxWeightedAverage", "FluxWeightedAverage", "Median", "Median", "ComponentAverage1DCylinder", "ComponentAverage1DCylinder",
             "ComponentAverage1DCylinderDuctHet", "ComponentAverage1DCylinderDuctHet", "ComponentAverage1DSlab", "ComponentAverage1DSlab"]


def do_reps(spec, rec):
    from vlib.env import quiet

    for i in range(spec["n"]):
        rng = random.Random("%s:%d" % (spec["rng"], i))
        rep_kind = REP_KINDS[rng.randrange(len(REP_KINDS))]
        try:
            st = make_slab_set(rng) if rep_kind == "ComponentAverage1DSlab" else make_set(rng)
        except Exception as e:
            rec.crash("build-block-set", e, {"case": i, "kind": rep_kind})
            continue
        blocks, types = st["blocks"], st["types"]
        wp = "flux" if rep_kind == "FluxWeightedAverage" else rng.choice([None, None, "flux", "power"])
        tw = {id(b): words(t) for b, t in zip(blocks, types)}
        valid = rng.choice(FILTERS)
        if rng.random() < .85:  # mostly filters that leave at least one eligible member
            okf = [f for f in FILTERS if any(is_candidate(x, f) for x in tw.values())]
            valid = rng.choice(okf)
        cfg = Cfg(rep_kind, by_component=rep_kind in ("Average", "FluxWeightedAverage") and rng.random() < .6, valid=valid, wp=wp)
        cands = [b for b in blocks if is_candidate(tw[id(b)], cfg.valid)]
        nucs = sorted({n for b in blocks for c in b for n in c.p.numberDensities} | ({"AM241"} if rng.random() < .3 else set()))
        w = {"case": i, "cfg": cfg.sig(), "mode": st["mode"], "types": types, "wclass": st["wclass"], "n": st["n"],
             "burnups": [b.p.percentBu for b in blocks], "massHmBOL": [b.p.massHmBOL for b in blocks], "heights": [b.getHeight() for b in blocks],
             "weightParam": [b.p[wp] for b in blocks] if wp else None}
        sig = ["rep", rep_kind, cfg.by_component, st["mode"], st["n"], len(cands), st["wclass"] if wp else "volume", cfg.valid, st["agree"], wp]
        if not cands:
            rec.skip("member set without any eligible member (the manager never asks such a group for a representative)")
            continue
        if len(cands) < len(blocks):
            rec.hit("rep.filter-active")
        bc = make_collection(cfg, nucs)
        bc.extend(blocks)
        before = [obs_block(b) for b in blocks]
        mixed = wp is not None and len({bool(b.p[wp]) for b in cands}) == 2
        # the one inconsistent slab member is eligible and has to be matched with another eligible member: refusal is the documented outcome
        slab_odd = st.get("odd") is not None and len(cands) > 1 and any(b is blocks[st["odd"]] for b in cands)
        if rep_kind == "ComponentAverage1DSlab":
            w.update(plates=st["nplates"], lattice=st["lattice"], reversed_members=st["reversed"], inconsistent_member=st["odd"], inconsistency=st["odd_how"])
            if st["reversed"] and not slab_odd:
                rec.hit("rep.slab-reversed-member")
        try:
            with quiet():
                rep = bc.createRepresentativeBlock()
        except ValueError as e:
            msg = str(e)
            if mixed and "mixture of zero and non-zero weighting" in msg:
                rec.reject("mixed zero / non-zero weighting factors")
            elif rep_kind in CYLINDER_KINDS and ("differing number of components" in msg or "same multiplicity" in msg or "nuclides" in msg):
                rec.reject("1D-cylinder averaging refused inconsistent members")
            elif slab_odd and ("differing number of components" in msg or "differing thicknesses" in msg):
                rec.reject("1D-slab averaging refused a member with a thermally expanded or a missing plate")
            else:
                rec.crash("createRepresentativeBlock/%s" % rep_kind, e, w)
            check_unchanged(rec, blocks, before, "rep.unchanged", "member", w)
            continue
        except Exception as e:
            if rep_kind in CYLINDER_KINDS and st["mode"] != "shared":
                rec.reject("1D-cylinder averaging failed on members with differing layouts (%s)" % type(e).__name__)
            elif slab_odd and isinstance(e, IndexError) and not st["lattice"]:
                # the refusal of the inconsistent member surfaces from the reverse-order attempt, which presumes a lattice component
                rec.reject("1D-slab averaging refused a member with a thermally expanded or a missing plate (IndexError from the reverse-order attempt, no lattice component)")
            elif cfg.by_component and isinstance(e, IndexError) and count_blind([sorted_names(b) for b in cands]):
                rec.violation("average/by-component/similarity-ignores-component-count", "%s by component: candidates with %s components pass the similarity test "
                              "(component counts are not compared) and averaging then raises IndexError instead of falling back to block-level averaging" % (
                                  rep_kind, sorted({len(b) for b in cands})), dict(w, layout_orders=[sorted_names(b) for b in cands][:4]))
            else:
                rec.crash("createRepresentativeBlock/%s%s" % (rep_kind, "/by-component" if cfg.by_component else ""), e, dict(w, layout_orders=[sorted_names(b) for b in cands][:4]))
            check_unchanged(rec, blocks, before, "rep.unchanged", "member", w)
            continue
        if mixed:
            rec.add("mixed_weights_accepted")
        check_unchanged(rec, blocks, before, "rep.unchanged", "member", w)
        where = "%s%s" % (rep_kind, "(by component)" if cfg.by_component else "")
        # the exact component-temperature reference presumes a common block cross-section area (armi uses the height as a proxy for the volume)
        same_area = len({round(t_["V"] / t_["h"], 9) for t_ in (table(b) for b in cands)}) == 1
        base = judge_representative(rec, cfg, blocks, cands, rep, dict(bc.avgNucTemperatures), nucs, w, where, exact_comp_temperature=same_area)
        nontrivial = len(cands) >= 2 and (not st["agree"] or len({b.getHeight() for b in cands}) > 1)
        rec.case(sig, nontrivial=nontrivial, sample=dict(w, nuclides=nucs[:8]) if i < 2 else None)
        # ---- the same collection object given other members (same count) and asked again: it answers for the members it holds now
        if rng.random() < .5:
            try:
                others = []
                for b in blocks:
                    d = copy.deepcopy(b)
                    d.name = b.name + "r"
                    tw[id(d)] = tw[id(b)]
                    for c in d:
                        c.changeNDensByFactor(2.0)
                    d.p.percentBu = b.p.percentBu * 1.5 + 1.0
                    others.append(d)
                how = rng.choice(["slice-assignment", "item-assignment", "clear-and-extend", "remove-and-append"])
                if how == "slice-assignment":
                    bc[:] = others
                elif how == "item-assignment":
                    for j, d in enumerate(others):
                        bc[j] = d
                elif how == "clear-and-extend":
                    del bc[:]
                    bc.extend(others)
                else:
                    for b, d in zip(blocks, others):
                        bc.remove(b)
                        bc.append(d)
                with quiet():
                    rep4 = bc.createRepresentativeBlock()
                rec.hit("rep.collection-reused")
                cands4 = [d for d in others if is_candidate(tw[id(d)], cfg.valid)]
                judge_representative(rec, cfg, others, cands4, rep4, dict(bc.avgNucTemperatures), nucs, dict(w, collection_reused=how), where + " (collection reused)", exact_comp_temperature=same_area)
            except Exception as e:
                rec.crash("createRepresentativeBlock/collection-reused/%s" % rep_kind, e, w)
        if rep_kind == "Median" or not base:
            continue
        # ---- metamorphic 1: every member duplicated
        try:
            dups = []
            for b in blocks:
                d = copy.deepcopy(b)
                d.name = b.name + "d"
                tw[id(d)] = tw[id(b)]
                dups.append(d)
            order = blocks + dups if rng.random() < .5 else [x for pair in zip(blocks, dups) for x in pair]
            bc2 = make_collection(cfg, nucs)
            bc2.extend(order)
            with quiet():
                rep2 = bc2.createRepresentativeBlock()
            rec.hit("rep.duplicate")
            o2 = values_only(cfg, rep2, dict(bc2.avgNucTemperatures), nucs, base)
            compare_metamorphic(rec, base, o2, "metamorphic/duplicate-every-member/%s" % rep_kind, where, w)
        except Exception as e:
            rec.crash("createRepresentativeBlock/duplicated-members/%s" % rep_kind, e, w)
        # ---- metamorphic 2: every weight rescaled by the same factor
        try:
            k = rng.choice([1e-3, 0.37, 7.5, 1e4])
            if wp and all(b.p[wp] for b in blocks):
                for b in blocks:
                    b.p[wp] = b.p[wp] * k
                how = "weighting parameter x %g" % k
            else:
                for b in blocks:
                    b.setHeight(b.getHeight() * k)
                how = "all heights (volumes) x %g" % k
            bc3 = make_collection(cfg, nucs)
            bc3.extend(blocks)
            with quiet():
                rep3 = bc3.createRepresentativeBlock()
            rec.hit("rep.rescale")
            o3 = values_only(cfg, rep3, dict(bc3.avgNucTemperatures), nucs, base)
            compare_metamorphic(rec, base, o3, "metamorphic/rescale-all-weights/%s" % rep_kind, where, dict(w, rescale=how))
        except Exception as e:
            rec.crash("createRepresentativeBlock/rescaled-weights/%s" % rep_kind, e, w)


def values_only(cfg, rep, avgT, nucs, base):
    rt = table(rep)
    out = {"avgT": avgT, "burnup": rep.p.percentBu}
    if "block_nd" in base:
        out["block_nd"] = dict(zip(nucs, block_nd(rt, nucs)))
    if "comp_nd" in base:
        out["comp_nd"] = {c: {n: rt["by"][c]["nd"].get(n, 0.0) for n in d} for c, d in base["comp_nd"].items() if c in rt["by"]}
    if "comp_T" in base:
        out["comp_T"] = {c: float(rt["by"][c]["T"]) for c in base["comp_T"] if c in rt["by"]}
    return out


def check_unchanged(rec, blocks, before, monitor, what, w):
    for b, a in zip(blocks, before):
        rec.hit(monitor)
        d = diff_obs(a, obs_block(b))
        if d:
            rec.violation("creating-representatives-changed-a-%s" % what, "block %s changed (%s): %s" % (b.getName(), ", ".join(sorted({x.split(":")[0] for x in d})), d[:8]),
                          dict(w, block=b.getName(), differs=d[:20]))
            return


# ============================================================================= grouping + representatives on generated cores
def do_cores(spec, rec):
    import numpy as np

    from armi.physics.neutronics import crossSectionGroupManager as xsgm
    from armi.utils.units import TRACE_NUMBER_DENSITY
    from vlib import gen
    from vlib.env import quiet

    for i in range(spec["n"]):
        rng = random.Random("%s:%d" % (spec["rng"], i))
        # ---------------- boundaries
        nbu = rng.choice([0, 1, 2, 3, 4, 5])
        ntemp = rng.choice([0, 0, 1, 2, 3])
        while (nbu + 1) * (ntemp + 1) > 52:
            ntemp -= 1
        bu_bounds = sorted(rng.sample(range(1, 61), nbu)) if rng.random() < .8 else sorted(rng.choice(range(1, 61)) for _ in range(nbu))  # duplicates allowed (ascending, not strictly)
        t_bounds = sorted(rng.sample(range(300, 900, 10), ntemp))
        single = nbu == 0 and ntemp == 0
        two_letter = single and rng.random() < .5
        # ---------------- core spec with our own xs types
        cspec = gen.core_spec(rng, rings=rng.randint(2, spec.get("max_rings", 4)), symmetry=rng.choice(["third periodic", "third periodic", "full"]), ndesigns=rng.randint(1, 3),
                              nblocks=rng.randint(2, spec.get("max_blocks", 5)),
                              kinds=["fuel", "fuel", "fuel", "shield", "control", "plenum"])
        alphabet = rng.sample(LETTERS, rng.randint(2, 5))
        if two_letter:
            # two-letter types: first letters distinct from each other and from every single-letter type of the core, because
            # XSSettings resolves the settings of an id by (first letter = type, second letter = environment group)
            firsts = rng.sample(LETTERS, 3)
            alphabet = [a + rng.choice(LETTERS) for a in firsts] + [x for x in alphabet if x not in firsts][:2]
        cyl_letter = None
        for dname, a in cspec["assemblies"].items():
            a["xs types"] = [rng.choice(alphabet) for _ in a["blocks"]]
        fuel_specs = [(d, k) for d, a in cspec["assemblies"].items() for k, bn in enumerate(a["blocks"]) if bn.endswith("_fuel")]
        if fuel_specs and rng.random() < .35:
            cyl_letter = rng.choice([x for x in LETTERS if x not in alphabet and not any(len(y) == 2 and y[0] == x for y in alphabet)])
            d, k = rng.choice(fuel_specs)
            cspec["assemblies"][d]["xs types"][k] = cyl_letter
            others = [j for j in range(len(cspec["assemblies"][d]["blocks"])) if j != k]
            if others and rng.random() < .6:
                # the same block design once more at another elevation (another height): members of the 1D-cylinder group then differ in weight
                k2 = rng.choice(others)
                cspec["assemblies"][d]["blocks"][k2] = cspec["assemblies"][d]["blocks"][k]
                cspec["assemblies"][d]["xs types"][k2] = cyl_letter
        # ---------------- per-type settings (keyed <type>A: the documented source of settings for every environment group of the type)
        glob_repr = rng.choice(["Average", "Average", "Median", "FluxWeightedAverage"])
        disable_excl = rng.random() < .5
        per_type = {}
        used_types = sorted({t for a in cspec["assemblies"].values() for t in a["xs types"]})
        xs_control = {}
        for t in used_types:
            if len(t) == 2:
                key = t
            else:
                key = t + "A"
            if t == cyl_letter:
                d = {"geometry": "1D cylinder", "blockRepresentation": "ComponentAverage1DCylinder", "validBlockTypes": rng.choice([None, ["fuel"]])}
                if d["validBlockTypes"] is None:
                    del d["validBlockTypes"]
                duct_het = rng.random() < .5
                if duct_het:
                    d["ductHeterogeneous"] = True
                elif rng.random() < .3:
                    d["ductHeterogeneous"] = False
                xs_control[key] = d
                per_type[t] = {"repr": "ComponentAverage1DCylinderDuctHet" if duct_het else "ComponentAverage1DCylinder", "valid": d.get("validBlockTypes", "global"), "byc": False, "iso": "U238"}
                continue
            if rng.random() < .6:
                d = {"geometry": "0D"}
                pt = {"repr": glob_repr, "valid": "global", "byc": False, "iso": "U238"}
                if rng.random() < .6:
                    d["blockRepresentation"] = pt["repr"] = rng.choice(["Average", "Median", "FluxWeightedAverage"])
                if rng.random() < .5:
                    d["validBlockTypes"] = pt["valid"] = rng.choice([x for x in FILTERS if x])
                if rng.random() < .6:
                    d["averageByComponent"] = pt["byc"] = True
                if rng.random() < .4:
                    d["xsTempIsotope"] = pt["iso"] = rng.choice(["U235", "NA23", "FE56", "ZR", "NA", "B10", "FE"])
                xs_control[key] = d
                per_type[t] = pt
            else:
                per_type[t] = {"repr": glob_repr, "valid": "global", "byc": False, "iso": "U238"}
        for pt in per_type.values():
            if pt["valid"] == "global":
                pt["valid"] = None if disable_excl else ["fuel"]
        overrides = {"buGroups": list(bu_bounds), "tempGroups": list(t_bounds), "xsBlockRepresentation": glob_repr,
                     "disableBlockTypeExclusionInXsGeneration": disable_excl, "crossSectionControl": xs_control}
        w = {"case": i, "buGroups": bu_bounds, "tempGroups": t_bounds, "xsControl": xs_control, "globalRepresentation": glob_repr, "allBlockTypes": disable_excl,
             "xsTypes": {d: a["xs types"] for d, a in cspec["assemblies"].items()}}
        try:
            r, cs, bp, text = gen.build_reactor(cspec, overrides)
        except Exception as e:
            rec.crash("build-reactor", e, w)
            continue
        core = r.core
        # ---------------- state preparation: block types, burnups, temperatures, weights
        type_of_spec = {}

        def spec_type(bname):
            if bname not in type_of_spec:
                kind = bname.rsplit("_", 1)[-1]
                type_of_spec[bname] = rng.choice(TYPE_POOL.get(kind, [kind]))
            return type_of_spec[bname]

        bp_blocks = [b for a in r.blueprints.assemblies.values() for b in a]
        core_blocks = core.getBlocks()
        for b in core_blocks + bp_blocks:
            b.setType(spec_type(b.getType()))
        flux_zero = rng.random() < .3
        for b in bp_blocks:  # copies of these join groups whose id is absent from the core
            b.p.flux = 0.0 if flux_zero else 10 ** rng.uniform(10, 16)
            b.p.massHmBOL = rng.uniform(100, 5000)
        for b in core_blocks:
            r_ = rng.random()
            if bu_bounds and r_ < .35:
                b.p.percentBu = float(rng.choice(bu_bounds))
            elif bu_bounds and r_ < .5:
                b.p.percentBu = rng.choice(bu_bounds) + rng.choice([-1e-9, 1e-9, -.5, .5])
            elif r_ < .6:
                b.p.percentBu = 0.0
            else:
                b.p.percentBu = rng.uniform(0, 70)
            b.p.massHmBOL = rng.uniform(100, 5000) if "fuel" in words(b.getType()) or rng.random() < .3 else 0.0
            b.p.flux = 0.0 if flux_zero else 10 ** rng.uniform(10, 16)
            if single and not two_letter and rng.random() < .3:
                b.p.envGroup = rng.choice("ABCDxyz")
            for c in b:
                if c.name in ("fuel", "control", "shield", "reflector") and rng.random() < .8:
                    T = float(rng.choice(t_bounds)) if (t_bounds and rng.random() < .4) else rng.uniform(300, 900)
                    try:
                        c.setTemperature(T)
                    except Exception as e:
                        rec.crash("state-preparation/setTemperature", e, dict(w, component=c.name, T=T))
                elif rng.random() < .3 and c.name in ("clad", "duct", "wire"):
                    c.setTemperature(rng.uniform(300, 700))
                if rng.random() < .5 and c.p.numberDensities:
                    c.setNumberDensities({k: v * rng.uniform(.5, 1.5) for k, v in c.p.numberDensities.items()})
        tw = {id(b): words(b.getType()) for b in core_blocks}
        preset_env = {id(b): b.p.envGroup for b in core_blocks}
        try:
            with quiet():
                csm = xsgm.CrossSectionGroupManager(r, cs)
                csm.interactBOL()
        except Exception as e:
            rec.crash("manager-construction", e, w)
            continue
        before_all = [obs_block(b, light=True) for b in core_blocks]
        try:
            with quiet():
                groups = csm.makeCrossSectionGroups()
        except Exception as e:
            rec.crash("makeCrossSectionGroups", e, w)
            continue
        # ---------------- partition
        nB = len(bu_bounds) + 1

        def judge_partition(groups_, env_given, stage):
            """Every core block in exactly one group, the one its xs type and environment determine. `env_given`: the environment group a
            block carried into the call (decides when there is a single environment group and grouping must not touch it)."""
            sfx = "" if stage == "first" else "-after-representatives"
            tag = "" if stage == "first" else "/second-grouping-after-representatives"
            rec.hit("group.core" + sfx)
            where_ = {}
            for key, coll in groups_.items():
                for b in coll:
                    where_.setdefault(id(b), []).append(key)
            ok_ = True
            for b in core_blocks:
                rec.hit("group.block" + sfx)
                keys = where_.get(id(b), [])
                bw = dict(w, block=b.getName(), xsType=b.p.xsType, percentBu=b.p.percentBu, type=b.getType(), stage=stage)
                if len(keys) != 1:
                    rec.violation("grouping/block-in-%s-groups%s" % ("no" if not keys else "several", tag), "block %s is in groups %s" % (b.getName(), keys), bw)
                    ok_ = False
                    continue
                t = b.p.xsType
                if single:
                    letter = env_given[id(b)]
                else:
                    bi = bisect.bisect_left(bu_bounds, b.p.percentBu)  # bound is the inclusive upper edge of its group
                    if b.p.percentBu in bu_bounds:
                        rec.hit("group.boundary-exact-burnup" + sfx)
                    ti = 0
                    iso = per_type[t]["iso"]
                    if t_bounds and iso:
                        T_armi = float(np.asarray(xsgm.getBlockNuclideTemperature(b, iso), dtype=float).reshape(-1)[0])
                        tb = table(b)
                        num = sum((x["nd"][iso] or TRACE_NUMBER_DENSITY) * x["V"] * x["T"] for x in tb["comps"] if iso in x["nd"])
                        den = sum((x["nd"][iso] or TRACE_NUMBER_DENSITY) * x["V"] for x in tb["comps"] if iso in x["nd"])
                        T_mine = num / den if den > 0 else 0.0
                        rec.hit("group.temperature-helper" + sfx)
                        if abs(T_armi - T_mine) > TOLERANCES["helper_temperature_rel"] * max(abs(T_mine), 1.0):
                            rec.violation("grouping/block-temperature-helper", "getBlockNuclideTemperature(%s, %s)=%r, atom-weighted mean of the components %r" % (b.getName(), iso, T_armi, T_mine), bw)
                        ti = bisect.bisect_left(t_bounds, T_armi)
                        if T_armi in t_bounds:
                            rec.hit("group.boundary-exact-temperature" + sfx)
                        bw["isotopeTemperature"] = T_armi
                    idx = ti * nB + bi
                    letter = LETTERS[idx]
                    bw["expectedEnvIndex"] = idx
                exp_key = t + letter if len(t) == 1 else t
                if b.p.envGroup != letter:
                    rec.violation("grouping/environment-group-wrong" + tag, "block %s (bu %r) has environment group %r, its burnup/temperature determine %r" % (
                        b.getName(), b.p.percentBu, b.p.envGroup, letter), bw)
                    ok_ = False
                elif keys[0] != exp_key:
                    rec.violation("grouping/block-in-wrong-group" + tag, "block %s is in group %r, its type and environment determine %r" % (b.getName(), keys[0], exp_key), bw)
                    ok_ = False
            return ok_, where_

        ok, where_is = judge_partition(groups, preset_env, "first")
        # members that are not core blocks are copies of blueprint blocks whose group was absent from the core (documented)
        core_ids = set(map(id, core_blocks))
        for key, coll in groups.items():
            exp_cls = REPR_CLASS[per_type[key[0] if key not in per_type else key]["repr"]] if (key in per_type or key[0] in per_type) else None
            if exp_cls and type(coll).__name__ != exp_cls:
                rec.violation("grouping/collection-class", "group %s is a %s, settings ask for %s" % (key, type(coll).__name__, exp_cls), dict(w, group=key))
            for b in coll:
                if id(b) not in core_ids:
                    rec.hit("group.blueprint-member")
                    if b.getMicroSuffix() != key:
                        rec.violation("grouping/blueprint-member-wrong", "non-core member %s of group %s has suffix %s" % (b, key, b.getMicroSuffix()), dict(w, group=key))
                    tw[id(b)] = words(b.getType())
        d_after_group = None
        for b, a in zip(core_blocks, before_all):
            d = diff_obs(a, obs_block(b, light=True))
            if d:
                d_after_group = (b, d)
                break
        if d_after_group:
            rec.violation("grouping-changed-a-core-block", "block %s changed by makeCrossSectionGroups (other than its environment group): %s" % (
                d_after_group[0].getName(), d_after_group[1][:8]), w)
        rec.case(["core", len(groups), nbu, ntemp, two_letter, sorted(len(t) for t in used_types)], nontrivial=len(groups) >= 2,
                 sample=dict(w, groups={k: len(v) for k, v in groups.items()}) if i < 1 else None)
        if not ok:
            continue
        # ---------------- representatives through the manager
        before = [obs_block(b) for b in core_blocks]
        env_judged = {id(b): b.p.envGroup for b in core_blocks}  # the partition check above found each of them right
        try:
            with quiet():
                csm.createRepresentativeBlocks()
        except Exception as e:
            rec.crash("createRepresentativeBlocks", e, w)
            check_unchanged(rec, core_blocks, before, "core.unchanged", "core-block", w)
            continue
        check_unchanged(rec, core_blocks, before, "core.unchanged", "core-block", w)
        # ---------------- environment groups after creating representatives (excluded from the observation above, judged here)
        # a block of a group that received a representative keeps the environment group judged just before; the blocks of a group without
        # any eligible member may be re-labelled, as _modifyUnrepresentedXSIDs documents, "to something that is represented" of their type
        represented = set(csm.representativeBlocks)
        relabelled = 0
        for b in core_blocks:
            key = where_is[id(b)][0]
            was, now = env_judged[id(b)], b.p.envGroup
            bw = dict(w, block=b.getName(), group=key, envGroupBefore=was, envGroupAfter=now, represented=sorted(represented))
            if key in represented:
                rec.hit("core.envgroup-kept")
                if now != was:
                    rec.violation("creating-representatives-changed-a-core-block/environment-group-of-a-represented-group",
                                  "block %s of group %s (which received a representative) had environment group %r, after createRepresentativeBlocks() it has %r" % (b.getName(), key, was, now), bw)
                    break
            else:
                rec.hit("core.envgroup-unrepresented")
                allowed = {k[1] for k in represented if len(k) == 2 and k[0] == key[0]} if len(b.p.xsType) == 1 else set()
                if now != was:
                    relabelled += 1
                    if now not in allowed:
                        rec.violation("creating-representatives-changed-a-core-block/unrepresented-group-relabelled-to-an-unrepresented-group",
                                      "block %s of the unrepresented group %s: environment group %r -> %r, represented environment groups of its type: %s" % (
                                          b.getName(), key, was, now, sorted(allowed)), bw)
                        break
        if relabelled:
            rec.hit("core.envgroup-relabel-seen")
            rec.add("core_blocks_of_unrepresented_groups_relabelled_to_a_represented_group (documented; not counted as a change of the core)", relabelled)
        # ---------------- the partition once more, on a second grouping after the representatives were made
        env_given2 = {id(b): b.p.envGroup for b in core_blocks}
        before2 = [obs_block(b, light=True) for b in core_blocks]
        try:
            with quiet():
                groups2 = csm.makeCrossSectionGroups()
        except Exception as e:
            rec.crash("makeCrossSectionGroups/after-representatives", e, w)
            groups2 = None
        if groups2 is not None:
            judge_partition(groups2, env_given2, "second")
            if sorted(groups2) != sorted(groups) and not relabelled:
                rec.violation("grouping/second-grouping-after-representatives/different-groups", "groups %s before, %s after creating representatives (no block was re-labelled)" % (
                    sorted(groups), sorted(groups2)), w)
            for b, a in zip(core_blocks, before2):
                d = diff_obs(a, obs_block(b, light=True))
                if d:
                    rec.violation("grouping-changed-a-core-block", "block %s changed by makeCrossSectionGroups (other than its environment group): %s" % (b.getName(), d[:8]), dict(w, stage="second"))
                    break
        nucs = list(r.blueprints.allNuclidesInProblem)
        for key, coll in groups.items():
            t = key if key in per_type else key[0]
            pt = per_type.get(t)
            if pt is None:
                rec.skip("group of a blueprint-only xs type")
                continue
            members = list(coll)
            cands = [b for b in members if is_candidate(tw[id(b)], pt["valid"])]
            gw = dict(w, group=key, members=[b.getName() for b in members][:12], types=[b.getType() for b in members][:12], settings=pt)
            rep = csm.representativeBlocks.get(key)
            rec.hit("core.rep")
            if not cands:
                if rep is not None:
                    rec.violation("manager/representative-without-eligible-member", "group %s has no eligible member but got a representative" % key, gw)
                continue
            if rep is None:
                rec.violation("manager/eligible-group-without-representative", "group %s has %d eligible members and no representative" % (key, len(cands)), gw)
                continue
            cfg = Cfg(pt["repr"], by_component=pt["byc"], valid=pt["valid"], wp="flux" if pt["repr"] == "FluxWeightedAverage" else None)
            same_area = len({(round(tb_["V"] / tb_["h"], 9)) for tb_ in (table(b) for b in cands)}) == 1
            if pt["repr"] in CYLINDER_KINDS:
                rec.hit("core.rep-cylinder")
            if pt["repr"] == "ComponentAverage1DCylinderDuctHet":
                rec.hit("core.rep-ducthet")
                if len({round(b.getVolume(), 6) for b in cands}) > 1:
                    rec.hit("core.rep-ducthet-differing-weights")
            judge_representative(rec, cfg, members, cands, rep, dict(csm.avgNucTemperatures.get(key, {})), nucs, gw, "manager group %s %s" % (key, pt["repr"]),
                                 exact_comp_temperature=same_area)
            rec.case(["core-rep", pt["repr"], pt["byc"], len(members), len(cands), pt["valid"]], nontrivial=len(cands) >= 2)
