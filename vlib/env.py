"""Process set-up shared by every check shard.

* ruamel/yamlize shim (environment defect, see DESIGN.md section 1) - process local.
* armi is imported from /repo's *current working tree* (PYTHONPATH is forced by ./check).
* one configure() per process, a private cwd, log silencing.
"""
import atexit
import os
import shutil
import sys
import tempfile

REPO = os.environ.get("VERIF_REPO", "/repo")
ASSUMPTIONS = [
    "process-local shim: ruamel.yaml loader classes get max_depth=0 (yamlize 0.7.1 is incompatible "
    "with ruamel.yaml 0.19.1 in this image; not an armi defect, /repo and site-packages untouched)",
    "armi imported from /repo working tree; stock armi.apps.App() configured once per shard process",
    "one fresh interpreter per shard; PYTHONHASHSEED=0; numpy/h5py/ruamel/voluptuous are trusted",
]

_configured = False
_workdir = None


def shim():
    import ruamel.yaml

    for n in ("RoundTripLoader", "Loader", "SafeLoader", "BaseLoader"):
        c = getattr(ruamel.yaml, n, None)
        if c is not None and not hasattr(c, "max_depth"):
            c.max_depth = 0


def workdir():
    """Private scratch cwd, removed at exit."""
    global _workdir
    if _workdir is None:
        _workdir = tempfile.mkdtemp(prefix="armi-verif-")
        os.chdir(_workdir)
        atexit.register(_cleanup)
    return _workdir


def _cleanup():
    try:
        os.chdir("/")
    except OSError:
        pass
    if _workdir:
        shutil.rmtree(_workdir, ignore_errors=True)
    try:
        from armi import context

        fp = context.getFastPath()
        if context._FAST_PATH_IS_TEMPORARY and fp.startswith(context.APP_DATA) and os.path.isdir(fp):
            shutil.rmtree(fp, ignore_errors=True)
    except Exception:
        pass


def setup(full=True):
    """Configure armi exactly once in this process. full=False: import only (no App)."""
    global _configured
    if REPO not in sys.path:
        sys.path.insert(0, REPO)
    shim()
    workdir()
    if _configured or not full:
        return
    os.environ.setdefault("PYTEST_XDIST_WORKER", "v%d" % os.getpid())
    import armi
    from armi import apps, configure, runLog

    assert os.path.realpath(armi.__file__).startswith(os.path.realpath(REPO)), armi.__file__
    if not armi.isConfigured():
        configure(apps.App())
    from armi.conftest import bootstrapArmiTestEnv

    bootstrapArmiTestEnv()
    runLog.setVerbosity("error")
    import logging

    logging.disable(logging.WARNING)
    import warnings

    warnings.filterwarnings("ignore")
    _configured = True


class quiet:
    """Silence stdout/stderr chatter of armi inside a block (keeps our own fd for results)."""

    def __enter__(self):
        self._o, self._e = sys.stdout, sys.stderr
        self._f = open(os.devnull, "w")
        sys.stdout = sys.stderr = self._f
        return self

    def __exit__(self, *a):
        sys.stdout, sys.stderr = self._o, self._e
        self._f.close()
        return False
