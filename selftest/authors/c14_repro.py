"""Minimal reproductions of the three C14 known findings on repo inputs (run: cd /verif && /venv/bin/python selftest/authors/c14_repro.py)."""
import os
import sys

sys.path.insert(0, os.path.dirname(os.path.dirname(os.path.dirname(os.path.abspath(__file__)))))
from vlib import env

env.setup()
from armi.physics.fuelCycle import fuelHandlers
from armi.reactor.flags import Flags
from armi.testing import loadTestReactor
from armi.tests import TEST_ROOT

print("--- lookup/blocksByName/present-block-not-found/sfp/stationary-block-of-fresh-incoming-handed-to-outgoing/after-FuelHandler.dischargeSwap")
with env.quiet():
    o, r = loadTestReactor(customSettings={"trackAssems": True})
fh = fuelHandlers.FuelHandler(o)
out = r.core.getFirstAssembly(Flags.FUEL)
new = r.core.createAssemblyOfType("igniter fuel", cs=o.cs)
fh.dischargeSwap(new, out)
print(out.getLocation(), [b.getName() for b in out], "not in blocksByName:", [b.getName() for b in out if r.core.blocksByName.get(b.getName()) is not b])

print("--- lookup/blocksByName/returns-purged/under-former-name")
with env.quiet():
    o, r = loadTestReactor(customSettings={"trackAssems": False})
fh = fuelHandlers.FuelHandler(o)
out = r.core.getFirstAssembly(Flags.FUEL)
gp = out[0]
old = gp.getName()
new = r.core.createAssemblyOfType("igniter fuel", cs=o.cs)
fh.dischargeSwap(new, out)
print(old, "->", gp.getName(), "owner", gp.parent.getName(), "| old key kept:", r.core.blocksByName.get(old) is gp)
r.core.removeAssembly(new, discharge=False)
print("after purging", new.getName(), ": blocksByName[%r] ->" % old, r.core.blocksByName.get(old), "| owner's parent:", r.core.blocksByName[old].parent.parent)

print("--- crash/Core.removeAssembly.to-default-sfp-without-grid/AttributeError")
with env.quiet():
    o, r = loadTestReactor(os.path.join(TEST_ROOT, "anl-afci-177"), inputFileName="anl-afci-177.yaml", customSettings={"trackAssems": True})
a = r.core[5]
try:
    r.core.removeAssembly(a)
except Exception as e:
    print(type(e).__name__, e, "| parent:", a.parent, "in core:", a in r.core.getChildren(), "in pool:", a in r.excore["sfp"].getChildren(),
          "still in assembliesByName:", a.getName() in r.core.assembliesByName)
